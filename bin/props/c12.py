"""C12 - decoding any DNS message terminates, within bounds, without panicking.
spec/DnsWalk.tla (pointer walk as a state machine, all layouts), spec/DnsWire.tla (framing: the decoder must give every
well-formed message back with the Go type its record type implies), structural damage of spec-generated messages, worst
cases stretched to 64 KiB, and every decoded message driven through the resolver."""
import json
import vlib
import c13


def run(ctx):
    ctx.rule = ("(a) every layout of N cells in {label, end, pointer->j, junk} x every start cell, N = 4 (quick) / 5 (thorough): 9604 / 163840 walks; "
                "(b) every message of DnsWire's domain: Data has the Go type of its record type; (c) every length field / count of sampled messages "
                "damaged (+1, -1, truncated) and every truncation; (d) 64 KiB pointer chains and label runs for the time/memory bound; "
                "(e) each decodable message served to Resolver.Resolve under recover")
    ctx.assumptions = ["grammar-level adversarial inputs only; unstructured / coverage-guided mutation is outside this technique (DESIGN 6)",
                       "time bound 2 s per message (the largest legal case decodes in a few ms), allocation bound 64 x input + 1 MiB per message, "
                       "quadratic worst case accepted as 'small polynomial'"]
    if ctx.replay:
        raise vlib.Inconclusive("replay: re-run the check")
    # (a) pointer walk
    r = ctx.tlc("MCDnsWalk", "MCDnsWalk_4.cfg" if ctx.quick else "MCDnsWalk_5.cfg", timeout=2400)
    if r["violated"] or not r["ok"]:
        raise vlib.Inconclusive("model-level violation in DnsWalk.tla: " + str(r["violated"]))
    ctx.states += r["distinct"]
    ctx.transitions += r["generated"]
    walks = vlib.parse_emitted(r["out"])
    f_in, f_out = ctx.path("walk.ndjson"), ctx.path("walk-obs.ndjson")
    vlib.write_ndjson(f_in, walks)
    rc, out = ctx.go_test("^TestDnsWalkCases$", env={"VH_IN": f_in, "VH_OUT": f_out}, timeout=2400)
    res = vlib.read_ndjson(f_out)
    summ = [x for x in res if x.get("summary")]
    if not summ:
        raise vlib.Inconclusive("walk driver did not finish:\n" + out[-1500:])
    ctx.evaluations += len(walks)
    ctx.traces += len(walks) - summ[0]["bad"]
    for w in walks:
        ctx.distinct.add(vlib.fp([w["cells"], w["start"]]))
    for x in res:
        if x.get("summary"):
            continue
        c = x["case"]
        ctx.violation("walk:%s:%d" % ("".join(cl["k"] + (str(cl.get("to", "")) if cl["k"] == "P" else "") for cl in c["cells"]), c["start"]),
                      "layout %s entered at cell %d: %s (message %s)" % (json.dumps(c["cells"]), c["start"], x["diff"], x["msg"]), x)
    ctx.sample(walks[len(walks) // 3])
    # unbounded: the ranking argument (seg*(N+1) + N - pos decreases at every step) is proved with TLAPS for every N
    if not ctx.quick:
        ctx.tlaps("DnsWalkProof", theorem="Spec => [](Inv /\\ StepBound) for every N \\in Nat")
    # (b) framing and typing on the wire domain
    fams = ["names", "opt", "decodeonly", "sections"] if ctx.quick else [f for f in c13.FAMILIES if f != "pad"]
    cases = c13.wire_cases(ctx, fams)
    c13.replay(ctx, cases, "DNS decoder typing")
    # (c) (d) (e) adversarial framing, stress, resolver
    f_in2, f_out2 = ctx.path("adv.ndjson"), ctx.path("adv-obs.ndjson")
    vlib.write_ndjson(f_in2, [{k: v for k, v in c.items() if k != "_family"} for c in cases[::7 if ctx.quick else 2]])
    rc, out = ctx.go_test("^TestDnsAdversarial$", env={"VH_IN": f_in2, "VH_OUT": f_out2}, timeout=2400)
    res = vlib.read_ndjson(f_out2)
    summ = [x for x in res if x.get("summary")]
    if not summ:
        raise vlib.Inconclusive("adversarial DNS driver did not finish:\n" + out[-1500:])
    ctx.evaluations += summ[0]["evaluations"]
    ctx.traces += summ[0]["evaluations"] - summ[0]["bad"]
    ctx.notes["adversarial"] = summ[0]
    for x in res:
        if x.get("summary"):
            continue
        ctx.violation("adv:%s:%s" % (x["kind"], x.get("key", "")), "adversarial DNS input (%s): %s" % (x["kind"], x["diff"][:400]), x)
    # (f) the way every response body reaches the decoder: spec/Doh.tla (status x framing x body; size bound, no panic)
    import c14
    c14.doh_stage(ctx)
