"""C05 - without ECH acceptance the connection is passed through unmodified."""
import echcommon, vlib


def run(ctx):
    ctx.rule = ("abstract causes of non-acceptance (no ECH extension, GREASE/unknown config id, undecryptable payload, no TLS 1.3 offer, no "
                "supported_versions, no keys, unrelated keys, tampered hellos) on every layout; plus foreign encodings (arbitrary extension types, "
                "order, GREASE, empty bodies, sizes to 16 KiB, TLS 1.0-1.3 version lists) checked against crypto/tls as independent oracle")
    ctx.assumptions = ["generator excludes SNI name_type != 0, empty names/protocols and hellos split across records (DESIGN 6)"]
    echcommon.run_family(ctx, ["MCEchHello_c05.cfg"], sample=2000 if ctx.quick else None, what="C05")
    # tampered hellos that fall back must be forwarded untouched as well
    echcommon.run_family(ctx, ["MCEchHello_c02.cfg"], select=lambda c: c["res"]["kind"] == "pass", sample=600 if ctx.quick else 4000, what="C05 tamper-fallback")
    echcommon.foreign(ctx)
    # Conn level: a connection whose ECH was not accepted is never interpreted, whatever the backend answers
    echcommon.echconn_slice(ctx, lambda c: c["first"] != "acc", label="notaccepted")
    # "every later byte": the connection NewConn returns carries no deadline of the context (EchWatch.tla scenarios)
    import c10
    c10.run_watch(ctx, 8 if ctx.quick else 60, 64, label="c05w")
