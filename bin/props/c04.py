"""C04 - illegal or malformed Encrypted Client Hellos are aborted with the mandated alert."""
import echcommon


def run(ctx):
    ctx.rule = ("case = honest hello from the layout library (4 outer x 4 inner layouts x every legal compression run x padding x session id) "
                "x one rule violation of draft-ietf-tls-esni 5.1/7/7.1 x key list; non-zero padding tried at every padding position; "
                "distinct = distinct (operator, layout, run, pad, sid, keys)")
    ctx.assumptions = ["symbolic AEAD in the model; real HPKE (crypto/hpke) on the concrete side", "first hello only; the retried-hello path is C06"]
    echcommon.run_family(ctx, ["MCEchHello_c04.cfg"], sample=3000 if ctx.quick else None, what="C04")
    # the retried-hello path: every history of EchConn.tla that ends in an abort (alert + close on Conn.Read)
    echcommon.echconn_slice(ctx, lambda c: any(o[0] == "abort" for o in c["outs"]), label="aborts")
    # the retried hello as a proxy sees it (reader parked while the HelloRetryRequest is written): illegal second hellos
    # are aborted there too
    echcommon.echconn_slice(ctx, lambda c: any(c["hist"][i] == ["w", "HRR"] and c["hist"][i + 1][0] == "r" for i in range(len(c["hist"]) - 1)), label="hrr flights")
