"""C03 - an accepted inner hello is reconstructed byte-exactly."""
import echcommon


def run(ctx):
    ctx.rule = ("case = inner layout x outer layout x every order-preserving run compressed into ech_outer_extensions (every marker position "
                "the layouts admit) x padding x session id; each replayed at three size classes (extension bodies stretched by 0, 300 and 900 bytes each, hello sizes up to ~12 KB); "
                "compared byte for byte with the independent encoding of the committed inner hello")
    ctx.assumptions = ["compressed extensions form one contiguous run (one ech_outer_extensions marker), as the draft requires"]
    echcommon.run_family(ctx, ["MCEchHello_c03.cfg"], mode="stretch", what="C03")
    # legal but unusual references (e.g. the server name taken from the outer hello)
    echcommon.run_family(ctx, ["MCEchHello_c04.cfg"], select=lambda c: c["op"] == "eoeRefsSni" and c["holds"], what="C03 eoeRefsSni",
                         sample=40 if ctx.quick else None)
    # the names the Conn reports stay those of the reconstructed hello for the rest of the connection - in particular after a
    # HelloRetryRequest round trip (EchConn.tla histories with a retried hello; ALPN lists in the client's order of preference)
    echcommon.echconn_slice(ctx, lambda c: any(c["hist"][i] == ["w", "HRR"] and c["hist"][i + 1][0] == "r" for i in range(len(c["hist"]) - 1)), label="hrr flights")
