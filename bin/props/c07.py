"""C07 - Conn is an order-preserving, lossless byte pipe for every fragmentation and cut.
spec/EchPipe.tla (stream positions). TLC explores every chunking / buffer size / write split / cut for small records;
real-size behaviour is bound by trace validation of seeded random runs on the real Conn (direction B)."""
import json
import vlib


def run(ctx):
    ctx.rule = ("model: all scenarios of <=2/3 client records and <=3 backend records with body lengths {0,2}, every cut offset and kind, "
                "caller buffers {1,3,100}, every write split; implementation: seeded random scenarios with real records (lengths 0..16640, "
                "oversize headers, a real retried hello, HRR/SH/malformed SH), random transport chunking incl. 1 byte at a time, buffers 1..70000, "
                "random write splits, cut (EOF/error) at a random offset, in a third of the scenarios one expired read deadline at a random offset or record boundary; distinct = distinct scenario; non-trivial = at least one record after the hello")
    ctx.assumptions = ["write-side transport faults (short writes) are not generated", "contents are compared by the harness against the stream "
                       "positions the specification prescribes (field m / wok of each event)"]
    if not ctx.replay:
        ctx.mc("MCEchPipe", "MCEchPipe_rq.cfg", timeout=1200)
        # ... and with one transient transport error (an expired read deadline the caller extends) at every byte offset
        ctx.mc("MCEchPipe", "MCEchPipe_rqt.cfg" if ctx.quick else "MCEchPipe_rtt.cfg", timeout=3000)
        ctx.mc("MCEchPipe", "MCEchPipe_wq.cfg" if ctx.quick else "MCEchPipe_w.cfg", timeout=1200)
        if not ctx.quick:
            ctx.mc("MCEchPipe", "MCEchPipe_rl.cfg", timeout=3000)     # liveness: a persistent reader gets everything
            ctx.mc("MCEchPipe", "MCEchPipe_rt.cfg", timeout=3000)
    pipe_traces(ctx, 1200 if ctx.quick else 16000)
    # both directions at once: the reader already parked in the transport when the backend writes its HelloRetryRequest
    if not ctx.replay:
        hrr_parked(ctx)
        # hellos this library's own encoder never produces (pre-1.3 forms, present-but-empty extension blocks, arbitrary extension
        # types): not replaced, so the backend gets the client's bytes exactly
        import echcommon
        echcommon.foreign(ctx, n=200 if ctx.quick else 5000, what="C07")


def pipe_traces(ctx, n, label="pp"):
    """n seeded random record streams at real sizes through the real Conn; every recorded call trace validated by TLC."""
    f_out = ctx.path(label + "-pipe.ndjson")
    env = {"VH_OUT": f_out, "VH_N": n}
    if ctx.replay:
        rp = json.load(open(ctx.replay))["replay"]
        env["VERIF_SEED"] = rp.get("seed", ctx.seed)
    rc, out = ctx.go_test("^TestPipeScenarios$", env=env, timeout=2400)
    traces = vlib.split_traces(vlib.read_ndjson(f_out))
    if len(traces) < n and not (traces and any(e.get("e") == "crash" for e in traces[-1])):
        raise vlib.Inconclusive("pipe driver produced %d of %d traces:\n%s" % (len(traces), n, out[-1500:]))
    for tr in traces:
        sc = tr[0]["scen"]
        ctx.case(vlib.fp(sc), nontrivial=bool(sc["crecs"] or sc["brecs"]))
    for tr in traces[:1] + traces[7:8]:
        ctx.sample(tr[:12])
    for tr in traces:
        tr[0]["seed"] = ctx.seed
    vlib.check_traces_chunks(ctx, traces, 400 if ctx.quick else 4000, label, module="TraceEchPipe", cfg="TraceEchPipe.cfg", specname="EchPipe.tla")


def hrr_parked(ctx):
    import echcommon
    echcommon.echconn_slice(ctx, lambda c: any(c["hist"][i] == ["w", "HRR"] and c["hist"][i + 1][0] == "r" for i in range(len(c["hist"]) - 1)), label="hrr flights")
