"""C17 - Dial never weakens the caller's ECH or server-name requirements.
spec/DialPolicy.tla, spec/TraceDialPolicy.tla; direction B over all TLC-enumerated policy scenarios."""
import json, random
import vlib


def run(ctx):
    ctx.rule = ("scenario = caller config (ECH list nil/own, ServerName empty/own) x RequireECH x PublicName x per-target ech "
                "{nil,E1,E2} x per-target outcome script {ok, err, rej(nil), rej(R1) then ok/err/rej(R2)}; enumerated by TLC from "
                "DialPolicy.tla Init; each run with MaxConcurrency 1 and 3; distinct = distinct (scenario, K)")
    ctx.assumptions = ["'lacks an ECH config list' means the list is nil (DESIGN 6)", "resolution result injected through the verif context hook "
                       "(the same context key Transport uses); DoH path covered by TestDialPolicyDoH"]
    if ctx.replay:
        scens = [json.load(open(ctx.replay))["replay"]["scenario"]]
    else:
        # design level, unbounded: the four requirements on the invocation history for any number of targets (TLAPS)
        ctx.tlaps("DialPolicyProof", deps=("DialPolicy",), theorem="Spec => [](NeverWithoutECH /\\ CallerECHKept /\\ FromOwnRecord /\\ ServerNameFromCaller) for every n, records, scripts, interleaving")
        ctx.mc("DialPolicy", "MCDialPolicy.cfg" if ctx.quick else "MCDialPolicy3.cfg", timeout=1200)
        scens = ctx.emit("DialPolicyScen", "DialPolicyScen.cfg" if ctx.quick else "DialPolicyScen3.cfg", timeout=900)
        if ctx.quick:
            # all 1-target scenarios + a seeded sample of the 2-target ones
            rnd = random.Random(ctx.seed)
            one = [s for s in scens if s["n"] == 1]
            two = [s for s in scens if s["n"] == 2]
            rnd.shuffle(two)
            scens = one + two[:1500]
            ctx.exhaustive = False
    f_in, f_out = ctx.path("scen.ndjson"), ctx.path("traces.ndjson")
    vlib.write_ndjson(f_in, scens)
    rc, out = ctx.go_test("^TestDialPolicyScenarios$", env={"VH_IN": f_in, "VH_OUT": f_out, "VH_KS": "1,3"}, timeout=1500)
    traces = vlib.split_traces(vlib.read_ndjson(f_out))
    if len(traces) < 2 * len(scens):
        if rc == 0:
            raise vlib.Inconclusive("harness produced %d of %d traces" % (len(traces), 2 * len(scens)))
        k = len(traces) % len(scens)
        ctx.violation("harness-death:" + vlib.fp(scens[k]), "Dial policy harness died on scenario %s: %s" % (json.dumps(scens[k]), out[-600:]),
                      {"scenario": scens[k], "output": out[-3000:]})
    for tr in traces:
        ctx.case(vlib.fp([tr[0]["scen"], tr[0]["K"]]))
    for tr in traces[:2] + traces[-1:]:
        ctx.sample(tr)
    vlib.check_traces_chunks(ctx, traces, 6000, "p", module="TraceDialPolicy", cfg="TraceDialPolicy.cfg", specname="DialPolicy.tla")
    # DoH path: names from DNS (aliases, service targets) must never become the TLS server name
    rc, out = ctx.go_test("^TestDialPolicyDoH$", env={"VH_OUT": ctx.path("doh.ndjson")}, timeout=600)
    obs = vlib.read_ndjson(ctx.path("doh.ndjson"))
    if not obs:
        raise vlib.Inconclusive("DoH policy driver produced nothing:\n" + out[-1500:])
    for o in obs:
        ctx.case("doh:" + vlib.fp(o["case"]))
        if not o["ok"]:
            ctx.violation("doh:" + vlib.fp(o["case"]), "Dial used a TLS ServerName/ECH list not prescribed by the policy (DoH path): " + json.dumps(o),
                          o)
    ctx.notes["doh_cases"] = len(obs)
    transport_slice(ctx)


def transport_slice(ctx):
    """The server name on the Transport path (Transport hands the URL's host to Dialer.Dial): the cases of Transport.tla in
    which the caller sets its own Host header - the TLS name must still be the URL's host."""
    import random
    r = ctx.tlc("MCTransport", "MCTransport_fn.cfg", timeout=1800, name="tr-fn")
    if r["violated"] or not r["ok"]:
        raise vlib.Inconclusive("model-level violation in Transport.tla: %s" % r["violated"])
    ctx.states += r["distinct"]
    ctx.transitions += r["generated"]
    cs = [c for c in vlib.parse_emitted(r["out"]) if any(q.get("hh") for q in c["reqs"])]
    rnd = random.Random(ctx.seed)
    rnd.shuffle(cs)
    cs = cs[:150 if ctx.quick else 1500]
    f_in, f_out = ctx.path("tr17.ndjson"), ctx.path("tr17-obs.ndjson")
    vlib.write_ndjson(f_in, cs)
    rc, out = ctx.go_test("^TestTransportCases$", env={"VH_IN": f_in, "VH_OUT": f_out}, timeout=1500)
    res = vlib.read_ndjson(f_out)
    summ = [x for x in res if x.get("summary")]
    if not summ:
        raise vlib.Inconclusive("transport driver did not finish:\n" + out[-1500:])
    ctx.evaluations += len(cs)
    if summ[0].get("env"):
        raise vlib.Inconclusive("%d cases hit an environment failure (no local port / descriptor); nothing is concluded from them" % summ[0]["env"])
    ctx.traces += len(cs) - summ[0]["bad"]
    ctx.notes["transport_host_header_cases"] = len(cs)
    for x in res:
        if not x.get("summary"):
            c = x["case"]
            ctx.violation("transport:" + vlib.fp([c["reqs"], c["recs"], c["h3"]]), "Transport path, requests %s: %s" % (json.dumps(c["reqs"]), x["diff"]), x)
