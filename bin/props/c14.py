"""C14 - Resolve follows RFC 9460 and uses only answers that belong to the name asked (spec/Resolve.tla)."""
import json, random
import vlib


def run(ctx):
    ctx.rule = ("case = input form (21 forms: host, host:port, URIs with http/https/other schemes, upper case, paths, schemes of 62/63/300 chars, "
                "names of 253/256 bytes, 64-byte label, over-long prefixed name, IP literals, localhost) x HTTPS data shape at the RFC 9460 name "
                "(16: absent, NXDOMAIN, SERVFAIL, REFUSED, alias to '.', service '.', service to a target, unsorted priorities, poisoned foreign "
                "records, via CNAME, alias loop, alias chains 1..6) x A shape (9, incl. foreign-owner and foreign-CNAME poisoning) x AAAA shape x "
                "target shape; distinct = distinct (input, shapes)")
    ctx.assumptions = ["DNS universe drawn from the shape library of Resolve.tla", "query sequence constrained only by allowed names and count bounds"]
    if ctx.replay:
        cases = [json.load(open(ctx.replay))["replay"]["case"]]
    else:
        cases = []
        for cfg in ("MCResolve_inputs.cfg", "MCResolve_zones.cfg"):
            r = ctx.tlc("MCResolve", cfg, timeout=1800)
            if r["violated"] or not r["ok"]:
                raise vlib.Inconclusive("model-level violation in Resolve.tla/%s: %s" % (cfg, r["violated"]))
            ctx.states += r["distinct"]
            ctx.transitions += r["generated"]
            cs = vlib.parse_emitted(r["out"])
            if cfg == "MCResolve_zones.cfg" and ctx.quick:
                rnd = random.Random(ctx.seed)
                # every single-shape deviation from the benign universe, plus a seeded sample of the rest
                benign = {"hs": "svct", "as": "addr", "a6s": "addr", "ts": "addr"}
                near = [c for c in cs if sum(1 for k in benign if c[k] != benign[k]) <= 1]
                rest = [c for c in cs if sum(1 for k in benign if c[k] != benign[k]) > 1]
                rnd.shuffle(rest)
                cs = near + rest[:1500]
                ctx.exhaustive = False
            cases += cs
    f_in, f_out = ctx.path("rs.ndjson"), ctx.path("rs-obs.ndjson")
    vlib.write_ndjson(f_in, cases)
    rc, out = ctx.go_test("^TestResolveCases$", env={"VH_IN": f_in, "VH_OUT": f_out}, timeout=2400)
    res = vlib.read_ndjson(f_out)
    summ = [x for x in res if x.get("summary")]
    if not summ:
        raise vlib.Inconclusive("resolve driver did not finish:\n" + out[-1500:])
    if summ[0].get("env"):
        raise vlib.Inconclusive("%d cases hit an environment failure (descriptor/port exhaustion, overload); nothing is concluded from them" % summ[0]["env"])
    ctx.evaluations += len(cases)
    ctx.traces += len(cases) - summ[0]["bad"]
    for c in cases:
        ctx.distinct.add("%s/%s/%s/%s/%s" % (c["inp"]["id"], c["hs"], c["as"], c["a6s"], c["ts"]))
    for x in res:
        if x.get("summary"):
            continue
        ctx.violation("resolve:" + x["key"], "Resolve case %s: %s" % (x["key"], x["diff"][:400]), x)
    for c in cases[:1] + cases[len(cases) // 2:len(cases) // 2 + 1]:
        ctx.sample({"input": c["inp"], "shapes": [c["hs"], c["as"], c["a6s"], c["ts"]], "spec_queries": c["queries"], "spec_result": c["result"]})

    doh_stage(ctx)
    big_compressed(ctx)
    # what Resolve answers when two callers meet on one cache entry (a caller that waited for another caller's refresh answers
    # with the refreshed data, not with what it saw before waiting): the parked interleavings of ResolverCache.tla
    import c16
    c16.parked_stage(ctx)

    # direction B: seeded random DNS universes (chains and loops of any length, CNAME chains, error names, poisoned answers);
    # TLC runs Resolve.tla on each recorded universe and the observed result / queries must be the specification's
    n = 400 if ctx.quick else 20000
    f_tr = ctx.path("rz.ndjson")
    rc, out = ctx.go_test("^TestResolveRandomZones$", env={"VH_OUT": f_tr, "VH_N": n}, timeout=2400)
    traces = vlib.split_traces(vlib.read_ndjson(f_tr))
    if len(traces) < n:
        raise vlib.Inconclusive("random-zone driver produced %d of %d traces:\n%s" % (len(traces), n, out[-1500:]))
    for tr in traces:
        ctx.case("rz:" + vlib.fp(tr[0]["scen"]))
    ctx.notes["random_zones"] = len(traces)
    ctx.sample({"random_zone_trace": [tr for tr in traces[:1]][0][:3]})
    vlib.check_traces_chunks(ctx, traces, 4000, "rz", module="TraceResolve", cfg="TraceResolve.cfg", specname="Resolve.tla (random zone)")


def doh_stage(ctx):
    """spec/Doh.tla: the RFC 8484 exchange every lookup goes through (status x framing x body, retried failures, context)."""
    r = ctx.tlc("MCDoh", "MCDoh.cfg", timeout=600)
    if r["violated"] or not r["ok"]:
        raise vlib.Inconclusive("model-level violation in Doh.tla: %s" % r["violated"])
    ctx.states += r["distinct"]
    ctx.transitions += r["generated"]
    cases = vlib.parse_emitted(r["out"])
    f_in, f_out = ctx.path("doh.ndjson"), ctx.path("doh-obs.ndjson")
    vlib.write_ndjson(f_in, cases)
    rc, out = ctx.go_test("^TestDohCases$", env={"VH_IN": f_in, "VH_OUT": f_out, "VH_FULLRETRY": "0" if ctx.quick else "1"}, timeout=1200)
    res = vlib.read_ndjson(f_out)
    summ = [x for x in res if x.get("summary")]
    if not summ:
        raise vlib.Inconclusive("DoH driver did not finish:\n" + out[-1500:])
    if summ[0].get("env"):
        raise vlib.Inconclusive("%d DoH cases hit an environment failure" % summ[0]["env"])
    ctx.evaluations += summ[0]["cases"]
    ctx.traces += summ[0]["cases"] - summ[0]["bad"]
    ctx.notes["doh_exchanges"] = summ[0]["cases"]
    for x in res:
        if not x.get("summary"):
            ctx.violation("doh:" + x["key"], "DoH exchange %s: %s" % (x["key"], x["diff"][:400]), x)


def big_compressed(ctx):
    """records of another owner named by compression pointers beyond offset 1023 in a > 1 KiB response"""
    f = ctx.path("bigc.ndjson")
    rc, out = ctx.go_test("^TestResolveBigCompressed$", env={"VH_OUT": f}, timeout=600)
    res = vlib.read_ndjson(f)
    summ = [x for x in res if x.get("summary")]
    if not summ:
        raise vlib.Inconclusive("big-compressed driver did not finish:\n" + out[-1500:])
    if summ[0].get("env"):
        raise vlib.Inconclusive("environment failure in the big-compressed driver")
    ctx.evaluations += summ[0]["cases"]
    for x in res:
        if not x.get("summary"):
            ctx.violation("bigc:" + x["key"], "Resolve on a large compressed response: " + x["diff"], x)
