"""C15 - connection targets are a pure, rule-conforming function of the resolution result (spec/Targets.tla)."""
import json
import vlib


def run(ctx):
    ctx.rule = ("input = Port {80,443,8443} x 6 address lists (v4/v6/duplicates/empty) x Additional lists x HTTPS record sets (0 records; every "
                "1-record combination of priority/target/port/hints/ech/alpn/no-default-alpn; thorough: all pairs of a reduced record set) x "
                "network {tcp,tcp4,tcp6,udp,udp4,udp6}; every early-termination point; distinct = distinct input")
    ctx.assumptions = ["IP addresses in the canonical 4/16-byte forms Resolve produces"]
    if ctx.replay:
        cases = [json.load(open(ctx.replay))["replay"]["case"]]
    else:
        r = ctx.tlc("MCTargets", "MCTargets_q.cfg" if ctx.quick else "MCTargets_t.cfg", timeout=2400)
        if r["violated"] or not r["ok"]:
            raise vlib.Inconclusive("model-level violation in Targets.tla: " + str(r["violated"]))
        ctx.states += r["distinct"]
        ctx.transitions += r["generated"]
        cases = vlib.parse_emitted(r["out"])
        if ctx.quick:   # two-record interactions (a record after another one) on a reduced value set
            r2 = ctx.tlc("MCTargets", "MCTargets_q2.cfg", timeout=1200)
            if r2["violated"] or not r2["ok"]:
                raise vlib.Inconclusive("model-level violation in Targets.tla (pairs): " + str(r2["violated"]))
            ctx.states += r2["distinct"]
            ctx.transitions += r2["generated"]
            cases += vlib.parse_emitted(r2["out"])
    f_in, f_out = ctx.path("tg.ndjson"), ctx.path("tg-obs.ndjson")
    vlib.write_ndjson(f_in, cases)
    rc, out = ctx.go_test("^TestTargetsCases$", env={"VH_IN": f_in, "VH_OUT": f_out}, timeout=1800)
    res = vlib.read_ndjson(f_out)
    summ = [x for x in res if x.get("summary")]
    if not summ:
        raise vlib.Inconclusive("targets driver did not finish:\n" + out[-1500:])
    ctx.evaluations += len(cases)
    ctx.traces += len(cases) - summ[0]["bad"]
    for c in cases:
        ctx.distinct.add(vlib.fp([c["port"], c["addrs"], c["https"], c["addl"], c["net"]]))
    for x in res:
        if x.get("summary"):
            continue
        c = x["case"]
        ctx.violation("targets:" + vlib.fp([c["port"], c["addrs"], c["https"], c["addl"], c["net"]]),
                      "Targets(%s) on Port=%s Address=%s HTTPS=%s: %s" % (c["net"], c["port"], c["addrs"], json.dumps(c["https"]), x["diff"]), x)
    for c in cases[len(cases) // 2:len(cases) // 2 + 2]:
        ctx.sample(c)
