"""C16 - the resolver cache never serves stale answers and is safe under concurrency (spec/ResolverCache.tla)."""
import json, random, subprocess, os
import vlib


def run(ctx):
    ctx.rule = ("(A) every history of length 5 over {resolve(n1), resolve(n2), advance clock 1 s, change data of n1/n2, upstream fails/recovers} "
                "x TTL lists of the response per generation from {[], [0], [1], [2], [0,2], [2,1], [3,0,2]} (first TTL on a CNAME, the rest on "
                "the records; CNAME-only variants), for record types A / HTTPS / AAAA in turn; (B) 2/4/16 goroutines resolving and iterating "
                "Targets concurrently under the race detector with environment steps at barriers; distinct = distinct (TTL lists, history)")
    ctx.assumptions = ["time does not advance between an upstream fetch and its store (hooked clock)", "verif clock hook replaces the package clock",
                       "race detector as the observation instrument for the data-race clause"]
    # design level: all interleavings of 2 goroutines over entry OBJECTS (Get/Add as separate steps, remove-on-failure, evictions,
    # cancelled callers), incl. ServedFromCache: a call that found a valid entry never asks upstream before it expires
    # unbounded design-level result (any number of goroutines, keys, generations, clock range, TTL lists): TLAPS
    ctx.tlaps("ResolverCacheProof", deps=("ResolverCache",), theorem="Spec => [](Fresh /\\ EntryExact /\\ KeyOK), any number of goroutines/keys/objects, MinOf uninterpreted")
    if not ctx.quick:
        ctx.tlaps("ResolverCacheServedProof", deps=("ResolverCache",), theorem="Spec => []ServedFromCache (a call that found a valid entry never asks upstream before "
                  "its expiry), any number of goroutines/keys/objects, evictions/failures/cancellations; MinOf only assumed natural-valued", timeout=3000)
    ctx.mc("ResolverCache", "MCResolverCache_concq.cfg" if ctx.quick else "MCResolverCache_conc.cfg", timeout=3000)
    if ctx.replay:
        cases = [json.load(open(ctx.replay))["replay"]["case"]]
    else:
        cases = ctx.emit("MCResolverCache", "MCResolverCache_hist.cfg", workers=8, timeout=1800)
        if ctx.quick:
            rnd = random.Random(ctx.seed)
            rnd.shuffle(cases)
            cases = cases[:2400]
            ctx.exhaustive = False
    f_in = ctx.path("cache.ndjson")
    vlib.write_ndjson(f_in, cases)
    # the clock hook is process-global: shard over processes, not goroutines
    nshard = 8
    vlib.sync_gosum()
    env = vlib.go_env()
    binp = ctx.path("harness.test")
    b = subprocess.run(["go1.26", "test"] + vlib.modfile_args(ctx.scratch) + ["-tags", "verif", "-c", "-o", binp, "."], cwd=vlib.HARNESS, env=env, capture_output=True, text=True)
    if b.returncode != 0:
        raise vlib.Inconclusive("harness build failed:\n" + b.stdout[-2000:] + b.stderr[-2000:])
    procs = []
    for s in range(nshard):
        e = dict(env, VH_IN=f_in, VH_OUT=ctx.path("cache-obs-%d.ndjson" % s), VH_SHARD=str(s), VH_NSHARD=str(nshard), VERIF_SEED=str(ctx.seed))
        procs.append(subprocess.Popen([binp, "-test.run", "^TestCacheHistories$", "-test.timeout", "3000s"], cwd=vlib.HARNESS, env=e,
                                      stdout=subprocess.PIPE, stderr=subprocess.STDOUT, text=True))
    total, bad = 0, 0
    for s, p in enumerate(procs):
        out, _ = p.communicate(timeout=3100)
        res = vlib.read_ndjson(ctx.path("cache-obs-%d.ndjson" % s))
        summ = [x for x in res if x.get("summary")]
        if not summ:
            raise vlib.Inconclusive("cache history shard %d did not finish:\n%s" % (s, out[-1500:]))
        total += summ[0]["cases"]
        bad += summ[0]["bad"]
        if summ[0].get("env"):
            raise vlib.Inconclusive("%d histories hit an environment failure (descriptor/port exhaustion, overload)" % summ[0]["env"])
        for x in res:
            if x.get("summary"):
                continue
            c = x["case"]
            ctx.violation("cache:%s:%s" % (json.dumps(c["ttls"]), "/".join(o["op"] + (o.get("k") or "") for o in c["hist"])),
                          "history %s with TTL lists %s: %s" % (" ".join(o["op"] + (":" + o["k"] if o.get("k") else "") for o in c["hist"]), c["ttls"], x["diff"]), x)
    ctx.evaluations += total
    ctx.traces += total - bad
    for c in cases:
        ctx.distinct.add(vlib.fp(c))
    ctx.sample(cases[0])
    # (B) concurrency under the race detector
    f_out = ctx.path("conc.ndjson")
    rc, out = ctx.go_test("^TestCacheConcurrent$", env={"VH_OUT": f_out, "VH_N": 12 if ctx.quick else 200}, race=True, timeout=2400)
    if "DATA RACE" in out:
        i = out.index("DATA RACE")
        ctx.violation("race:" + vlib.fp(out[i:i + 600].split("\n")[2:6]), "data race under concurrent Resolve/Targets:\n" + out[i:i + 1500], {"output": out[i:i + 4000]})
    # 16 goroutines: race detector only (the unlogged lock steps of 16 goroutines are too many interleavings to validate)
    rc2, out2 = ctx.go_test("^TestCacheConcurrent$", env={"VH_OUT": ctx.path("conc16.ndjson"), "VH_N": 48 if ctx.quick else 300, "VH_BIGG": "1"}, race=True, timeout=2400)
    if "DATA RACE" in out2:
        i = out2.index("DATA RACE")
        ctx.violation("race:" + vlib.fp(out2[i:i + 600].split("\n")[2:6]), "data race under concurrent Resolve/Targets (16 goroutines):\n" + out2[i:i + 1500], {"output": out2[i:i + 4000]})
    traces = vlib.split_traces(vlib.read_ndjson(f_out))
    if not traces:
        if "DATA RACE" in out:
            return
        raise vlib.Inconclusive("concurrent driver produced nothing:\n" + out[-1500:])
    ctx.notes["concurrent_rounds"] = len(traces)
    ctx.sample(traces[0][:25])
    # rounds run with SetCacheSize(1) / SetCacheSize(0) are validated against the specification with evictions enabled
    plain = [tr for tr in traces if not tr[0]["scen"].get("evicts")]
    evict = [tr for tr in traces if tr[0]["scen"].get("evicts")]
    ctx.notes["concurrent_rounds_with_evictions"] = len(evict)
    if plain:
        vlib.check_traces(ctx, plain, "conc", module="TraceResolverCache", cfg="TraceResolverCache.cfg", specname="ResolverCache.tla")
    if evict:
        vlib.check_traces(ctx, evict, "conce", module="TraceResolverCache", cfg="TraceResolverCacheE.cfg", specname="ResolverCache.tla (evictions: cache of size 1 / no cache)")
    parked_stage(ctx)
    # what gets cached comes out of one DoH exchange: a response that is cut short, oversized or otherwise not a complete DNS
    # message is a failed lookup (nothing cached), for every framing of Doh.tla
    if not ctx.replay:
        import c14
        c14.doh_stage(ctx)


def parked_stage(ctx):
    # (C) parked interleavings: a lookup held at its first reading of the clock (the hook is the scheduler gate) while the
    # zone changes, the other goroutine refreshes the entry and time passes - schedules the free-running rounds hit rarely
    f_p = ctx.path("parked.ndjson")
    rc3, out3 = ctx.go_test("^TestCacheParked$", env={"VH_OUT": f_p}, timeout=1200)
    ptraces = vlib.split_traces(vlib.read_ndjson(f_p))
    if len(ptraces) < 72:
        raise vlib.Inconclusive("parked-interleaving driver produced %d traces:\n%s" % (len(ptraces), out3[-1500:]))
    ctx.notes["parked_rounds"] = len(ptraces)
    for tr in ptraces:
        ctx.case("parked:" + vlib.fp(tr[1:]))
    vlib.check_traces(ctx, ptraces, "parked", module="TraceResolverCache", cfg="TraceResolverCache.cfg", specname="ResolverCache.tla (parked)")
