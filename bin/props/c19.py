"""C19 - Transport keeps HTTP requests encrypted, correctly named and origin-isolated (spec/Transport.tla)."""
import json, random
import vlib


def run(ctx):
    ctx.rule = ("function part: URL (http/https x port none/443/8443) x HTTPS record set (none; every single service record over 6 ALPN lists x "
                "no-default-alpn; pairs of priorities 1,2; alias + service) x HTTP/3 round tripper configured or not; pool part: every sequence of "
                "3 requests over 10 URLs of two hosts sharing one address x 3 record sets; distinct = distinct case")
    ctx.assumptions = ["real HTTP/3 is not spoken: a stub round tripper records that it ran and which targets its dialer was given",
                       "alias-mode records reach Transport only after a service-mode record (a leading alias is followed by Resolve)"]
    if ctx.replay:
        cases = [json.load(open(ctx.replay))["replay"]["case"]]
    else:
        cases = []
        for cfg in ("MCTransport_fn.cfg", "MCTransport_pool.cfg"):
            r = ctx.tlc("MCTransport", cfg, timeout=1800)
            if r["violated"] or not r["ok"]:
                raise vlib.Inconclusive("model-level violation in Transport.tla/%s: %s" % (cfg, r["violated"]))
            ctx.states += r["distinct"]
            ctx.transitions += r["generated"]
            cs = vlib.parse_emitted(r["out"])
            if cfg == "MCTransport_pool.cfg":
                rnd = random.Random(ctx.seed)
                rnd.shuffle(cs)
                cs = cs[:500 if ctx.quick else 6000]
                ctx.exhaustive = False
            elif ctx.quick:
                rnd = random.Random(ctx.seed)
                rnd.shuffle(cs)
                cs = cs[:900]
            cases += cs
    f_in, f_out = ctx.path("tr.ndjson"), ctx.path("tr-obs.ndjson")
    vlib.write_ndjson(f_in, cases)
    rc, out = ctx.go_test("^TestTransportCases$", env={"VH_IN": f_in, "VH_OUT": f_out}, timeout=3000)
    res = vlib.read_ndjson(f_out)
    summ = [x for x in res if x.get("summary")]
    if not summ:
        raise vlib.Inconclusive("transport driver did not finish:\n" + out[-1500:])
    ctx.evaluations += len(cases)
    if summ[0].get("env"):
        raise vlib.Inconclusive("%d cases hit an environment failure (no local port / descriptor); nothing is concluded from them" % summ[0]["env"])
    ctx.traces += len(cases) - summ[0]["bad"]
    for c in cases:
        ctx.distinct.add(vlib.fp([c["reqs"], c["recs"], c["h3"]]))
    for x in res:
        if x.get("summary"):
            continue
        c = x["case"]
        ctx.violation("transport:" + vlib.fp([c["reqs"], c["recs"], c["h3"]]),
                      "requests %s with records %s h3=%s: %s" % (json.dumps(c["reqs"]), json.dumps(c["recs"]), c["h3"], x["diff"]), x)
    ctx.sample(cases[0])
    ctx.sample(cases[-1])
    if not ctx.replay:
        ipv6_origins(ctx)


def ipv6_origins(ctx):
    """IPv6-literal origins: distinct literals are distinct origins (no shared pooled connection)."""
    f = ctx.path("ipv6.ndjson")
    rc, out = ctx.go_test("^TestTransportIPv6Origins$", env={"VH_OUT": f}, timeout=600)
    res = vlib.read_ndjson(f)
    summ = [x for x in res if x.get("summary")]
    if not summ:
        raise vlib.Inconclusive("IPv6-origin driver did not finish:\n" + out[-1500:])
    if summ[0].get("env"):
        raise vlib.Inconclusive("environment failure in the IPv6-origin driver")
    ctx.evaluations += summ[0]["cases"]
    for x in res:
        if not x.get("summary"):
            ctx.violation("ipv6:" + vlib.fp(x["diff"][:60]), "Transport with IPv6-literal origins: " + x["diff"], x)
