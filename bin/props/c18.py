"""C18 - Dial attempts are ordered, bounded and leak-free; the first success wins.
spec/Dial.tla (scheduling), spec/TraceDial.tla. Direction B: TLC-emitted scenarios run on the real Dialer in
synctest virtual time; the recorded traces are validated by TLC with every invariant on."""
import json, os, random
import vlib

DELAY, TIMEOUT = 2, 4


def run(ctx):
    ctx.rule = ("scenario = (n targets, per-target outcome {ok(d),fail(d),hang,resolve-error}, MaxConcurrency K, caller cancel time) "
                "enumerated by TLC from Dial.tla Init; distinct = distinct scenario; non-trivial = n >= 1")
    ctx.assumptions = ["testing/synctest virtual time == Dial.tla Tick rule", "same-instant goroutine races are sampled by the Go scheduler",
                       "TLC, SANY, Go toolchain trusted"]
    if ctx.replay:
        rp = json.load(open(ctx.replay))
        scens = [rp["replay"]["scenario"]]
    else:
        # 1. design level
        if ctx.quick:
            ctx.mc("Dial", "MCDial_quick.cfg", timeout=600)
        else:
            ctx.mc("Dial", "MCDial_thorough.cfg", timeout=3000)
            # three workers: the smallest configuration in which two targets are handed out at one instant
            ctx.mc("Dial", "MCDial_c.cfg", timeout=3000)
        # 2. scenarios from the same Init
        scens = ctx.emit("DialScen", "DialScen3.cfg", timeout=300)
        if not ctx.quick:
            scens += ctx.emit("DialScen", "DialScen4.cfg", timeout=600, name="scen4")
        rnd = random.Random(ctx.seed)
        if ctx.quick:
            ctx.exhaustive = False
            must = [s for s in scens if s["n"] <= 1]
            rest = [s for s in scens if s["n"] > 1]
            rnd.shuffle(rest)
            scens = must + rest[:1200]
    f_in, f_out = ctx.path("scen.ndjson"), ctx.path("traces.ndjson")
    vlib.write_ndjson(f_in, scens)
    procs = "16" if ctx.quick else "1,16"
    rc, out = ctx.go_test("^TestDialScenarios$", env={"VH_IN": f_in, "VH_OUT": f_out, "VH_DELAY": DELAY, "VH_TIMEOUT": TIMEOUT,
                                                       "VH_PROCS": procs}, timeout=1500)
    evs = vlib.read_ndjson(f_out)
    traces = vlib.split_traces(evs)
    want = len(scens) * len(procs.split(","))
    if len(traces) < want:
        # the harness died in scenario number len(traces)
        if rc == 0:
            raise vlib.Inconclusive("harness produced %d of %d traces" % (len(traces), want))
        k = len(traces) % len(scens)
        ctx.violation("harness-death:" + vlib.fp(scens[k]), "Dial harness died while running scenario %s: %s" % (json.dumps(scens[k]), out[-600:]),
                      {"scenario": scens[k], "output": out[-3000:]})
    for tr in traces:
        ctx.case(vlib.fp(tr[0]["scen"]), nontrivial=tr[0]["scen"]["n"] >= 1)
    for tr in traces[:2] + traces[len(traces) // 2:len(traces) // 2 + 1]:
        ctx.sample(tr)
    # validate in chunks so that a rejection is located quickly
    vlib.check_traces_chunks(ctx, traces, 2500, "b")
    # the upper end of the quantifier (5 targets, up to 4 workers): seeded random scenarios from the same domain, every
    # recorded trace validated by TLC against Dial.tla with MaxN = 5
    if not ctx.replay:
        rnd5 = random.Random(ctx.seed + 5)
        sc5 = []
        for _ in range(150 if ctx.quick else 4000):
            oc = []
            for _i in range(5):
                k = rnd5.choice(["ok", "fail", "fail", "hang", "rerr", "stub"])
                oc.append({"kind": k, "d": rnd5.choice([0, 1, 3, 5]) if k in ("ok", "fail") else (int(TIMEOUT) + 1 if k == "stub" else 0)})
            sc5.append({"n": 5, "oc": oc, "K": rnd5.randint(1, 4), "cancelAt": rnd5.choice([-1, -1, 0, 2])})
        f_in5, f_out5 = ctx.path("scen-5.ndjson"), ctx.path("traces-5.ndjson")
        vlib.write_ndjson(f_in5, sc5)
        rc, out = ctx.go_test("^TestDialScenarios$", env={"VH_IN": f_in5, "VH_OUT": f_out5, "VH_DELAY": DELAY, "VH_TIMEOUT": TIMEOUT, "VH_PROCS": "16"}, timeout=1500)
        t5 = vlib.split_traces(vlib.read_ndjson(f_out5))
        if len(t5) < len(sc5):
            if rc == 0:
                raise vlib.Inconclusive("harness produced %d of %d traces (5 targets)" % (len(t5), len(sc5)))
            ctx.violation("harness-death-5", "Dial harness died (5 targets): " + out[-600:], {"output": out[-3000:]})
        for tr in t5:
            ctx.case("n5:" + vlib.fp(tr[0]["scen"]))
        ctx.notes["five_target_scenarios"] = len(t5)
        vlib.check_traces_chunks(ctx, t5, 1500, "n5", module="TraceDial", cfg="TraceDial5.cfg", specname="Dial.tla (5 targets)")
    # a second timing configuration: Timeout shorter than ConcurrencyDelay
    if not ctx.replay:
        ctx.mc("Dial", "MCDial_b.cfg", timeout=1800)
        rnd2 = random.Random(ctx.seed + 1)
        sub = [s for s in scens if s["n"] >= 1]
        rnd2.shuffle(sub)
        sub = sub[:400 if ctx.quick else 3000]
        f_in2, f_out2 = ctx.path("scen-b.ndjson"), ctx.path("traces-b.ndjson")
        vlib.write_ndjson(f_in2, sub)
        rc, out = ctx.go_test("^TestDialScenarios$", env={"VH_IN": f_in2, "VH_OUT": f_out2, "VH_DELAY": 4, "VH_TIMEOUT": 2, "VH_PROCS": "16"}, timeout=1500)
        tb = vlib.split_traces(vlib.read_ndjson(f_out2))
        if len(tb) < len(sub):
            if rc == 0:
                raise vlib.Inconclusive("harness produced %d of %d traces (timing b)" % (len(tb), len(sub)))
            ctx.violation("harness-death-b", "Dial harness died (timing configuration b): " + out[-600:], {"output": out[-3000:]})
        for tr in tb:
            ctx.case("b:" + vlib.fp(tr[0]["scen"]))
        vlib.check_traces(ctx, tb, "tb", module="TraceDial", cfg="TraceDial_b.cfg", specname="Dial.tla (Delay=4, Timeout=2)")
    if not ctx.replay:
        stock_dialer(ctx)


def stock_dialer(ctx):
    """NewDialer's own DialFunc against real sockets (a peer that stalls the TLS handshake): bounded by Timeout and context."""
    f = ctx.path("stock.ndjson")
    rc, out = ctx.go_test("^TestStockDialer$", env={"VH_OUT": f}, timeout=600)
    res = vlib.read_ndjson(f)
    summ = [x for x in res if x.get("summary")]
    if not summ:
        raise vlib.Inconclusive("stock dialer driver did not finish:\n" + out[-1500:])
    if summ[0].get("env"):
        raise vlib.Inconclusive("no local port for the stock dialer test")
    ctx.evaluations += summ[0]["runs"]
    ctx.notes["stock_dialer_runs"] = summ[0]["runs"]
    for x in res:
        if not x.get("summary"):
            ctx.violation("stock:" + x["key"], "stock Dialer (NewDialer): " + x["diff"], x)
