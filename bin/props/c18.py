"""C18 - Dial attempts are ordered, bounded and leak-free; the first success wins.
spec/Dial.tla (scheduling), spec/TraceDial.tla. Direction B: TLC-emitted scenarios run on the real Dialer in
synctest virtual time; the recorded traces are validated by TLC with every invariant on."""
import json, os, random
import vlib

DELAY, TIMEOUT = 2, 4


def split_traces(evs):
    traces, cur = [], None
    for e in evs:
        if e.get("e") == "reset":
            cur = [e]
            traces.append(cur)
        elif cur is not None:
            cur.append(e)
    return traces


def check_traces(ctx, traces, label):
    """Validate a batch; on rejection bisect down to the first offending trace and report it."""
    # crashes / structural problems are decided without TLC
    good = []
    for tr in traces:
        crash = [e for e in tr if e.get("e") == "crash"]
        if crash:
            ctx.violation("crash:" + vlib.fp(tr[0]["scen"]), "Dial scenario crashed/leaked in synctest: %s" % crash[0]["msg"][:300],
                          {"scenario": tr[0]["scen"], "trace": tr})
            continue
        good.append(tr)

    def flat(trs):
        return [e for tr in trs for e in tr]

    def validate(trs, name):
        f = ctx.path("traces-%s.ndjson" % name)
        vlib.write_ndjson(f, flat(trs))
        return ctx.validate_traces("TraceDial", "TraceDial.cfg", f, name="trace-" + name)

    if not good:
        return
    ok, info = validate(good, label)
    if ok:
        ctx.traces += len(good)
        return
    # locate the rejected trace: high-water index -> trace number
    bad_idx = None
    if info["rejected_at"]:
        pos, k = 0, 0
        for k, tr in enumerate(good):
            if pos + len(tr) >= info["rejected_at"]:
                bad_idx = k
                break
            pos += len(tr)
    if bad_idx is None:
        # invariant violation: TLC stops at the first; find by bisection
        lo, hi = 0, len(good)
        while hi - lo > 1:
            mid = (lo + hi) // 2
            ok2, _ = validate(good[lo:mid], label + "-bis")
            if ok2:
                lo = mid
            else:
                hi = mid
        bad_idx = lo
    ctx.traces += bad_idx
    tr = good[bad_idx]
    ok1, info1 = validate([tr], label + "-single")
    if ok1:
        raise vlib.Inconclusive("trace batch rejected but the single trace is accepted (harness/TLC problem)")
    what = "real Dial trace not explained by Dial.tla"
    if info1["violated"]:
        what = "invariant %s violated on a real Dial trace" % info1["violated"]
    elif info1["rejected_at"]:
        at = info1["rejected_at"]
        what += " at event %d: %s" % (at, json.dumps(tr[at - 1]) if at - 1 < len(tr) else "end")
    ctx.violation("trace:" + vlib.fp(tr[0]["scen"]), what + " scenario=" + json.dumps(tr[0]["scen"]),
                  {"scenario": tr[0]["scen"], "trace": tr, "tlc": info1["out_tail"][-1500:]})
    # keep validating the rest so that one rejection does not hide others
    rest = good[bad_idx + 1:]
    if rest and len(ctx.violations) < 5:
        check_traces(ctx, rest, label + "r")


def run(ctx):
    ctx.rule = ("scenario = (n targets, per-target outcome {ok(d),fail(d),hang,resolve-error}, MaxConcurrency K, caller cancel time) "
                "enumerated by TLC from Dial.tla Init; distinct = distinct scenario; non-trivial = n >= 1")
    ctx.assumptions = ["testing/synctest virtual time == Dial.tla Tick rule", "same-instant goroutine races are sampled by the Go scheduler",
                       "TLC, SANY, Go toolchain trusted"]
    if ctx.replay:
        rp = json.load(open(ctx.replay))
        scens = [rp["replay"]["scenario"]]
    else:
        # 1. design level
        if ctx.quick:
            ctx.mc("Dial", "MCDial_quick.cfg", timeout=600)
        else:
            ctx.mc("Dial", "MCDial_thorough.cfg", timeout=3000)
        # 2. scenarios from the same Init
        scens = ctx.emit("DialScen", "DialScen3.cfg", timeout=300)
        if not ctx.quick:
            scens += ctx.emit("DialScen", "DialScen4.cfg", timeout=600, name="scen4")
        rnd = random.Random(ctx.seed)
        if ctx.quick:
            ctx.exhaustive = False
            must = [s for s in scens if s["n"] <= 1]
            rest = [s for s in scens if s["n"] > 1]
            rnd.shuffle(rest)
            scens = must + rest[:1200]
    f_in, f_out = ctx.path("scen.ndjson"), ctx.path("traces.ndjson")
    vlib.write_ndjson(f_in, scens)
    procs = "16" if ctx.quick else "1,16"
    rc, out = ctx.go_test("^TestDialScenarios$", env={"VH_IN": f_in, "VH_OUT": f_out, "VH_DELAY": DELAY, "VH_TIMEOUT": TIMEOUT,
                                                       "VH_PROCS": procs}, timeout=1500)
    evs = vlib.read_ndjson(f_out)
    traces = split_traces(evs)
    want = len(scens) * len(procs.split(","))
    if len(traces) < want:
        # the harness died in scenario number len(traces)
        if rc == 0:
            raise vlib.Inconclusive("harness produced %d of %d traces" % (len(traces), want))
        k = len(traces) % len(scens)
        ctx.violation("harness-death:" + vlib.fp(scens[k]), "Dial harness died while running scenario %s: %s" % (json.dumps(scens[k]), out[-600:]),
                      {"scenario": scens[k], "output": out[-3000:]})
    for tr in traces:
        ctx.case(vlib.fp(tr[0]["scen"]), nontrivial=tr[0]["scen"]["n"] >= 1)
    for tr in traces[:2] + traces[len(traces) // 2:len(traces) // 2 + 1]:
        ctx.sample(tr)
    # validate in chunks so that a rejection is located quickly
    CH = 4000
    for i in range(0, len(traces), CH):
        check_traces(ctx, traces[i:i + CH], "b%d" % (i // CH))
