"""C02 - ECH is accepted only for an authentic payload bound to the exact outer hello."""
import echcommon
import vlib


def run(ctx):
    ctx.rule = ("case = honest (inner, outer, key, suite) tuple from the layout library x one tamper operator applied after sealing "
                "(swap/drop/add/change extension, session id, config id, suite, enc, payload, wrong key, wrong info) x key list; plus, for "
                "accepted honest hellos, EVERY single-bit flip of the concrete outer ClientHello body; distinct = distinct abstract case")
    ctx.assumptions = ["symbolic (Dolev-Yao) AEAD in the model; the concrete side uses crypto/hpke, so internal/hpke is bound by interop only"]
    # self-check of the hand-written HPKE key schedule the small-order-enc operators are sealed with (against crypto/hpke)
    rc, out = ctx.go_test("^TestManualHPKE$", env={}, timeout=600)
    if rc != 0:
        raise vlib.Inconclusive("hand-written HPKE schedule disagrees with crypto/hpke:\n" + out[-1500:])
    # abstract tamper operators on every layout
    echcommon.run_family(ctx, ["MCEchHello_c02.cfg"], sample=2500 if ctx.quick else None, what="C02")
    # binding of 'field changed' to 'any bit of the field changed': all bit flips of honest hellos
    n = 12 if ctx.quick else 150
    echcommon.run_family(ctx, ["MCEchHello_c03.cfg"], mode="bits", select=lambda c: c["res"]["kind"] == "accept", sample=n, what="C02 bit-flip")
    # a payload sealed - correctly - with a suite the held config does not list must not be accepted either
    echcommon.run_family(ctx, ["MCEchHello_c09q.cfg"], select=lambda c: c["op"] == "unlistedSuite", sample=300 if ctx.quick else None, what="C02 unlisted suite")
    # the same substitutions on the retried hello (state kept from the first record): another config id, another listed
    # suite, a new enc, an undecryptable payload - every history of EchConn.tla that contains one of them
    echcommon.echconn_slice(ctx, lambda c: any(s in ("CH2cid", "CH2suite", "CH2enc", "CH2undec") for d, s in c["hist"]), label="retry substitution")
