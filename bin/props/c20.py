"""C20 - PublishECH changes exactly the ech parameter of exactly the requested records (spec/Publish.tla)."""
import json
import vlib


def run(ctx):
    ctx.rule = ("history of 1 or 2 PublishECH calls x zone contents (records on pages 1/2/3 of a 45-record zone, parameter lists with/without an "
                "existing/current ech, in different positions, empty) x target lists (existing, missing, duplicate, unknown zone, empty) x config "
                "list {C1,C2} x one injected API failure {none, zone lookup, list page 1/2/3, PATCH 1/2}; distinct = distinct history")
    ctx.assumptions = ["fake Cloudflare API with the repository's own fake's count/total_pages semantics (count = all matching records)",
                       "stored records carry at most one ech parameter"]
    if ctx.replay:
        cases = [json.load(open(ctx.replay))["replay"]["case"]]
    else:
        cases = []
        for cfg in ("MCPublish_1.cfg", "MCPublish_2.cfg") + (() if ctx.quick else ("MCPublish_full.cfg",)):
            r = ctx.tlc("MCPublish", cfg, timeout=2400)
            if r["violated"] or not r["ok"]:
                raise vlib.Inconclusive("model-level violation in Publish.tla/%s: %s" % (cfg, r["violated"]))
            ctx.states += r["distinct"]
            ctx.transitions += r["generated"]
            cases += vlib.parse_emitted(r["out"])
    f_in, f_out = ctx.path("pub.ndjson"), ctx.path("pub-obs.ndjson")
    vlib.write_ndjson(f_in, cases)
    rc, out = ctx.go_test("^TestPublishCases$", env={"VH_IN": f_in, "VH_OUT": f_out}, timeout=3000)
    res = vlib.read_ndjson(f_out)
    summ = [x for x in res if x.get("summary")]
    if not summ:
        raise vlib.Inconclusive("publish driver did not finish:\n" + out[-1500:])
    ctx.evaluations += len(cases)
    if summ[0].get("env"):
        raise vlib.Inconclusive("%d cases hit an environment failure (no local port / descriptor); nothing is concluded from them" % summ[0]["env"])
    ctx.traces += len(cases) - summ[0]["bad"]
    for c in cases:
        ctx.distinct.add(vlib.fp(c))
    for x in res:
        if x.get("summary"):
            continue
        c = x["case"]
        ctx.violation("publish:" + vlib.fp([c["init"], [[cl["targets"], cl["cfg"], cl["fail"]] for cl in c["calls"]]]),
                      "publish history %s on zone %s: %s" % (json.dumps([[cl["targets"], cl["cfg"], cl["fail"]] for cl in c["calls"]]), json.dumps(c["init"]), x["diff"]), x)
    ctx.sample(cases[len(cases) // 3])
