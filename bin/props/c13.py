"""C13 - the DNS codec round-trips and agrees with an independent RFC 1035/9460 codec (spec/DnsWire.tla)."""
import json
import vlib

FAMILIES = ["flags", "names", "addr", "opt", "https", "httpsx", "decodeonly", "sections", "big", "pad"]


def wire_cases(ctx, families):
    cases = []
    for f in families:
        r = ctx.tlc("MCDnsWire", "MCDnsWire_%s.cfg" % f, timeout=1800, workers=8)
        if r["violated"] or not r["ok"]:
            raise vlib.Inconclusive("model-level violation in DnsWire.tla family %s: %s" % (f, r["violated"]))
        ctx.states += r["distinct"]
        ctx.transitions += r["generated"]
        cs = vlib.parse_emitted(r["out"])
        for c in cs:
            c["_family"] = f
        # each initial state is printed once per evaluation of the invariant: de-duplicate
        seen, uniq = set(), []
        for c in cs:
            k = json.dumps(c["m"], sort_keys=True)
            if k not in seen:
                seen.add(k)
                uniq.append(c)
        ctx.notes.setdefault("cases_by_family", {})[f] = len(uniq)
        cases += uniq
    return cases


def replay(ctx, cases, what):
    f_in, f_out = ctx.path("wire.ndjson"), ctx.path("wire-obs.ndjson")
    vlib.write_ndjson(f_in, [{k: v for k, v in c.items() if k != "_family"} for c in cases])
    rc, out = ctx.go_test("^TestDnsWireCases$", env={"VH_IN": f_in, "VH_OUT": f_out}, timeout=1800)
    res = vlib.read_ndjson(f_out)
    summ = [x for x in res if x.get("summary")]
    if not summ:
        raise vlib.Inconclusive("DNS wire driver did not finish:\n" + out[-1500:])
    ctx.evaluations += len(cases)
    ctx.traces += len(cases) - summ[0]["bad"]
    for c in cases:
        ctx.distinct.add(vlib.fp(c["m"]))
    # encodings that are not the plain one are judged by the specification's decoder
    redo = [x for x in res if x.get("redecode")]
    res = [x for x in res if not x.get("redecode")]
    if redo:
        f_tr = ctx.path("redecode.ndjson")
        vlib.write_ndjson(f_tr, [{"idx": x["idx"], "m": cases[x["idx"]]["m"], "real": x["real"]} for x in redo])
        left = list(redo)
        for attempt in range(6):      # TLC stops at the first bad one: report it, drop it, continue with the rest
            if not left:
                break
            vlib.write_ndjson(f_tr, [{"idx": x["idx"], "m": cases[x["idx"]]["m"], "real": x["real"]} for x in left])
            r = ctx.tlc("TraceDnsWire", "TraceDnsWire.cfg", workers=1, timeout=1800, env_extra={"TRACE_FILE": f_tr}, name="redecode%d" % attempt)
            import re as _re
            mm = _re.search(r"BAD_ENCODING\D+(\d+)", r["out"])
            if not mm:
                if not r["ok"]:
                    raise vlib.Inconclusive("TraceDnsWire did not complete")
                break
            bad_idx = int(mm.group(1))
            x = next(y for y in left if y["idx"] == bad_idx)
            fam = cases[bad_idx].get("_family", "?")
            ctx.traces -= 1
            ctx.violation("wire:%s:%s" % (fam, vlib.fp(cases[bad_idx]["m"])), "%s, family %s: %s, and the specification's decoder does not read it back as the message" % (what, fam, x["note"]),
                          {"m": cases[bad_idx]["m"], "real": x["real"], "note": x["note"]})
            left = [y for y in left if y["idx"] != bad_idx]
        ctx.notes["non_plain_encodings_judged_by_DecMsg"] = len(redo)
    for x in res:
        if x.get("summary"):
            continue
        fam = cases[x["idx"]].get("_family", "?") if x["idx"] >= 0 else "fixed"
        ctx.violation("wire:%s:%s" % (fam, vlib.fp(x["m"])), "%s, family %s: %s" % (what, fam, x["diff"][:400]), x)


def run(ctx):
    ctx.rule = ("messages in 8 families: all header flag/opcode/rcode/id boundary combinations; names of 0,1,2,127 labels, 63-byte labels and 255-byte "
                "names in question / owner / RDATA; A/AAAA with class and 32-bit TTL boundaries; OPT option lists x extended-RCODE TTLs; 1296 HTTPS "
                "parameter combinations; decode-only types MX/TXT/SRV/SVCB/SOA/unknown; section counts 0..2 with shared names (compression); "
                "padding over question-name lengths 1..253 x OPT contents; distinct = distinct message")
    ctx.assumptions = ["codec fidelity: DnsWire.tla is an executable second definition of the wire format over a bounded boundary-value domain (DESIGN 5 C13)",
                       "names are host-style labels (non-empty, no dots, at most 63 bytes)"]
    if ctx.replay:
        rp = json.load(open(ctx.replay))["replay"]
        raise vlib.Inconclusive("replay: re-run the check; the case is m=%s" % json.dumps(rp.get("m"))[:300])
    cases = wire_cases(ctx, FAMILIES)
    replay(ctx, cases, "DNS codec")
    c = cases[len(cases) // 2]
    ctx.sample({"family": c["_family"], "bytes_len": len(c.get("bytes") or []), "compressed_len": len(c.get("cbytes") or []), "m_question": c["m"]["question"]})
