"""C09 - ECH acceptance depends only on holding the right key, not on the other keys."""
import echcommon


def run(ctx):
    ctx.rule = ("every list of 1..3 (quick) / 1..4 (thorough) distinct keys from a pool of 5 (three share config id 7 with different suite lists "
                "and public names, one has id 8, one offers a single suite) x client key in {K1,K3,K5} x every suite of that key x layouts; "
                "distinct = distinct (key list, client key, suite, layout); retried hellos are covered by C06's driver")
    ctx.assumptions = ["all keys are valid X25519 keys"]
    echcommon.run_family(ctx, ["MCEchHello_c09q.cfg" if ctx.quick else "MCEchHello_c09t.cfg"], what="C09")
    # retried hellos under every key list (EchConn.tla with KeySets = {K1, K3K1, K2K1})
    echcommon.echconn_slice(ctx, lambda c: True, cfgs=("MCEchConn_k.cfg",), label="retrykeys")
