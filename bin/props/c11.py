"""C11 - ECH configs and config lists encode to the standard format and round-trip (spec/EchConfig.tla)."""
import json
import vlib


def run(ctx):
    ctx.rule = ("config lists of 0..2 configs over ids {0,1,255} x public-name lengths {1,2,239,240,255} x 8 cipher-suite lists (incl. empty) x "
                "key lengths {0,1,32}; every strict prefix of every encoding; crypto/tls interop on both sides for ids x name lengths "
                "{3,4,63,64,239,240,253} (crypto/tls only accepts multi-label public names of at most 253 bytes) x suite lists and for NewConfig; structural damage at every length field of a 2-config list")
    ctx.assumptions = ["codec fidelity: the TLA+ module is an executable second definition of the wire format over a boundary-value domain (DESIGN 5 C11)",
                       "'parsing arbitrary bytes' is covered for truncations and length-field faults, not for arbitrary strings"]
    r = ctx.tlc("EchConfig", "EchConfig.cfg", timeout=1200, workers=8)
    if r["violated"] or not r["ok"]:
        raise vlib.Inconclusive("model-level violation in EchConfig.tla: " + str(r["violated"]))
    ctx.states += r["distinct"]
    ctx.transitions += r["generated"]
    cases = vlib.parse_emitted(r["out"])
    f_in, f_out = ctx.path("cfg.ndjson"), ctx.path("cfg-obs.ndjson")
    vlib.write_ndjson(f_in, cases)
    rc, out = ctx.go_test("^TestEchConfigCases$", env={"VH_IN": f_in, "VH_OUT": f_out}, timeout=1800)
    res = vlib.read_ndjson(f_out)
    summ = [x for x in res if x.get("summary")]
    if not summ:
        raise vlib.Inconclusive("config driver did not finish:\n" + out[-1500:])
    s = summ[0]
    ctx.evaluations += s["cases"] + s["interop"] + s["structural"]
    ctx.traces += s["cases"] + s["interop"] + s["structural"] - s["bad"]
    ctx.notes["interop_handshakes"] = s["interop"]
    ctx.notes["structural_faults"] = s["structural"]
    for c in cases:
        ctx.distinct.add(vlib.fp(c["cfgs"]))
    for x in res:
        if x.get("summary"):
            continue
        key = vlib.fp(x.get("case") or [x.get("id"), x.get("namelen"), x.get("suites"), x.get("node"), x.get("fault")])
        ctx.violation("cfg:%s:%s" % (x["kind"], key), "ECH config %s: %s" % (x["kind"], x["diff"][:400]), x)
    c = cases[len(cases) // 2]
    ctx.sample({"cfgs": [{"id": k["id"], "name_len": len(k["name"]), "suites": k["suites"], "pk_len": len(k["pk"])} for k in c["cfgs"]], "bytes_len": len(c["bytes"])})
