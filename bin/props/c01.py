"""C01 - a split-mode ECH handshake completes end to end and routes on the inner hello.
spec/EchE2E.tla (EchConn composed with conforming TLS 1.3 endpoints) model-checked by TLC; real crypto/tls stacks are
run through the real Conn over a chunked in-memory transport and bound to the specifications by two trace validations
(record level against EchConn, call level against EchPipe) plus the end state against EchE2E's Expect."""
import json
import vlib


def run(ctx):
    ctx.rule = ("scenario = {ECH accepted, stale config, no ECH} x {HelloRetryRequest or not} from EchE2E.tla, each concretised with a seeded "
                "choice of: PSK resumption (second connection), client certificate, ALPN lists, inner name length {1,9,63,64,200,253}, "
                "certificate chain {0.5,4,17,40} KB, key set {K1,K2K1,K1K4,K3K1}, AEAD suite, X25519MLKEM768 key share; "
                "distinct = distinct configuration tuple")
    ctx.assumptions = ["only Go's TLS stack is available as client and backend", "net.Pipe + seeded chunker as transport"]
    # the names the Conn reports are the inner hello's for EVERY inner layout (incl. inner hellos without SNI / ALPN, which Go's
    # client does not produce): the accepted cases of EchHello.tla
    import echcommon
    echcommon.run_family(ctx, ["MCEchHello_c03.cfg"], sample=200 if ctx.quick else None, what="C01 names of the inner hello")
    # ... and for every key set the operator may configure (several keys per config id, configs with different suite lists, keys that
    # cannot open): whenever the specification says the client encrypted to a held key, the Conn routes on the inner hello
    echcommon.run_family(ctx, ["MCEchHello_c09q.cfg"], select=lambda c: c["res"]["kind"] == "accept", sample=250 if ctx.quick else 4000,
                         what="C01 key sets")
    ctx.mc("MCEchE2E", "MCEchE2E.cfg", timeout=600)
    base = ctx.emit("MCEchE2E", "MCEchE2E.cfg", timeout=600, workers=1, name="scen")
    n = 90 if ctx.quick else 3000
    f_in, f_out, f_pipe = ctx.path("real-in.ndjson"), ctx.path("real.ndjson"), ctx.path("real-pipe.ndjson")
    vlib.write_ndjson(f_in, base)
    rc, out = ctx.go_test("^TestRealStack$", env={"VH_IN": f_in, "VH_OUT": f_out, "VH_PIPE_OUT": f_pipe, "VH_N": n}, timeout=3000)
    traces = vlib.split_traces(vlib.read_ndjson(f_out))
    if len(traces) < n:
        raise vlib.Inconclusive("real-stack driver produced %d traces (rc=%d):\n%s" % (len(traces), rc, out[-2000:]))
    for tr in traces:
        ctx.case(vlib.fp(tr[0]["cfg"]))
    for tr in traces[:1] + traces[5:6]:
        ctx.sample(tr)
    vlib.check_traces(ctx, traces, "e2e", module="TraceEchE2E", cfg="TraceEchE2E.cfg", specname="EchConn.tla/EchE2E.tla", key="cfg")
    ptraces = vlib.split_traces(vlib.read_ndjson(f_pipe))
    ctx.notes["pipe_traces"] = len(ptraces)
    for tr in ptraces:
        tr[0]["scen"]["_cfg"] = None
    if ptraces:
        for tr in ptraces:
            del tr[0]["scen"]["_cfg"]
        vlib.check_traces(ctx, ptraces, "e2epipe", module="TraceEchPipe", cfg="TraceEchPipe.cfg", specname="EchPipe.tla", key="cfg")
    # the retried flight the way a proxy with one goroutine per direction sees it: the Read of the second hello is already
    # blocked in the transport when the backend's HelloRetryRequest is written (EchConn.tla histories, parked replay)
    echcommon.echconn_slice(ctx, lambda c: any(c["hist"][i] == ["w", "HRR"] and c["hist"][i + 1][0] == "r" for i in range(len(c["hist"]) - 1)), label="hrr flights")
    # ... and the connection handed back by NewConn is free of its context (EchWatch.tla scenarios, a few runs each)
    import c10
    c10.run_watch(ctx, 8 if ctx.quick else 60, 64, label="c01w")
