"""C08 - no peer input can crash, hang or balloon a Conn.
Specifications: EchHello.tla (structural damage operators, totality of the decision procedure), EchConn.tla (degenerate
records in every history), EchPipe.tla (buffers bounded by one record; oversize records), EchWatch.tla (stall clause:
NewConn returns at the context's deadline). Each is bound to the code by the replay / trace validation of its family."""
import echcommon, vlib
import c10 as watch


def run(ctx):
    ctx.rule = ("(a) every length-prefixed node of every layout's hello (outer and encoded inner) x {length+1, length-1, truncated}; "
                "(b) every EchConn history containing zero-length / malformed records; (c) random real-size record streams incl. oversize "
                "headers through Read/Write (EchPipe traces); (d) the first record stalled at every byte offset in virtual time; "
                "oracles: no panic, returns, per-call allocation bound, plus the specification's outcome where it is determined")
    ctx.assumptions = ["grammar-level structural adversarial inputs only; unstructured / coverage-guided mutation is outside this technique (DESIGN 6)",
                       "allocation bound 1 MiB per NewConn on a <=16 KiB hello (measured ~60 KiB on the unchanged tree)"]
    echcommon.structural(ctx, sample=24 if ctx.quick else None)
    # duplicated ECH extensions of both kinds, bad ECH types, empty enc ... : the degenerate-but-parseable hellos
    echcommon.run_family(ctx, ["MCEchHello_c04.cfg"], what="C08 degenerate hello", sample=400 if ctx.quick else None,
                         select=lambda c: c["op"] in ("dupEchBefore", "dupEchInnerBefore", "dupEchAfter", "badEchType", "emptyEnc", "outerTypeInInner", "eoeBadLen", "eoeOdd", "eoeRepeated", "eoeAmplify", "eoeTwice", "eoeNoData", "eoeEmptyList", "svOdd", "innerSvOdd", "sniNameType", "sniTwoNames", "innerSniNameType", "innerTypeNo13"))
    # degenerate payloads and encapsulated keys for a held key: shorter than an AEAD tag, empty, truncated
    echcommon.run_family(ctx, ["MCEchHello_c02.cfg"], what="C08 degenerate payload", sample=300 if ctx.quick else None,
                         select=lambda c: c["op"] in ("tinyCt", "emptyCt", "truncCt", "truncEnc", "echTrailing"))
    # a held key whose config lists a suite the server's HPKE does not implement, selected by the client: skipped, never a crash
    echcommon.run_family(ctx, ["MCEchHello_c08k.cfg"], what="C08 unsupported suite")
    echcommon.echconn_slice(ctx, lambda c: any(s in ("ZERO", "ZEROAPP", "SHbad", "CH2no13", "CH2innerType", "CH2noEch") for d, s in c["hist"]), label="degenerate")
    # (c) real-size record streams (every legal length up to 2^14+256, oversize headers, zero-length records) through Read and
    # Write with cuts: the recorded traces (panics are events of the trace) are validated against EchPipe.tla
    import c07
    c07.pipe_traces(ctx, 300 if ctx.quick else 4000, label="c08pp")
    # stall clause: EchWatch scenarios with HelloAt = -1, the client stalling at every (quick: every 16th) byte offset
    ctx.mc("EchWatch", "MCEchWatch.cfg", timeout=600)
    watch.run_watch(ctx, 1, 16 if ctx.quick else 1, label="stall")
