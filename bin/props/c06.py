"""C06 - only a HelloRetryRequest re-arms ECH processing, under the retry rules.
spec/EchConn.tla: TLC enumerates every history (interleaving of client and backend records) up to the bound, checks the
action properties / invariants on all of them, and emits each history with the per-step results the specification
prescribes; every history is replayed on a real Conn (direction A)."""
import json, random
import vlib


def replay(ctx, cases, label):
    f_in, f_out = ctx.path("hist-%s.ndjson" % label), ctx.path("obs-%s.ndjson" % label)
    vlib.write_ndjson(f_in, cases)
    rc, out = ctx.go_test("^TestEchConnHistories$", env={"VH_IN": f_in, "VH_OUT": f_out}, timeout=1500)
    res = vlib.read_ndjson(f_out)
    summ = [r for r in res if r.get("summary")]
    if not summ:
        raise vlib.Inconclusive("EchConn history driver did not finish (rc=%d):\n%s" % (rc, out[-2000:]))
    for r in res:
        if r.get("summary"):
            continue
        c = r["case"]
        fpr = "hist:%s:%s:%s" % (c["first"], c["keys"], "/".join(d + "." + s for d, s in c["hist"]))
        ctx.violation(fpr, "history %s (first flight %s, keys %s): %s" % (" ".join(d + ":" + s for d, s in c["hist"]), c["first"], c["keys"], r["diff"]),
                      {"case": c, "diff": r["diff"]})
    ctx.evaluations += len(cases)
    ctx.traces += len(cases) - summ[0]["bad"]
    for c in cases:
        ctx.distinct.add(json.dumps([c["first"], c["keys"], c["hist"]]))


def run(ctx):
    ctx.rule = ("history = first flight {ECH accepted, ECH presented but not accepted, no ECH} x key list x interleaving of client records "
                "(11 kinds of second ClientHello, change_cipher_spec, other handshake, alert, application data, zero-length records) and "
                "backend records (ServerHello, HelloRetryRequest, malformed ServerHello, CCS, handshake, application data, zero-length); "
                "ALL histories up to length 3 (quick) / 4 (thorough) plus seeded random histories up to length 8; non-trivial = length >= 2")
    ctx.assumptions = ["one record per Read/Write call here; fragmentation is C07's model (EchPipe.tla)",
                       "the specification is silent about writes after a rejected ServerHello"]
    if ctx.replay:
        replay(ctx, [json.load(open(ctx.replay))["replay"]["case"]], "replay")
        return
    # design level, unbounded: the inductive core of the retry rules (at most one arming, at most one second decryption, a
    # connection that was not accepted is never inspected) is proved with TLAPS for every history length and alphabet
    ctx.tlaps("EchConnProof", deps=("EchConn",), theorem="Spec => []Core (retry <= 1, seq <= 2, ~accepted => pure pipe) for every MaxLen, CSyms, BSyms, KeySets")
    # design level: deeper bound without emission
    ctx.mc("MCEchConn", "MCEchConn_mc5.cfg", timeout=1800) if not ctx.quick else None
    cases = ctx.emit("MCEchConn", "MCEchConn_q.cfg" if ctx.quick else "MCEchConn_t.cfg", workers=8, timeout=1800)
    cases += ctx.emit("MCEchConn", "MCEchConn_k.cfg", workers=8, timeout=900, name="keys")
    replay(ctx, cases, "all")
    for c in cases[:1] + cases[len(cases) // 3:len(cases) // 3 + 2]:
        ctx.sample(c)
    # beyond the exhaustive bound: random walks of the same spec
    n = 3000 if ctx.quick else 60000
    sim = ctx.emit("MCEchConn", "MCEchConn_sim.cfg", workers=4, simulate="num=%d" % (n // 4), depth=9, timeout=900, name="sim")
    seen, uniq = set(), []
    for c in sim:
        k = json.dumps(c, sort_keys=True)
        if k not in seen and len(c["hist"]) >= 5:
            seen.add(k)
            uniq.append(c)
    ctx.notes["random_histories"] = len(uniq)
    if uniq:
        replay(ctx, uniq, "sim")
        ctx.sample(uniq[0])
    # the retried hello arriving in pieces, cut short, or interrupted by an expired read deadline that the caller extends: the
    # record-level runs of EchPipe.tla (a third of them carry a HelloRetryRequest and a second hello)
    import c07
    c07.pipe_traces(ctx, 400 if ctx.quick else 6000, label="c06pp")
