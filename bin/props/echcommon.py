"""Shared direction-A procedure for the EchHello.tla family (C02 C03 C04 C05 C09)."""
import json, random
import vlib


def run_family(ctx, cfgs, mode="plain", select=None, sample=None, what="", workers=None, timeout=1500):
    """cfgs: list of MCEchHello_*.cfg. Each is model-checked (requirements as invariants) and, in the same run, emits
    one case per terminal state. Cases are replayed on the real NewConn."""
    if ctx.replay:
        rp = json.load(open(ctx.replay))
        cases = [rp["replay"]["case"]]
    else:
        cases = []
        for cfg in cfgs:
            r = ctx.tlc("MCEchHello", cfg, timeout=timeout, workers=workers)
            if r["violated"] or not r["ok"]:
                raise vlib.Inconclusive("model-level violation of %s in MCEchHello/%s: the specification's requirement fails on the "
                                        "model itself (model problem; nothing was replayed)" % (r["violated"], cfg))
            ctx.states += r["distinct"]
            ctx.transitions += r["generated"]
            cs = vlib.parse_emitted(r["out"], "CASE")
            if not cs:
                raise vlib.Inconclusive("no cases emitted by " + cfg)
            cases += cs
        if select:
            cases = [c for c in cases if select(c)]
        if sample and len(cases) > sample:
            rnd = random.Random(ctx.seed)
            # keep every operator represented: stratify by op
            byop = {}
            for c in cases:
                byop.setdefault(c["op"], []).append(c)
            per = max(1, sample // len(byop))
            picked = []
            for op, cs in sorted(byop.items()):
                rnd.shuffle(cs)
                picked += cs[:per]
            cases = picked
            ctx.exhaustive = False
    f_in, f_out = ctx.path("cases.ndjson"), ctx.path("obs.ndjson")
    vlib.write_ndjson(f_in, cases)
    rc, out = ctx.go_test("^TestEchHelloCases$", env={"VH_IN": f_in, "VH_OUT": f_out, "VH_MODE": mode}, timeout=timeout)
    res = vlib.read_ndjson(f_out)
    summ = [r for r in res if r.get("summary")]
    res = [r for r in res if not r.get("summary")]
    if not summ:
        raise vlib.Inconclusive("EchHello harness did not finish (rc=%d):\n%s" % (rc, out[-2000:]))
    ctx.evaluations += summ[0]["evaluations"]
    ops = {}
    for r in res:
        ctx.distinct.add(r["key"])
        if r["diff"]:
            c = r.get("case") or {}
            fpr = "%s:%s:%s:keys=%s" % (c.get("op"), c.get("onm", "") + c.get("inm", ""), c.get("run"), ",".join(c.get("keys", [])))
            ctx.violation(fpr, "%s case op=%s layout=%s%s run=%s keys=%s: %s" % (what, c.get("op"), c.get("onm"), c.get("inm"), c.get("run"),
                                                                              c.get("keys"), r["diff"][:300]),
                          {"case": c, "sent": r.get("sent"), "obs": r["obs"], "diff": r["diff"], "opts": r["opts"]})
    for c in cases:
        ops[c["op"]] = ops.get(c["op"], 0) + 1
    ctx.notes.setdefault("cases_by_operator", {}).update(ops)
    for c in cases[:1] + cases[len(cases) // 2:len(cases) // 2 + 1]:
        ctx.sample({"case": {k: c[k] for k in ("onm", "inm", "run", "pad", "sid", "ck", "suite", "op", "keys")}, "spec_result": c["res"]})
    ctx.traces += len(res) - sum(1 for r in res if r["diff"])
    return cases, res


def foreign(ctx, n=None, what="C05"):
    """Foreign encodings (hellos the library's own parser never produced) against an independent TLS stack: forwarded byte for byte,
    followed by exactly the client's remaining bytes."""
    f_out = ctx.path("foreign.ndjson")
    n = n or (400 if ctx.quick else 20000)
    rc, out = ctx.go_test("^TestForeignHellos$", env={"VH_OUT": f_out, "VH_N": n}, timeout=1200)
    res = vlib.read_ndjson(f_out)
    summ = [r for r in res if r.get("summary")]
    if not summ:
        raise vlib.Inconclusive("foreign-hello driver did not finish:\n" + out[-2000:])
    for r in res:
        if r.get("summary"):
            continue
        ctx.evaluations += 1
        ctx.distinct.add("foreign:" + r["key"])
        if r["diff"]:
            ctx.violation("foreign:" + r["shape"], what + " foreign hello: " + r["diff"][:300], r)
    ctx.notes["foreign"] = summ[0]


def echconn_slice(ctx, select, cfgs=("MCEchConn_q.cfg",), label="slice"):
    """Replay the histories of EchConn.tla that are relevant to another property (its Conn-level clause)."""
    import c06
    cases = []
    for cfg in cfgs:
        cases += ctx.emit("MCEchConn", cfg, workers=8, timeout=900, name=label + cfg.replace(".cfg", ""))
    cases = [c for c in cases if select(c)]
    if not cases:
        raise vlib.Inconclusive("no EchConn histories selected")
    c06.replay(ctx, cases, label)
    ctx.notes["echconn_histories"] = ctx.notes.get("echconn_histories", 0) + len(cases)
    ctx.sample({"echconn_history": cases[len(cases) // 2]})


def structural(ctx, sample=None):
    """Structural damage at every length-prefixed node (ops structOuter/structInner of EchHello.tla)."""
    r = ctx.tlc("MCEchHello", "MCEchHello_c08.cfg", timeout=600, name="c08")
    if r["violated"] or not r["ok"]:
        raise vlib.Inconclusive("MCEchHello_c08 failed")
    ctx.states += r["distinct"]
    ctx.transitions += r["generated"]
    cases = vlib.parse_emitted(r["out"], "CASE")
    if sample and len(cases) > sample:
        rnd = random.Random(ctx.seed)
        outer = [c for c in cases if c["op"] == "structOuter"]
        inner = [c for c in cases if c["op"] == "structInner"]
        rnd.shuffle(outer)
        rnd.shuffle(inner)
        cases = outer[:sample // 2] + inner[:sample // 2]
        ctx.exhaustive = False
    f_in, f_out = ctx.path("struct.ndjson"), ctx.path("struct-obs.ndjson")
    vlib.write_ndjson(f_in, cases)
    rc, out = ctx.go_test("^TestEchStruct$", env={"VH_IN": f_in, "VH_OUT": f_out}, timeout=2400)
    res = vlib.read_ndjson(f_out)
    summ = [x for x in res if x.get("summary")]
    if not summ:
        raise vlib.Inconclusive("structural driver did not finish (rc=%d):\n%s" % (rc, out[-2000:]))
    ctx.evaluations += summ[0]["evaluations"]
    ctx.traces += summ[0]["evaluations"]
    ctx.notes["structural"] = summ[0]
    for c in cases:
        ctx.distinct.add("struct:" + json.dumps([c["op"], c["onm"], c["inm"], c["run"]]))
    for x in res:
        if x.get("summary"):
            continue
        c = x.get("case") or {}
        ctx.traces -= 1
        ctx.violation("struct:%s:%s%s:%s:node%s:%s" % (c.get("op"), c.get("onm"), c.get("inm"), c.get("run"), x.get("node"), x.get("kind")),
                      "structural fault %s at node %s of %s hello %s%s run=%s: %s" % (x.get("kind"), x.get("node"), c.get("op"), c.get("onm"), c.get("inm"), c.get("run"), x["diff"]),
                      x)
    ctx.sample({"structural_base_case": {k: cases[0][k] for k in ("onm", "inm", "run", "op")}, "nodes_x_kinds_evaluated": summ[0]["evaluations"]})
