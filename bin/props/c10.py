"""C10 - the NewConn context governs only the initial read.
spec/EchWatch.tla (4 processes: main, watcher, caller/context, client; virtual time). TLC explores every ordering of
{hello available, return, cancel/expiry, watcher scheduled}; the real NewConn is bound by trace validation of runs in
synctest bubbles over the same scenario set, repeated under GOMAXPROCS 1, 2, 4, 16."""
import json
import vlib


def run_watch(ctx, iters, stall_step, label="w"):
    scens = ctx.emit("EchWatchScen", "EchWatchScen.cfg", timeout=300)
    f_in, f_out = ctx.path("wscen.ndjson"), ctx.path("wtraces-%s.ndjson" % label)
    vlib.write_ndjson(f_in, scens)
    rc, out = ctx.go_test("^TestWatchScenarios$", env={"VH_IN": f_in, "VH_OUT": f_out, "VH_ITERS": iters, "VH_STALL_STEP": stall_step}, timeout=2400)
    traces = vlib.split_traces(vlib.read_ndjson(f_out))
    if rc != 0 and not traces:
        raise vlib.Inconclusive("watch driver failed:\n" + out[-2000:])
    if rc != 0:
        last = traces[-1][0]["scen"] if traces else {}
        ctx.violation("harness-death:" + vlib.fp(last), "NewConn watch harness died (deadlock/leak in the bubble?) after scenario %s: %s" % (json.dumps(last), out[-800:]),
                      {"scenario": last, "output": out[-3000:]})
    for tr in traces:
        sc = tr[0]["scen"]
        ctx.case(vlib.fp([sc, tr[0]["procs"]]), nontrivial=True)
    ctx.notes["runs"] = ctx.notes.get("runs", 0) + len(traces)
    for tr in traces[:1] + traces[len(traces) // 2:len(traces) // 2 + 1]:
        ctx.sample(tr)
    vlib.check_traces_chunks(ctx, traces, 3000 if ctx.quick else 12000, label, module="TraceEchWatch", cfg="TraceEchWatch.cfg", specname="EchWatch.tla")
    return traces


def odd_transports(ctx):
    """The same property on transports the trace specification does not model: SetDeadline unsupported, hello already
    buffered in front of the transport; direct assertions on the returned connection."""
    f = ctx.path("watch-odd.ndjson")
    rc, out = ctx.go_test("^TestWatchTransports$", env={"VH_OUT": f}, timeout=900)
    res = vlib.read_ndjson(f)
    summ = [x for x in res if x.get("summary")]
    if not summ:
        raise vlib.Inconclusive("odd-transport driver did not finish:\n" + out[-1500:])
    ctx.evaluations += summ[0]["runs"]
    ctx.notes["odd_transport_runs"] = summ[0]["runs"]
    for x in res:
        if not x.get("summary"):
            ctx.violation("odd:" + x["key"].rsplit("/", 1)[0], "NewConn on an unusual transport (%s): %s" % (x["key"], x["diff"]), x)


def sequences(ctx):
    """Connections one after the other and several at a time, in real time outside any bubble: state one NewConn leaves behind
    (watchers, pooled objects) must not change how the next connection treats its own context."""
    f = ctx.path("watch-seq.ndjson")
    rc, out = ctx.go_test("^TestWatchSequences$", env={"VH_OUT": f}, timeout=900)
    res = vlib.read_ndjson(f)
    summ = [x for x in res if x.get("summary")]
    if not summ:
        raise vlib.Inconclusive("connection-sequence driver did not finish:\n" + out[-1500:])
    ctx.evaluations += summ[0]["runs"]
    ctx.notes["sequence_steps"] = summ[0]["runs"]
    for x in res:
        if not x.get("summary"):
            ctx.violation("seq:" + x["key"].split("/")[-1], "NewConn in a sequence of connections (%s): %s" % (x["key"], x["diff"]), x)


def run(ctx):
    ctx.rule = ("scenario = (context deadline, instant the hello becomes available, instant the caller cancels) over {-1 (never), 0, 1, 2}^3 "
                "= 64 scenarios, every one run repeatedly under GOMAXPROCS 1/2/4/16; the caller always cancels again right after NewConn "
                "returned; distinct = distinct (scenario, GOMAXPROCS)")
    ctx.assumptions = ["Go's select tie (done vs ctx.Done both ready) cannot be forced from outside: real-code coverage of that schedule is "
                       "statistical (many iterations); exhaustiveness is at model level"]
    ctx.mc("EchWatch", "MCEchWatch.cfg", timeout=600)
    if not ctx.replay:
        sequences(ctx)
    run_watch(ctx, 12 if ctx.quick else 300, 997)
    odd_transports(ctx)
