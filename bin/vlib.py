#!/usr/bin/env python3
"""Shared machinery for /verif/bin/check: TLC runs, case emission, Go harness runs,
trace validation, evidence, known findings and verdicts.

Verdict rules (DESIGN 2.3):
  exit 0  property held on everything explored (KNOWN-FINDING lines allowed)
  exit 1  VIOLATION property=<id> replay=<path>   -- only for behaviour of the REAL code
  exit 2  INCONCLUSIVE (TLC crash/timeout, harness build failure, dead driver, vacuity)
"""
import json, os, re, shutil, subprocess, sys, time, hashlib

VERIF = os.path.dirname(os.path.dirname(os.path.abspath(__file__)))
SPEC = os.path.join(VERIF, "spec")
HARNESS = os.path.join(VERIF, "harness")
EVID = os.path.join(VERIF, "evidence")
# The registered checks always verify /repo. VERIF_REPO points the harness at another checkout ONLY for the framework's own
# seeded-change runs (bin/seedmatrix --isolated), so that they do not disturb /repo.
REPO = os.environ.get("VERIF_REPO", "/repo")
if REPO != "/repo":
    # a run of the framework's own seeded-change machinery: its evidence (the evidence of a CHANGED tree) must never land in
    # /verif/evidence, which describes /repo
    EVID = os.path.join(VERIF, ".scratch", "evidence-of-changed-trees")
TLA_CP = "/opt/veriftools/tla/tla2tools.jar:/opt/veriftools/tla/CommunityModules-deps.jar"
NCPU = os.cpu_count() or 4


class Inconclusive(Exception):
    pass


def go_env():
    e = dict(os.environ)
    e.update(GOFLAGS="-mod=mod", GOPROXY="off", GOSUMDB="off", GOTOOLCHAIN="local", CGO_ENABLED=e.get("CGO_ENABLED", "1"))
    return e


class Ctx:
    """One check run."""

    def __init__(self, pid, tier, seed):
        self.pid, self.tier, self.seed = pid, tier, seed
        self.t0 = time.time()
        self.scratch = os.path.join(VERIF, ".scratch", "%s-%d" % (pid, os.getpid()))
        shutil.rmtree(self.scratch, ignore_errors=True)
        os.makedirs(self.scratch)
        self.states = 0
        self.transitions = 0
        self.traces = 0
        self.evaluations = 0
        self.distinct = set()
        self.samples = []
        self.violations = []      # (fingerprint, what, replay-object)
        self.known_hits = []
        self.notes = {}
        self.exhaustive = True
        self.tlc_runs = []
        self.assumptions = []
        self.rule = ""
        self.coverage_zero = []

    @property
    def quick(self):
        return self.tier == "quick"

    def path(self, name):
        return os.path.join(self.scratch, name)

    def cleanup(self):
        shutil.rmtree(self.scratch, ignore_errors=True)

    # ------------------------------------------------------------------ TLC
    def tlc(self, module, cfg, workers=None, timeout=900, extra=(), env_extra=None, simulate=None,
            depth=None, check_deadlock=False, name=None, want_output=False, coverage=False, dfs=False, heap=None):
        """Run TLC on spec/<module>.tla with spec/<cfg>. Returns dict(out, generated, distinct, ok, violated).
        Raises Inconclusive on crash/timeout."""
        name = name or cfg.replace(".cfg", "")
        work = self.path("tlc-" + name)
        shutil.rmtree(work, ignore_errors=True)
        os.makedirs(work)
        # run in a scratch copy: TLC litters states/ etc.
        for f in os.listdir(SPEC):
            if f.endswith(".tla") or f.endswith(".cfg"):
                shutil.copy(os.path.join(SPEC, f), work)
        if workers is None:
            workers = NCPU
        cmd = ["java", "-XX:+UseParallelGC", "-Xss512m"]
        if heap:
            cmd.append("-Xmx" + heap)   # several trace validations run side by side: keep each JVM small
        if dfs:
            cmd.append("-Dtlc2.tool.queue.IStateQueue=StateDeque")
        cmd += ["-cp", TLA_CP, "tlc2.TLC", "-config", cfg, "-workers", str(workers), "-metadir", os.path.join(work, "meta"),
                "-seed", str(self.seed), "-noGenerateSpecTE"]
        if not check_deadlock:
            pass  # CHECK_DEADLOCK FALSE is set in the cfg files
        if simulate:
            cmd += ["-simulate", simulate]
        if depth:
            cmd += ["-depth", str(depth)]
        if coverage:
            cmd += ["-coverage", "1"]
        cmd += list(extra)
        cmd.append(module + ".tla")
        env = dict(os.environ)
        if env_extra:
            env.update(env_extra)
        t0 = time.time()
        outf = os.path.join(work, "out.txt")
        try:
            with open(outf, "w") as fo:
                p = subprocess.run(cmd, cwd=work, stdout=fo, stderr=subprocess.STDOUT, env=env, timeout=timeout)
        except subprocess.TimeoutExpired:
            subprocess.run(["pkill", "-f", os.path.join(work, "meta")], check=False)
            raise Inconclusive("TLC timeout (%ss) on %s/%s" % (timeout, module, cfg))
        out = open(outf, errors="replace").read()
        res = {"out": out, "rc": p.returncode, "wall": time.time() - t0, "module": module, "cfg": cfg}
        m = re.search(r"(\d+) states generated, (\d+) distinct states found", out)
        if m:
            res["generated"], res["distinct"] = int(m.group(1)), int(m.group(2))
        else:
            res["generated"], res["distinct"] = 0, 0
        res["violated"] = None
        mv = re.search(r"Error: Invariant (\S+) is violated", out) or re.search(r"Error: Action property (\S+) is violated", out) \
            or re.search(r"Error: Temporal properties were violated", out)
        if mv:
            res["violated"] = mv.group(1) if mv.groups() else "temporal"
        if "Error: Deadlock reached" in out:
            res["violated"] = "deadlock"
        res["ok"] = (p.returncode == 0 and "Model checking completed. No error has been found" in out) or \
                    (simulate is not None and p.returncode == 0)
        if not res["ok"] and res["violated"] is None and "POSTCONDITION" not in out and "Postcondition" not in out \
                and "TRACE_REJECTED_AT" not in out:
            # a crash, parse error, evaluation error...
            tail = "\n".join(out.splitlines()[-25:])
            raise Inconclusive("TLC failed on %s/%s (rc=%d):\n%s" % (module, cfg, p.returncode, tail))
        self.tlc_runs.append({"module": module, "cfg": cfg, "generated": res["generated"], "distinct": res["distinct"],
                              "wall_s": round(res["wall"], 2), "violated": res["violated"]})
        if coverage:
            res["zero_actions"] = zero_coverage(out)
            res["zero_lines"] = sorted(set("%s:%s" % (m.group(2), m.group(1)) for m in
                                           re.finditer(r"line (\d+), col \d+ to line \d+, col \d+ of module (\w+)>?: 0$", out, re.M)))
        if not want_output:
            pass
        return res

    def mc(self, module, cfg, **kw):
        # thorough tier: also collect TLC's coverage statistics; expressions never evaluated (count 0) are recorded in
        # the evidence so that a vacuous invariant / dead action is visible (informational, never a verdict)
        if self.tier == "thorough" and "coverage" not in kw and not kw.get("simulate"):
            kw["coverage"] = True
        """Design-level model checking run; must complete without error. A violation in the MODEL is not a
        violation of the code: it is reported as INCONCLUSIVE (the model is wrong or the design is) unless the caller
        replays it."""
        r = self.tlc(module, cfg, **kw)
        if r["violated"]:
            raise Inconclusive("model-level violation of %s in %s/%s (design/model problem, not replayed on code)" %
                               (r["violated"], module, cfg))
        if not r["ok"]:
            raise Inconclusive("TLC did not complete on %s/%s" % (module, cfg))
        self.states += r["distinct"]
        self.transitions += r["generated"]
        if r.get("zero_lines") is not None:
            self.notes.setdefault("never_evaluated_expressions", {})[cfg] = {"count": len(r["zero_lines"]), "first": r["zero_lines"][:8]}
        return r

    def emit(self, module, cfg, tag="CASE", **kw):
        """Run an emission config (NEXT Stutter / Done-state printing) and return the list of JSON cases."""
        kw.setdefault("workers", 1)
        r = self.tlc(module, cfg, **kw)
        if r["violated"] or not r["ok"]:
            raise Inconclusive("emission run failed on %s/%s: %s" % (module, cfg, r["violated"]))
        cases = parse_emitted(r["out"], tag)
        self.states += r["distinct"]
        self.transitions += r["generated"]
        return cases

    def validate_traces(self, module, cfg, trace_file, timeout=1800, dfs=True, name=None):
        """Trace validation: TLC must consume the whole ndjson file (POSTCONDITION on the high-water mark) with all
        invariants on. Returns (accepted, info)."""
        r = self.tlc(module, cfg, workers=1, timeout=timeout, env_extra={"TRACE_FILE": trace_file}, dfs=dfs, name=name, heap="6g")
        self.states += r["distinct"]
        self.transitions += r["generated"]
        info = {"violated": r["violated"], "rejected_at": None, "out_tail": "\n".join(r["out"].splitlines()[-30:])}
        m = re.search(r"TRACE_REJECTED_AT\D+(\d+)", r["out"])
        if m:
            info["rejected_at"] = int(m.group(1))
        accepted = r["ok"] and not r["violated"] and info["rejected_at"] is None
        return accepted, info

    def tlaps(self, module, deps=(), theorem="", timeout=1500):
        """Check a TLAPS proof module (unbounded design-level result; never a verdict about the code by itself)."""
        work = self.path("tlaps-" + module)
        os.makedirs(work, exist_ok=True)
        for f in (module,) + tuple(deps):
            shutil.copy(os.path.join(SPEC, f + ".tla"), work)
        try:
            p = subprocess.run(["tlapm", "--threads", "16", "--cleanfp", module + ".tla"], cwd=work, capture_output=True, text=True, timeout=timeout)
        except subprocess.TimeoutExpired:
            raise Inconclusive("TLAPS timeout on %s.tla" % module)
        m = re.search(r"All (\d+) obligations? proved", p.stdout + p.stderr)
        if not m:
            raise Inconclusive("TLAPS did not discharge %s.tla:\n%s" % (module, (p.stdout + p.stderr)[-1500:]))
        self.notes.setdefault("tlaps", []).append({"module": module + ".tla", "theorem": theorem, "obligations": int(m.group(1)), "discharged": int(m.group(1))})

    # ------------------------------------------------------------------ Go harness
    def go_test(self, run, env=None, timeout=1500, race=False, pkg="./...", extra=()):
        """Run the harness tests matching `run` with -tags verif against /repo's working tree."""
        sync_gosum()
        e = go_env()
        e["VERIF_SEED"] = str(self.seed)
        e["VERIF_TIER"] = self.tier
        e["VERIF_SCRATCH"] = self.scratch
        if env:
            e.update({k: str(v) for k, v in env.items()})
        cmd = ["go1.26", "test"] + modfile_args(self.scratch) + ["-tags", "verif", "-count=1", "-vet=off", "-timeout", "%ds" % timeout, "-run", run]
        if race:
            cmd.append("-race")
        cmd += list(extra) + [pkg]
        try:
            p = subprocess.run(cmd, cwd=HARNESS, env=e, stdout=subprocess.PIPE, stderr=subprocess.STDOUT, timeout=timeout + 60)
        except subprocess.TimeoutExpired:
            raise Inconclusive("go test %s timed out" % run)
        out = p.stdout.decode(errors="replace")
        if "[build failed]" in out or "[setup failed]" in out or re.search(r"^# ", out, re.M) and p.returncode != 0 and "--- FAIL" not in out and "panic:" not in out:
            raise Inconclusive("harness build failed:\n" + out[-3000:])
        if "no tests to run" in out:
            raise Inconclusive("dead driver: no test matched %s" % run)
        return p.returncode, out

    # ------------------------------------------------------------------ bookkeeping
    def case(self, fp, nontrivial=True):
        self.evaluations += 1
        if nontrivial:
            self.distinct.add(fp)

    def sample(self, obj, limit=4):
        if len(self.samples) < limit:
            self.samples.append(obj)

    def violation(self, fingerprint, what, replay):
        self.violations.append((fingerprint, what, replay))


def zero_coverage(out):
    zs = []
    for m in re.finditer(r"^<(\w+) line \d+, col \d+ to line \d+, col \d+ of module (\w+)>: (\d+):(\d+)", out, re.M):
        if int(m.group(3)) == 0 and int(m.group(4)) == 0:
            zs.append(m.group(2) + "!" + m.group(1))
    return zs


def parse_emitted(out, tag="CASE"):
    cases = []
    pre = '<<"%s", "' % tag
    for line in out.splitlines():
        if line.startswith(pre) and line.endswith('">>'):
            s = line[len(pre) - 1:-2]       # the quoted TLA+ string, escapes are JSON compatible
            try:
                cases.append(json.loads(json.loads(s)))
            except Exception as ex:
                raise Inconclusive("cannot parse emitted case: %r (%s)" % (line[:200], ex))
    return cases


def sync_gosum():
    """The harness module resolves the library through replace => /repo; go.sum is the union of the repo's sums."""
    lines = set()
    for f in (REPO + "/go.sum", REPO + "/publish/go.sum", REPO + "/quic/go.sum", os.path.join(HARNESS, "go.sum.extra")):
        if os.path.exists(f):
            lines.update(l for l in open(f).read().splitlines() if l.strip())
    dst = os.path.join(HARNESS, "go.sum")
    new = "\n".join(sorted(lines)) + "\n"
    if not os.path.exists(dst) or open(dst).read() != new:
        open(dst, "w").write(new)


def modfile_args(scratch):
    """-modfile pointing the harness at VERIF_REPO (empty when verifying /repo itself)."""
    if REPO == "/repo":
        return []
    mod = open(os.path.join(HARNESS, "go.mod")).read().replace("=> /repo/publish", "=> " + REPO + "/publish").replace("=> /repo", "=> " + REPO)
    alt = os.path.join(scratch, "go.alt.mod")
    open(alt, "w").write(mod)
    shutil.copy(os.path.join(HARNESS, "go.sum"), os.path.join(scratch, "go.alt.sum"))
    return ["-modfile=" + alt]


def write_ndjson(path, objs):
    with open(path, "w") as f:
        for o in objs:
            f.write(json.dumps(o, separators=(",", ":")) + "\n")


def read_ndjson(path):
    out = []
    if not os.path.exists(path):
        return out
    with open(path) as f:
        for l in f:
            l = l.strip()
            if l:
                try:
                    out.append(json.loads(l))
                except ValueError:
                    # a driver that died while writing leaves a cut last line: what was written before it stands
                    # (a missing summary line makes the caller INCONCLUSIVE or report the death)
                    break
    return out


def fp(obj):
    return hashlib.sha1(json.dumps(obj, sort_keys=True).encode()).hexdigest()[:16]


def split_traces(evs):
    traces, cur = [], None
    for e in evs:
        if e.get("e") == "reset":
            cur = [e]
            traces.append(cur)
        elif cur is not None:
            cur.append(e)
    return traces


def check_traces(ctx, traces, label, module="TraceDial", cfg="TraceDial.cfg", specname="Dial.tla", key="scen"):
    """Validate a batch; on rejection bisect down to the first offending trace and report it."""
    # crashes / structural problems are decided without TLC
    good = []
    for tr in traces:
        crash = [e for e in tr if e.get("e") == "crash"]
        if crash:
            ctx.violation("crash:" + fp(tr[0][key]), "scenario crashed/leaked in the harness bubble: %s" % crash[0]["msg"][:300],
                          {"scenario": tr[0][key], "trace": tr})
            continue
        good.append(tr)

    def flat(trs):
        return [e for tr in trs for e in tr]

    def validate(trs, name):
        f = ctx.path("traces-%s.ndjson" % name)
        write_ndjson(f, flat(trs))
        return ctx.validate_traces(module, cfg, f, name="trace-" + name)

    if not good:
        return
    ok, info = validate(good, label)
    if ok:
        ctx.traces += len(good)
        return
    # locate the rejected trace: high-water index -> trace number
    bad_idx = None
    if info["rejected_at"]:
        pos, k = 0, 0
        for k, tr in enumerate(good):
            if pos + len(tr) >= info["rejected_at"]:
                bad_idx = k
                break
            pos += len(tr)
    if bad_idx is None:
        # invariant violation: TLC stops at the first; find by bisection
        lo, hi = 0, len(good)
        while hi - lo > 1:
            mid = (lo + hi) // 2
            ok2, _ = validate(good[lo:mid], label + "-bis")
            if ok2:
                lo = mid
            else:
                hi = mid
        bad_idx = lo
    ctx.traces += bad_idx
    tr = good[bad_idx]
    ok1, info1 = validate([tr], label + "-single")
    if ok1:
        raise Inconclusive("trace batch rejected but the single trace is accepted (harness/TLC problem)")
    what = "real trace not explained by %s" % specname
    if info1["violated"]:
        what = "invariant %s violated on a real trace" % info1["violated"]
    elif info1["rejected_at"]:
        at = info1["rejected_at"]
        what += " at event %d: %s" % (at, json.dumps(tr[at - 1]) if at - 1 < len(tr) else "end")
    ctx.violation("trace:" + fp(tr[0][key]), what + " scenario=" + json.dumps(tr[0][key]),
                  {"scenario": tr[0][key], "trace": tr, "tlc": info1["out_tail"][-1500:]})
    # keep validating the rest so that one rejection does not hide others
    rest = good[bad_idx + 1:]
    if rest and len(ctx.violations) < 5:
        check_traces(ctx, rest, label + "r", module, cfg, specname, key)




def check_traces_chunks(ctx, traces, chunk, label, par=6, **kw):
    """Validate a large batch as several TLC runs side by side (each trace validation is single-threaded)."""
    from concurrent.futures import ThreadPoolExecutor
    parts = [(i // chunk, traces[i:i + chunk]) for i in range(0, len(traces), chunk)]
    if len(parts) <= 1:
        for k, part in parts:
            check_traces(ctx, part, "%s%d" % (label, k), **kw)
        return
    errs = []

    def one(kp):
        k, part = kp
        try:
            check_traces(ctx, part, "%s%d" % (label, k), **kw)
        except Inconclusive as e:
            errs.append(e)
    with ThreadPoolExecutor(max_workers=par) as ex:
        list(ex.map(one, parts))
    if errs:
        raise errs[0]


def load_known():
    p = os.path.join(VERIF, "known_findings.json")
    if not os.path.exists(p):
        return []
    return json.load(open(p))


def finish(ctx, level="model_checking", extra_cov=None):
    """Apply known findings, write evidence, print verdict lines, exit."""
    known = [k for k in load_known() if k.get("property") == ctx.pid and k.get("status") == "known"]
    real = []
    for (fpr, what, replay) in ctx.violations:
        k = next((k for k in known if k["fingerprint"] == fpr), None)
        if k:
            ctx.known_hits.append(k)
        else:
            real.append((fpr, what, replay))
    seen = set()
    for k in ctx.known_hits:
        if k["fingerprint"] in seen:
            continue
        seen.add(k["fingerprint"])
        print("KNOWN-FINDING: property=%s %s" % (ctx.pid, k["what"]))
    os.makedirs(EVID, exist_ok=True)
    cov = {
        "states": ctx.states, "transitions": ctx.transitions,
        "traces_validated_against_impl": ctx.traces,
        "samples": ctx.samples[:6] if ctx.samples else [{"note": "no sample recorded"}],
        "evaluations": ctx.evaluations, "distinct_nontrivial": len(ctx.distinct), "rule": ctx.rule,
        "exhaustive": bool(ctx.exhaustive and not real),
        "tlc_runs": ctx.tlc_runs,
    }
    cov.update(ctx.notes)
    if extra_cov:
        cov.update(extra_cov)
    ev = {"property_id": ctx.pid, "tier": ctx.tier, "seed": ctx.seed, "level": level, "coverage": cov,
          "assumptions": ctx.assumptions, "wall_s": round(time.time() - ctx.t0, 2), "violations": len(real),
          "known_findings_hit": len(seen)}
    with open(os.path.join(EVID, ctx.pid + ".json"), "w") as f:
        json.dump(ev, f, indent=1)
    rc = 0
    if not real and (ctx.evaluations == 0 or ctx.states == 0):
        # vacuity: nothing the specification produced reached the real code (or TLC explored nothing)
        print("INCONCLUSIVE property=%s vacuous run: states=%d evaluations=%d" % (ctx.pid, ctx.states, ctx.evaluations))
        ctx.cleanup()
        sys.exit(2)
    if real:
        rdir = os.path.join(VERIF, "replays")
        os.makedirs(rdir, exist_ok=True)
        shown = set()
        for (fpr, what, replay) in real[:20]:
            if fpr in shown:
                continue
            shown.add(fpr)
            rp = os.path.join(rdir, "%s-%s.json" % (ctx.pid, re.sub(r"[^A-Za-z0-9_.-]", "_", fpr)[:60]))
            with open(rp, "w") as f:
                json.dump({"property": ctx.pid, "fingerprint": fpr, "what": what, "replay": replay}, f, indent=1)
            print("VIOLATION property=%s replay=%s" % (ctx.pid, rp))
            print("  " + what[:400])
        rc = 1
    ctx.cleanup()
    if rc == 0:
        print("OK property=%s tier=%s states=%d evaluations=%d traces=%d wall=%.1fs" %
              (ctx.pid, ctx.tier, ctx.states, ctx.evaluations, ctx.traces, time.time() - ctx.t0))
    sys.exit(rc)


def inconclusive(ctx, msg):
    print("INCONCLUSIVE property=%s %s" % (ctx.pid, msg))
    # still write an evidence file that says so (not valid evidence of coverage)
    try:
        ctx.cleanup()
    except Exception:
        pass
    sys.exit(2)
