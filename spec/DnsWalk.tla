------------------------------ MODULE DnsWalk ------------------------------
(* C12 (pointer clause) - decoding a name terminates for EVERY layout of labels and compression pointers.
   dns/message.go nameLabels as a state machine over an abstract message layout: cell k is a label ("L"), the end of a
   name ("E"), a compression pointer to cell j ("P"), or bytes that are not part of a name ("J").  The walk starts at
   any cell (entered through a pointer from a later record, so that `seg`, the start of the current label run, is the
   start cell).  Rule = "safe": a pointer must point strictly before the start of the label run it ends (the rule of
   the code); Rule = "coded": the rule of the original code (before its own position) - kept to document that TLC
   refutes it with the layout <<L, P->0>>.                                                                          *)
EXTENDS Integers, Sequences, FiniteSets, TLC

CONSTANTS N, Rule
Cell == {[k |-> "L"], [k |-> "E"], [k |-> "J"]} \cup {[k |-> "P", to |-> j] : j \in 0..N-1}
VARIABLES cells, start, pos, seg, hops, labels, st
vars == <<cells, start, pos, seg, hops, labels, st>>
Init == /\ cells \in [0..N-1 -> Cell] /\ start \in 0..N-1 /\ pos = start /\ seg = start /\ hops = 0 /\ labels = 0 /\ st = "run"
Legal(to, at) == IF Rule = "coded" THEN to < at ELSE to < seg
Step ==
  /\ st = "run"
  /\ IF pos >= N THEN st' = "err" /\ UNCHANGED <<pos, seg, hops, labels>>             \* ran off the end of the message
     ELSE LET c == cells[pos] IN
       CASE c.k = "L" -> pos' = pos + 1 /\ labels' = labels + 1 /\ hops' = hops + 1 /\ UNCHANGED <<seg, st>>
         [] c.k = "E" -> st' = "done" /\ UNCHANGED <<pos, seg, hops, labels>>
         [] c.k = "J" -> st' = "err" /\ UNCHANGED <<pos, seg, hops, labels>>          \* not a name: an over-long label length
         [] c.k = "P" -> IF Legal(c.to, pos) THEN pos' = c.to /\ seg' = c.to /\ hops' = hops + 1 /\ UNCHANGED <<st, labels>>
                         ELSE st' = "err" /\ UNCHANGED <<pos, seg, hops, labels>>
  /\ UNCHANGED <<cells, start>>
Next == Step
Spec == Init /\ [][Next]_vars /\ WF_vars(Next)
Terminates == <>(st # "run")
\* label runs between successful jumps are disjoint; only the last (failing) run can overlap an earlier one
StepBound == hops <= 3 * N /\ labels <= 2 * N
SegDecreases == [][seg' <= seg]_vars
\* the ranking argument of DnsWalkProof.tla (proved there with TLAPS for every N), evaluated here on every explored state
MeasureInv == hops + seg * (N + 1) + (N - pos) <= start * (N + 1) + (N - start)
=============================================================================
