INIT Init
NEXT Next
CONSTANTS Domain <- F_httpsx
INVARIANTS RoundTrip RoundTripCompressed CompressionNeverLonger Emit
CHECK_DEADLOCK FALSE
