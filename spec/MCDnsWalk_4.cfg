SPECIFICATION Spec
CONSTANTS N = 4
 Rule = "safe"
INVARIANTS StepBound Emit
PROPERTIES Terminates SegDecreases
CHECK_DEADLOCK FALSE
