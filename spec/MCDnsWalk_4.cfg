SPECIFICATION Spec
CONSTANTS N = 4
 Rule = "safe"
INVARIANTS StepBound MeasureInv Emit
PROPERTIES Terminates SegDecreases
CHECK_DEADLOCK FALSE
