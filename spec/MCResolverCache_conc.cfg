SPECIFICATION Spec
CONSTANTS
 Keys = {"n1"}
 G = 2
 MaxNow = 3
 MaxGen = 1
 TtlSets <- TS_full
INVARIANTS TypeOK EntryFresh Fresh NoCachedFailure MutualExclusion LockHeld
CHECK_DEADLOCK FALSE
VIEW ViewNoLast
