SPECIFICATION Spec
CONSTANTS
 Keys = {"n1"}
 G = 2
 MaxNow = 2
 MaxGen = 1
 TtlSets <- TS_q
 Evicts = TRUE
 MaxObj = 3
CONSTRAINT ObjBound
ACTION_CONSTRAINT CancelLate
INVARIANTS TypeOK EntryFresh Fresh NoCachedFailure MutualExclusion LockHeld KeyOK ServedFromCache
CHECK_DEADLOCK FALSE
VIEW ViewNoLast
