---------------------------- MODULE MCEchConn ----------------------------
EXTENDS EchConn, Json
KS1 == {"K1"}
KS3 == {"K1", "K3K1", "K2K1"}
FirstAll == {"acc", "grease", "plain"}
FirstAcc == {"acc"}
\* emit maximal histories and aborted ones
Emit == (Len(hist) = MaxLen \/ st = "err") =>
          PrintT(<<"CASE", ToJson([first |-> first, keys |-> keyset, hist |-> hist, outs |-> outs])>>)
=============================================================================
