---------------------------- MODULE MCEchConn ----------------------------
EXTENDS EchConn, Json
KS1 == {"K1"}
\* ... up to four held keys that share the config id and the suite, the target in the last position; an undecodable entry first
KS3 == {"K1", "K3K1", "K2K1", "K2K6K3K1", "KXK2K1", "K4K1", "K2K4K1"}
FirstAll == {"acc", "grease", "plain"}
FirstAcc == {"acc"}
\* emit maximal histories and aborted ones
Emit == (Len(hist) = MaxLen \/ st = "err") =>
          PrintT(<<"CASE", ToJson([first |-> first, keys |-> keyset, hist |-> hist, outs |-> outs])>>)
=============================================================================
