---------------------------- MODULE MCResolverCache ----------------------------
(* (1) concurrent configuration: G = 2 goroutines, all interleavings;
   (2) sequential histories: G = 1, a history variable records the operations and the result of every lookup, so that TLC
       enumerates HISTORIES and each can be replayed on a real Resolver. *)
EXTENDS ResolverCache, Json


VARIABLES hist
hvars == <<vars, hist>>
MaxH == 5
HInit == /\ Init /\ hist = <<>> /\ \A k \in Keys : k # "n1" => ttls[k] = [g \in 0..MaxGen |-> <<2>>]
         /\ ttls["n1"][1] \in TS_two
Op(o) == hist' = Append(hist, o)
\* a whole lookup as one history step (G = 1: the micro-steps are deterministic)
Lookup(k) ==
  LET e == cache[k] IN
  /\ Len(hist) < MaxH
  /\ IF Valid(e, now) THEN /\ Op([op |-> "resolve", k |-> k, kind |-> "ok", gen |-> e.gen, upq |-> FALSE]) /\ UNCHANGED cache
     ELSE IF up THEN /\ cache' = [cache EXCEPT ![k] = [exp |-> now + MinOf(ttls[k][gen[k]]), gen |-> gen[k], f |-> now, min |-> MinOf(ttls[k][gen[k]])]]
                     /\ Op([op |-> "resolve", k |-> k, kind |-> "ok", gen |-> gen[k], upq |-> TRUE])
     ELSE /\ cache' = [cache EXCEPT ![k] = None] /\ Op([op |-> "resolve", k |-> k, kind |-> "err", gen |-> -1, upq |-> TRUE])
  /\ UNCHANGED <<now, up, ttls, gen, wlock, pc, key, got, fetched, upq, missed, last>>
HNext == \/ \E k \in Keys : Lookup(k)
         \/ Len(hist) < MaxH /\ Advance /\ Op([op |-> "advance"])
         \/ \E k \in Keys : Len(hist) < MaxH /\ Change(k) /\ Op([op |-> "change", k |-> k])
         \/ Len(hist) < MaxH /\ Toggle /\ Op([op |-> "toggle"])
HSpec == HInit /\ [][HNext]_hvars
\* the one-step Lookup is the composition of the micro-steps: checked by refinement of the properties
HEntryFresh == EntryFresh
Emit == (Len(hist) = MaxH) => PrintT(<<"CASE", ToJson([ttls |-> <<ttls["n1"][0], ttls["n1"][1]>>, hist |-> hist])>>)
=============================================================================
