---------------------------- MODULE MCResolverCache ----------------------------
(* (1) concurrent configuration: G = 2 goroutines, all interleavings;
   (2) sequential histories: G = 1, a history variable records the operations and the result of every lookup, so that TLC
       enumerates HISTORIES and each can be replayed on a real Resolver. *)
EXTENDS ResolverCache, Json


VARIABLES hist
hvars == <<vars, hist>>
MaxH == 5
HInit == /\ Init /\ hist = <<>> /\ \A k \in Keys : k # "n1" => ttls[k] = [g \in 0..MaxGen |-> <<2>>]
         /\ ttls["n1"][1] \in TS_two
Op(o) == hist' = Append(hist, o)
\* a whole lookup as one history step (G = 1: the micro-steps are deterministic)
Lookup(k) ==
  LET o == cache[k]
      e == IF o = 0 THEN None ELSE objs[o]
      fresh == [exp |-> now + MinOf(ttls[k][gen[k]]), gen |-> gen[k], f |-> now, min |-> MinOf(ttls[k][gen[k]])] IN
  /\ Len(hist) < MaxH
  /\ IF Valid(e, now) THEN /\ Op([op |-> "resolve", k |-> k, kind |-> "ok", gen |-> e.gen, upq |-> FALSE]) /\ UNCHANGED <<nobj, objs, okey, olock, cache>>
     ELSE IF up
     THEN /\ Op([op |-> "resolve", k |-> k, kind |-> "ok", gen |-> gen[k], upq |-> TRUE])
          /\ IF o # 0 THEN objs' = [objs EXCEPT ![o] = fresh] /\ UNCHANGED <<nobj, okey, olock, cache>>
             ELSE /\ nobj' = nobj + 1 /\ cache' = [cache EXCEPT ![k] = nobj + 1]
                  /\ objs' = [x \in 1..(nobj + 1) |-> IF x <= nobj THEN objs[x] ELSE fresh]
                  /\ okey' = [x \in 1..(nobj + 1) |-> IF x <= nobj THEN okey[x] ELSE k]
                  /\ olock' = [x \in 1..(nobj + 1) |-> IF x <= nobj THEN olock[x] ELSE 0]
     ELSE /\ cache' = [cache EXCEPT ![k] = 0] /\ Op([op |-> "resolve", k |-> k, kind |-> "err", gen |-> -1, upq |-> TRUE])
          /\ UNCHANGED <<nobj, objs, okey, olock>>
  /\ UNCHANGED <<now, up, ttls, gen, pc, key, ent, got, fetched, upq, upqAt, hit, cancelled, last>>
HNext == \/ \E k \in Keys : Lookup(k)
         \/ Len(hist) < MaxH /\ Advance /\ Op([op |-> "advance"])
         \/ \E k \in Keys : Len(hist) < MaxH /\ Change(k) /\ Op([op |-> "change", k |-> k])
         \/ Len(hist) < MaxH /\ Toggle /\ Op([op |-> "toggle"])
HSpec == HInit /\ [][HNext]_hvars
\* the one-step Lookup is the composition of the micro-steps: checked by refinement of the properties
HEntryFresh == EntryFresh
Emit == (Len(hist) = MaxH) => PrintT(<<"CASE", ToJson([ttls |-> <<ttls["n1"][0], ttls["n1"][1]>>, hist |-> hist])>>)
=============================================================================
