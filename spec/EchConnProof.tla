--------------------------- MODULE EchConnProof ---------------------------
(* Unbounded version of EchConn's core safety: for EVERY history length (MaxLen is not bounded here), every alphabet and
   every key set, a Conn decrypts at most one retried hello, is armed at most once, only an accepted connection is ever
   inspected or aborted, and the pass-through flags are what makes these hold.  Proved with TLAPS by an inductive
   invariant over the state variables (the history variables are not needed); TLC's runs of MCEchConn cover histories of
   length <= 5 exhaustively and bind the transitions to the code. *)
EXTENDS EchConn, TLAPS

Core == /\ retry \in {0, 1} /\ seq \in {0, 1, 2}
        /\ (retry = 1 => wPass /\ accepted)          \* armed at most once: arming ends the write-side inspection
        /\ (seq = 2 => rPass)                        \* the second decryption ends the read-side inspection
        /\ (accepted => seq >= 1)
        /\ (~accepted => rPass /\ wPass /\ retry = 0 /\ seq = 0 /\ st = "ok")   \* a connection that was not accepted is a pure pipe

THEOREM InitCore == Init => Core
  BY DEF Init, Core

THEOREM StepCore == Core /\ [Next]_vars => Core'
<1> SUFFICES ASSUME Core, [Next]_vars PROVE Core'
  OBVIOUS
<1>1 ASSUME NEW s \in CSyms, Read(s) PROVE Core'
  <2>1 CASE rPass
    BY <1>1, <2>1 DEF Read, Core, Log
  <2>2 CASE ~rPass /\ s \in {"APP", "ZEROAPP"}
    BY <1>1, <2>2 DEF Read, Core, Log
  <2>3 CASE ~rPass /\ s \notin {"APP", "ZEROAPP"} /\ IsCH(s) /\ retry = 1
    <3> DEFINE rr == RetryResult(s)
    <3>1 /\ rPass' = TRUE /\ seq' = (IF rr[3] THEN seq + 1 ELSE seq) /\ UNCHANGED <<accepted, wPass, retry>>
         /\ (st' = st \/ st' = "err")
      BY <1>1, <2>3 DEF Read, Log
    <3>2 accepted /\ seq \in {1} 
      BY <2>3 DEF Core
    <3> HIDE DEF rr
    <3> QED BY <3>1, <3>2 DEF Core
  <2>4 CASE ~rPass /\ s \notin {"APP", "ZEROAPP"} /\ ~(IsCH(s) /\ retry = 1)
    BY <1>1, <2>4 DEF Read, Core, Log
  <2> QED BY <2>1, <2>2, <2>3, <2>4
<1>2 ASSUME NEW s \in BSyms, Write(s) PROVE Core'
  <2>1 CASE wPass
    BY <1>2, <2>1 DEF Write, Core, Log
  <2>2 CASE ~wPass /\ s \in {"APP", "ZEROAPP"}
    BY <1>2, <2>2 DEF Write, Core, Log
  <2>3 CASE ~wPass /\ s \notin {"APP", "ZEROAPP"} /\ s = "HRR"
    BY <1>2, <2>3 DEF Write, Core, Log
  <2>4 CASE ~wPass /\ s \notin {"APP", "ZEROAPP"} /\ s # "HRR"
    BY <1>2, <2>4 DEF Write, Core, Log
  <2> QED BY <2>1, <2>2, <2>3, <2>4
<1>3 CASE UNCHANGED vars
  BY <1>3 DEF vars, Core
<1> QED BY <1>1, <1>2, <1>3 DEF Next

THEOREM CoreInvariant == Spec => []Core
  BY InitCore, StepCore, PTL DEF Spec

\* what the listed invariants of EchConn.tla say about states follows
THEOREM Spec => [](seq <= 2 /\ retry <= 1 /\ (~accepted => st = "ok"))
<1>1 Core => seq <= 2 /\ retry <= 1 /\ (~accepted => st = "ok")
  BY DEF Core
<1> QED BY <1>1, CoreInvariant, PTL
=============================================================================
