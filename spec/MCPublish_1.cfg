SPECIFICATION Spec
CONSTANTS
 RecSets <- RecSetsAll
 TargetLists <- TLAll
 Cfgs <- CfgAll
 Fails <- FailAll
 MaxCalls = 1
INVARIANTS OneResultPerTarget OnlyEchChanged Frame NoWriteWhenCurrent ResultsTruthful FailureIsolation Idempotent Emit
CHECK_DEADLOCK FALSE
