INIT TraceInit
NEXT TraceNext
CONSTANTS
 KeySets <- KS1
 MaxLen = 1000
 FirstKinds <- FirstAll
 CSyms <- ClientAll
 BSyms <- BackendAll
CONSTRAINT HighWater
INVARIANTS AtMostOneRetry NotAcceptedNeverAborts InnerOnlyWhenArmed
POSTCONDITION TraceAccepted
CHECK_DEADLOCK FALSE
