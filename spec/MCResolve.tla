---------------------------- MODULE MCResolve ----------------------------
EXTENDS Resolve, Json
I(id, port, scheme, valid, literal) == [id |-> id, port |-> port, scheme |-> scheme, valid |-> valid, literal |-> literal]
InputsAll == {
  I("host", 443, "https", TRUE, ""), I("host443", 443, "https", TRUE, ""), I("host80", 80, "https", TRUE, ""),
  I("host8443", 8443, "https", TRUE, ""), I("https", 443, "https", TRUE, ""), I("upper", 443, "https", TRUE, ""),
  I("httpport", 8080, "https", TRUE, ""), I("foo123", 123, "foo", TRUE, ""), I("foo", 443, "foo", TRUE, ""),
  I("httpspath", 443, "https", TRUE, ""), I("scheme62", 123, "s62", TRUE, ""), I("scheme63", 123, "s63", FALSE, ""),
  I("scheme300", 123, "s300", FALSE, ""), I("name253", 443, "https", TRUE, ""), I("name256", 443, "https", FALSE, ""),
  I("label64", 443, "https", FALSE, ""), I("svcbTooLong", 8443, "https", FALSE, ""),
  I("hostdot", 443, "https", TRUE, ""), I("hostdotport", 8443, "https", TRUE, ""), I("httpsdot", 443, "https", TRUE, ""), I("foodotport", 123, "foo", TRUE, ""),
  I("ip4", 443, "https", TRUE, "lit4"), I("ip4port", 8443, "https", TRUE, "lit4"), I("ip6", 443, "https", TRUE, "lit6"),
  \* a port written with leading zeros is the same number
  I("host08443", 8443, "https", TRUE, ""), I("https008443", 8443, "https", TRUE, ""), I("host0443", 443, "https", TRUE, ""),
  I("localhost", 443, "https", TRUE, "loopback") }
InputsCore == { i \in InputsAll : i.id \in {"host", "host8443", "foo123", "host80", "hostdotport", "httpsdot", "host08443", "https008443", "host0443"} }
HAll == {"absent", "nx", "servfail", "refused", "notauth", "ext16", "ext256", "ext259", "aliasdot", "svcdot", "svct", "svcself", "unsorted", "poisoned", "cnamed", "loop", "chain1", "chain2",
         "chain3", "chain4", "chain6"}
HSome == {"absent", "svct", "svcself", "chain2"}
AAll == {"none", "addr", "two", "cname", "foreign", "foreigncname", "cnamebroken", "nx", "servfail", "notauth", "ext256", "ext3840"}
ASome == {"addr", "foreign"}
A6All == {"none", "addr", "foreigncname", "servfail"}
A6Some == {"addr"}
TAll == {"none", "addr", "foreign", "nx", "a4fail"}
TSome == {"addr"}

Names == {Svcb, N(Origin), N("t"), N("evil"), N("c"), N("unrelated")} \cup AliasNames
ZoneTable == LET qs == {Q(n, t) : n \in Names, t \in {"HTTPS", "A", "AAAA"}}
                 ne == {q \in qs : Zone(q).rcode # 0 \/ Zone(q).ans # <<>>}
             IN { [q |-> q, r |-> Zone(q)] : q \in ne }
Emit == Done => PrintT(<<"CASE", ToJson([inp |-> inp, hs |-> hs, as |-> as, a6s |-> a6s, ts |-> ts, svcb |-> Svcb, zone |-> ZoneTable,
                                          queries |-> queries, result |-> result,
                                          \* if the A and the AAAA lookup of the final name both fail, either error may be reported
                                          errsok |-> IF result.kind = "err" /\ pc = "done" /\ inp.valid /\ inp.literal = ""
                                                     THEN {ErrOf(Ask(want, t).rcode) : t \in {x \in {"A", "AAAA"} : Ask(want, x).rcode # 0}} ELSE {}])>>)
=============================================================================
