---------------------------- MODULE MCTargets ----------------------------
EXTENDS Targets, Json
R(p, t, po, hint, e, al, nd) == [prio |-> p, target |-> t, port |-> po, v4hint |-> IF hint THEN <<"v4h">> ELSE <<>>,
                                 v6hint |-> IF hint THEN <<"v6h">> ELSE <<>>, ech |-> e, alpn |-> al, nodefault |-> nd]
Full1 == { R(p, t, po, hint, e, al, nd) : p \in {0, 1}, t \in {"", "t"}, po \in {0, 80, 8443}, hint \in BOOLEAN, e \in {"nil", "E1"},
                                           al \in {<<>>, <<"h3", "h2">>}, nd \in BOOLEAN }
Small == { R(p, t, po, hint, e, <<"h2">>, FALSE) : p \in {0, 1, 2}, t \in {"", "t"}, po \in {0, 80, 8443}, hint \in BOOLEAN, e \in {"nil", "E2"} }
Recs0 == { <<>> }
Recs1 == { <<r>> : r \in Full1 }
Recs2 == { <<a, b>> : a \in Small, b \in Small }
SmallQ == { R(p, "", po, hint, e, <<"h2">>, FALSE) : p \in {1, 2}, po \in {0, 8443}, hint \in BOOLEAN, e \in {"nil", "E2"} }
WithAlpn(r, al) == [r EXCEPT !.alpn = al]
\* the two records carry different ALPN lists (the later one shorter), both with the default protocol
Recs2q == { <<WithAlpn(a, <<"h3", "h2">>), b>> : a \in SmallQ, b \in SmallQ }
          \* two lists that only differ in where one protocol id ends: an id may contain any byte, a comma included
          \cup { <<WithAlpn(a, <<"h3,h2">>), WithAlpn(b, <<"h3", "h2">>)>> : a \in SmallQ, b \in SmallQ }
Net2 == {"tcp", "tcp4"}
RecsQ == Recs0 \cup Recs1
RecsT == Recs0 \cup Recs1 \cup Recs2
PortsAll == {80, 443, 8443}
AddrAll == { <<>>, <<"v4a">>, <<"v6a">>, <<"v4a", "v6a">>, <<"v4a", "v4a">>, <<"v6a", "v4b">> }
AddlAll == { <<>>, <<"v4t">>, <<"v4a", "v6t">> }
NetAll == {"tcp", "tcp4", "tcp6", "udp", "udp4", "udp6"}
Net3 == {"tcp", "tcp4", "udp6"}
Emit == Done => PrintT(<<"CASE", ToJson([port |-> port, addrs |-> addrs, https |-> https, addl |-> addl, net |-> net, out |-> out])>>)
=============================================================================
