---------------------------- MODULE MCEchHello ----------------------------
(* Model-checking / emission wrapper for EchHello: named constant sets (cfg files cannot hold tuples) and the
   case emitter used for direction A (one JSON line per terminal state). *)
EXTENDS EchHello, Json

AllOuters == {"O1", "O2", "O3", "O4"}
Outers5 == AllOuters \cup {"O5"}    \* with the duplicated-type layout (reconstruction only: a repeated reference is legal there)
AllInners == {"I1", "I2", "I3", "I4", "I5", "I6", "I7"}
O12 == {"O1", "O2"}
I12 == {"I1", "I3"}
KL_one   == { <<"K1">> }
KL_c08   == { <<"K1">>, <<"K7", "K1">> }
C08Clients == {"K1", "K7"}
KL_c04   == { <<"K1">>, <<"K4", "K1">>, <<>>, <<"KX", "K4", "K1">>, <<"KP", "K1">>, <<"K4", "KP">> }
KL_c02   == { <<"K1">>, <<"K2", "K1">>, <<"K1b">>, <<"K4">>, <<"KX", "K1", "K4">>, <<"K4", "K1">>, <<"KP", "K1">> }
\* every list of 1..N distinct keys from the pool
Pool == {"K1", "K2", "K3", "K4", "K5", "K6", "KX"}
KL_kp == { <<"KP", "K1">>, <<"K3", "KP", "K1">>, <<"K5", "K1", "KP">>, <<"K8">>, <<"K2", "K8">>, <<"K8", "K1">>, <<"K5", "K8", "K3">> }
RECURSIVE Perms(_, _)
Perms(S, k) == IF k = 0 THEN { <<>> } ELSE UNION { { <<x>> \o t : t \in Perms(S \ {x}, k - 1) } : x \in S }
\* quick: every list of up to 3 keys, plus every order of the two 4-key sets whose members all share the config id and a suite
KL_c09_3 == KL_kp \cup UNION { Perms(Pool, k) : k \in 1..3 } \cup Perms({"K1", "K2", "K6", "K3"}, 4) \cup Perms({"K1", "K2", "K6", "K5"}, 4)
            \* one key pair held under an old and a new config with the same id
            \cup Perms({"K1b", "K1"}, 2) \cup Perms({"K1b", "K1", "K2"}, 3)
KL_c09_4 == KL_kp \cup UNION { Perms(Pool, k) : k \in 1..4 }

FaultOps == {"none", "svOdd", "sniNameType", "sniTwoNames", "innerSvOdd", "innerSniNameType", "innerTypeNo13", "dupEchBefore", "dupEchInnerBefore", "dupEchAfter", "eoeInOuter", "innerTypeInOuter", "badEchType", "emptyEnc", "sniNotPublic", "sniKelvin", "noOuterSni", "noInnerEch", "outerTypeInInner",
             "innerNo13", "innerNoSv", "nonZeroPad", "eoeOdd", "eoeBadLen", "eoeNoData", "eoeEmptyList", "eoeOutOfOrder", "eoeRepeated", "eoeAmplify", "eoeMissing", "eoeRefsEch",
             "eoeRefsEoe", "eoeTwice", "eoeRefsSni"}
TamperOps == {"none", "dupEchBefore", "dupEchInnerBefore", "dupEchAfter"} \cup Tampers
PassOpsC == {"none", "noEch", "grease", "no13", "noSv", "innerTypeInOuter"}
NoneOp == {"none"}
NoneUnlisted == {"none", "unlistedSuite"}
StructOps == {"structOuter", "structInner"}
OneKey == {"K1"}
C09Clients == {"K1", "K3", "K5", "K8"}
Pad2 == {"none", "zeros"}
Pad1 == {"zeros"}
Sid2 == {"", "s1", "s8"}      \* empty, 32 bytes, 8 bytes (a pre-TLS 1.3 session id)
Sid1 == {"s1"}

Emit == Done => PrintT(<<"CASE", ToJson([onm |-> onm, inm |-> inm, run |-> run, pad |-> pad, sid |-> sid, ck |-> ck, suite |-> suite, op |-> op,
                                          keys |-> keynames, hello |-> hello, res |-> res, holds |-> Holds,
                                          classes |-> IF res.kind = "abort" /\ op \in Malformed THEN {"decode_error", "illegal_parameter"} ELSE {}])>>)
=============================================================================
