------------------------------ MODULE Transport ------------------------------
(* C19 - Transport keeps HTTP requests encrypted, correctly named and origin-isolated (transport.go RoundTrip).
   Function part: URL + resolution result + "is an HTTP/3 round tripper configured" -> (scheme', pool key, Host header,
   TLS server name, protocol choice, records handed to the dialer).  The h3 decision and the record filter are the
   code's loops; the rules are stated declaratively.  State part: a connection pool over a sequence of requests.    *)
EXTENDS Integers, Sequences, FiniteSets, TLC

CONSTANTS Urls,         \* [scheme, host, port, hh]  port = 0: none given; hh: Host header set by the caller ("" = none)
          RecLists,     \* resolution results: Seq of [prio, alpn, nodef] sorted by priority
          MaxReqs

DefaultPort(s) == IF s = "http" THEN 80 ELSE 443
Has(alpn, p) == \E i \in DOMAIN alpn : alpn[i] = p

\* ---- the function, as coded (transport.go:82-142)
SchemeOut(u, recs) == IF recs # <<>> /\ u.scheme = "http" THEN "https" ELSE u.scheme
PortOut(u, recs) == IF u.port # 0 THEN u.port ELSE DefaultPort(SchemeOut(u, recs))
PoolKey(u, recs) == <<PortOut(u, recs), SchemeOut(u, recs), u.host>>
HostHeader(u) == IF u.hh # "" THEN <<u.hh, 0>> ELSE <<u.host, u.port>>   \* the caller's Host header, else the original authority
Sni(u) == u.host
\* the port a record WITHOUT a port= parameter is dialled at: the URL's, where the http default (written out or not) has become
\* the https default with the upgrade (RFC 9460 section 9.5). 0: not specified here (an https URL naming port 80).
DialPort(u) == IF u.port = 0 THEN 443 ELSE IF u.port = 80 THEN (IF u.scheme = "http" THEN 443 ELSE 0) ELSE u.port

RECURSIVE H3Loop(_, _)
H3Loop(recs, i) ==
  IF i > Len(recs) THEN FALSE
  ELSE LET r == recs[i] IN
       IF r.prio = 0 THEN H3Loop(recs, i + 1)
       ELSE IF Has(r.alpn, "h3") THEN TRUE
       ELSE IF ~r.nodef \/ Has(r.alpn, "h2") \/ Has(r.alpn, "http/1.1") THEN FALSE
       ELSE H3Loop(recs, i + 1)
UseH3(recs, h3) == h3 /\ H3Loop(recs, 1)

KeepFor(r, useH3) ==
  /\ r.prio # 0
  /\ IF useH3 THEN Has(r.alpn, "h3")
     ELSE \/ r.alpn = <<>>
          \/ ~r.nodef                                   \* default http/1.1
          \/ Has(r.alpn, "h2") \/ Has(r.alpn, "http/1.1")
Kept(recs, useH3) == {i \in DOMAIN recs : KeepFor(recs[i], useH3)}

Out(u, recs, h3) == [scheme |-> SchemeOut(u, recs), key |-> PoolKey(u, recs), host |-> HostHeader(u), sni |-> Sni(u),
                     useH3 |-> UseH3(recs, h3), kept |-> Kept(recs, UseH3(recs, h3)), dport |-> DialPort(u),
                     plaintext |-> SchemeOut(u, recs) = "http"]

\* ---- the rules
Usable(r) == r.prio # 0 /\ (Has(r.alpn, "h3") \/ ~r.nodef \/ Has(r.alpn, "h2") \/ Has(r.alpn, "http/1.1"))
FirstUsable(recs) == IF \E i \in DOMAIN recs : Usable(recs[i]) THEN CHOOSE i \in DOMAIN recs : Usable(recs[i]) /\ \A j \in 1..(i-1) : ~Usable(recs[j]) ELSE 0
Origin(u, recs) == <<SchemeOut(u, recs), u.host, PortOut(u, recs)>>

VARIABLES recsOf,        \* host -> its HTTPS records (fixed in Init)
          h3,            \* an HTTP/3 round tripper is configured
          reqs,          \* the requests made so far: Seq of urls
          pool,          \* pool key -> [conn, origin]
          served, nconn  \* served[k] = connection that served request k (0 = HTTP/3 or refused)

vars == <<recsOf, h3, reqs, pool, served, nconn>>
Hosts == {u.host : u \in Urls}

Init == /\ recsOf \in [Hosts -> RecLists] /\ h3 \in BOOLEAN /\ reqs = <<>> /\ pool = [k \in {} |-> 0] /\ served = <<>> /\ nconn = 0

Request(u) ==
  /\ Len(reqs) < MaxReqs
  /\ LET o == Out(u, recsOf[u.host], h3) IN
     /\ reqs' = Append(reqs, u)
     /\ IF o.plaintext \/ o.useH3 THEN served' = Append(served, 0) /\ UNCHANGED <<pool, nconn>>
        ELSE IF o.key \in DOMAIN pool THEN served' = Append(served, pool[o.key].conn) /\ UNCHANGED <<pool, nconn>>
        ELSE /\ nconn' = nconn + 1
             /\ pool' = [k \in DOMAIN pool \cup {o.key} |-> IF k = o.key THEN [conn |-> nconn + 1, origin |-> Origin(u, recsOf[u.host])] ELSE pool[k]]
             /\ served' = Append(served, nconn + 1)
  /\ UNCHANGED <<recsOf, h3>>
Next == \E u \in Urls : Request(u)
Spec == Init /\ [][Next]_vars

O(k) == Out(reqs[k], recsOf[reqs[k].host], h3)
Upgrade == \A k \in DOMAIN reqs : reqs[k].scheme = "http" /\ recsOf[reqs[k].host] # <<>> => O(k).scheme = "https"
NoPlaintext == \A k \in DOMAIN reqs : O(k).plaintext => served[k] = 0             \* refused: no connection at all
SNIIsUrlHost == \A k \in DOMAIN reqs : O(k).sni = reqs[k].host
HostPreserved == \A k \in DOMAIN reqs : O(k).host = (IF reqs[k].hh # "" THEN <<reqs[k].hh, 0>> ELSE <<reqs[k].host, reqs[k].port>>)
H3Rule == \A k \in DOMAIN reqs : LET rs == recsOf[reqs[k].host]  f == FirstUsable(rs) IN
             O(k).useH3 <=> (h3 /\ f # 0 /\ Has(rs[f].alpn, "h3"))
FilterCompatible == \A k \in DOMAIN reqs : \A i \in O(k).kept :
                       LET r == recsOf[reqs[k].host][i] IN
                       r.prio # 0 /\ (IF O(k).useH3 THEN Has(r.alpn, "h3") ELSE (r.alpn = <<>> \/ ~r.nodef \/ Has(r.alpn, "h2") \/ Has(r.alpn, "http/1.1")))
PoolKeyInjective == \A a, b \in DOMAIN reqs : (O(a).key = O(b).key) <=> (Origin(reqs[a], recsOf[reqs[a].host]) = Origin(reqs[b], recsOf[reqs[b].host]))
OriginIsolation == \A a, b \in DOMAIN reqs : (served[a] # 0 /\ served[a] = served[b]) => Origin(reqs[a], recsOf[reqs[a].host]) = Origin(reqs[b], recsOf[reqs[b].host])
=============================================================================
