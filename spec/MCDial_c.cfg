SPECIFICATION Spec
CONSTANTS MaxN = 3
MaxK = 3
Delay = 2
Timeout = 4
Durs = {0, 2}
CancelTimes = {2}
INVARIANTS BoundedConcurrency OrderOK StaggerOK LateCancelled AtMostOneReturned QuiescentClean ErrorMeansNoSuccess ConnMeansReturned PromptCancel
PROPERTY Termination
CHECK_DEADLOCK FALSE
