------------------------------ MODULE EchPipe ------------------------------
(* The Conn as a byte pipe (ech.go Read / Write, tls.go readRecord), in stream POSITIONS:
   which bytes are consumed from the client transport, buffered, delivered to the backend,
   accepted from the backend, withheld, forwarded to the client - for every fragmentation of
   the transport reads, every caller buffer size, every split of the backend's writes, a
   transport cut (EOF or error) at any byte offset and one transient transport error (a read
   deadline that expires - the caller extends it and reads again) at any byte offset.  Contents are checked by the harness
   against the positions this specification prescribes.

   C07  order-preserving, lossless, at most one incomplete record withheld, everything
        before a cut delivered before the error
   C08  (part) buffers bounded by one record; every call returns data or an error           *)
EXTENDS Integers, Sequences, FiniteSets, TLC

CONSTANTS MaxRec          \* largest legal record body (2^14+256 in the code)

\* scenario: client records after the first hello, backend records, where the client transport ends
VARIABLES crecs,          \* Seq of [t : {"HS","CH","APP","OTHER","BIG"}, len : Nat, out : Nat]  (out: length of the replacement of a retried hello)
          brecs,          \* Seq of [t : {"SH","HRR","APP","HS","BAD","BIG"}, len : Nat]
          cutAt, cutKind, \* the client transport ends after cutAt bytes with "eof" or "err"
          firstIn, firstOut, accepted,   \* first hello: bytes consumed by NewConn, bytes it turned into, ECH accepted?
          tmoAt,                         \* -1, or the stream position at which the transport reports one timeout (no bytes) before going on
          bigHdr                         \* implementation choice: is the header of an over-long record handed on before the decode error?
\* read side
VARIABLES tpos,           \* bytes consumed from the client transport
          ri,             \* next client record to be read while inspecting
          lo, hi,         \* pending output interval (readBuf) in output-stream positions
          rErr,           \* deferred read error: "none", "eof", "err", "decode"
          outTotal,       \* output bytes produced so far (delivered + pending)
          outpos,         \* output bytes delivered to the backend
          rPass, repl,    \* repl: the retried hello has been replaced by its inner hello
          tmoDone,        \* the timeout has been reported by the transport
          lastRead        \* [n, err] of the latest Read call
\* write side
VARIABLES wtaken,         \* backend bytes accepted by Write calls
          wfwd,           \* backend bytes forwarded to the client transport
          bi,             \* next backend record not yet forwarded while inspecting
          wPass, armed, wErr, lastWrite

scen  == <<crecs, brecs, cutAt, cutKind, firstIn, firstOut, accepted, tmoAt, bigHdr>>
rvars == <<tpos, ri, lo, hi, rErr, outTotal, outpos, rPass, repl, tmoDone, lastRead>>
wvars == <<wtaken, wfwd, bi, wPass, armed, wErr, lastWrite>>
vars  == <<scen, rvars, wvars>>

RECURSIVE SumIn(_, _)
SumIn(rs, k) == IF k = 0 THEN 0 ELSE SumIn(rs, k - 1) + 5 + (IF rs[k].t = "BIG" THEN 0 ELSE rs[k].len)
HasBig(rs) == \E i \in DOMAIN rs : rs[i].t = "BIG"
ClientTotal == firstIn + SumIn(crecs, Len(crecs))
BackendTotal == SumIn(brecs, Len(brecs))
Min(a, b) == IF a < b THEN a ELSE b

InitState ==
  /\ tpos = firstIn /\ ri = 1 /\ lo = 0 /\ hi = firstOut /\ rErr = "none" /\ outTotal = firstOut /\ outpos = 0
  /\ rPass = ~accepted /\ repl = FALSE /\ tmoDone = FALSE /\ lastRead = [n |-> -1, err |-> "none"]
  /\ wtaken = 0 /\ wfwd = 0 /\ bi = 1 /\ wPass = ~accepted /\ armed = FALSE /\ wErr = FALSE
  /\ lastWrite = [n |-> -1, err |-> "none"]

\* ------------------------------------------------------------------ read side
\* fill readBuf from the transport, record at a time (tls.go readRecord + ech.go:305-331)
\* returns the new <<tpos, ri, hi, rErr, outTotal, rPass>> after reading one record (or what the cut leaves of it)
\* the timeout is still to come and falls on a transport read that starts inside [tpos, end)
TmoIn(end) == ~tmoDone /\ tmoAt >= tpos /\ tmoAt < end
Fill ==
  IF ri > Len(crecs) \/ cutAt < tpos + 5      \* no further complete header: the cut truncates it
  THEN IF TmoIn(cutAt) THEN [tpos |-> tmoAt, ri |-> ri, add |-> tmoAt - tpos, err |-> "tmo", pass |-> rPass, repl |-> FALSE]
       ELSE [tpos |-> cutAt, ri |-> ri, add |-> cutAt - tpos, err |-> cutKind, pass |-> rPass, repl |-> FALSE]
  ELSE LET r == crecs[ri] IN
    IF TmoIn(tpos + 5) THEN [tpos |-> tmoAt, ri |-> ri, add |-> tmoAt - tpos, err |-> "tmo", pass |-> rPass, repl |-> FALSE]
    ELSE IF r.t = "BIG" THEN [tpos |-> tpos + 5, ri |-> ri, add |-> IF bigHdr THEN 5 ELSE 0, err |-> "decode", pass |-> rPass, repl |-> FALSE]
    ELSE IF TmoIn(Min(cutAt, tpos + 5 + r.len)) THEN [tpos |-> tmoAt, ri |-> ri, add |-> tmoAt - tpos, err |-> "tmo", pass |-> rPass, repl |-> FALSE]
    ELSE IF cutAt < tpos + 5 + r.len THEN [tpos |-> cutAt, ri |-> ri, add |-> cutAt - tpos, err |-> cutKind, pass |-> rPass, repl |-> FALSE]
    ELSE IF r.t = "APP" THEN [tpos |-> tpos + 5 + r.len, ri |-> ri + 1, add |-> 5 + r.len, err |-> "none", pass |-> TRUE, repl |-> FALSE]
    ELSE IF r.t = "CH" /\ armed THEN [tpos |-> tpos + 5 + r.len, ri |-> ri + 1, add |-> r.out, err |-> "none", pass |-> TRUE, repl |-> TRUE]
    ELSE [tpos |-> tpos + 5 + r.len, ri |-> ri + 1, add |-> 5 + r.len, err |-> "none", pass |-> rPass, repl |-> FALSE]

\* Conn.Read(buffer of cap bytes). k: bytes the transport returns when the call goes straight to it.
Read(cap, k) ==
  /\ cap >= 1
  /\ IF ~rPass /\ lo = hi /\ rErr = "none"
     THEN \* inspect one record, then deliver from it
       LET f == Fill  nhi == hi + f.add  n == Min(cap, nhi - lo) IN
       \/ /\ tpos' = f.tpos /\ ri' = f.ri /\ hi' = nhi /\ rErr' = f.err /\ outTotal' = outTotal + f.add /\ rPass' = f.pass /\ repl' = (repl \/ f.repl)
          /\ tmoDone' = (tmoDone \/ f.err = "tmo")
          /\ lo' = lo + n /\ outpos' = outpos + n
          \* (the pending error comes with the last buffered bytes - as the code does - or from the next call)
          /\ \E e \in (IF lo + n = nhi THEN (IF n > 0 THEN {f.err, "none"} ELSE {f.err}) ELSE {"none"}) : lastRead' = [n |-> n, err |-> e]
          /\ k = 0
       \* A timeout inside a record: the code hands on what it has of the record and keeps the error for good (above). Also
       \* admitted - nothing in the property forbids it - is a Conn that keeps the partial record to itself, reports the
       \* timeout once and goes on with the record at the next call.
       \/ /\ f.err = "tmo" /\ tmoDone' = TRUE /\ lastRead' = [n |-> 0, err |-> "tmo"] /\ k = 0
          /\ UNCHANGED <<tpos, ri, lo, hi, rErr, outTotal, outpos, rPass, repl>>
     ELSE IF lo < hi
     THEN LET n == Min(cap, hi - lo) IN
       /\ lo' = lo + n /\ outpos' = outpos + n
       /\ \E e \in (IF lo + n = hi THEN (IF n > 0 THEN {rErr, "none"} ELSE {rErr}) ELSE {"none"}) : lastRead' = [n |-> n, err |-> e]
       /\ UNCHANGED <<tpos, ri, hi, rErr, outTotal, rPass, repl, tmoDone>> /\ k = 0
     ELSE IF rErr # "none"
     THEN /\ lastRead' = [n |-> 0, err |-> rErr] /\ UNCHANGED <<tpos, ri, lo, hi, rErr, outTotal, outpos, rPass, repl, tmoDone>> /\ k = 0
     ELSE \* passthrough: the call is the transport's
       IF ~tmoDone /\ tpos = tmoAt     \* the transport's timeout is the call's; the next call goes on where the stream stands
       THEN /\ lastRead' = [n |-> 0, err |-> "tmo"] /\ tmoDone' = TRUE /\ k = 0 /\ UNCHANGED <<tpos, ri, lo, hi, rErr, outTotal, outpos, rPass, repl>>
       ELSE IF tpos = cutAt
       THEN /\ lastRead' = [n |-> 0, err |-> cutKind] /\ k = 0 /\ UNCHANGED <<tpos, ri, lo, hi, rErr, outTotal, outpos, rPass, repl, tmoDone>>
       ELSE /\ k \in 1..Min(cap, (IF ~tmoDone /\ tmoAt > tpos THEN tmoAt ELSE cutAt) - tpos)
            /\ tpos' = tpos + k /\ outTotal' = outTotal + k /\ outpos' = outpos + k /\ lo' = lo + k /\ hi' = hi + k
            \* (an io.Reader may hand over its last bytes together with the error; the call is the transport's)
            /\ \E e \in (IF tpos + k = cutAt THEN {"none", cutKind} ELSE {"none"}) : lastRead' = [n |-> k, err |-> e]
            /\ UNCHANGED <<ri, rErr, rPass, repl, tmoDone>>
  /\ UNCHANGED <<scen, wvars>>

\* ------------------------------------------------------------------ write side
RecEnd(j) == SumIn(brecs, j)             \* stream position where backend record j ends
\* forward every complete record of the buffer (ech.go:352-372); returns <<wfwd, bi, wPass, armed, err>>
RECURSIVE Flush(_, _, _, _, _)
Flush(taken, fwd, j, pass, arm) ==
  IF j > Len(brecs) \/ taken - fwd < 5 THEN <<fwd, j, pass, arm, "none">>
  ELSE LET r == brecs[j] IN
    IF r.t = "BIG" THEN <<fwd, j, pass, arm, "decode">>
    ELSE IF RecEnd(j) > taken THEN <<fwd, j, pass, arm, "none">>
    ELSE IF ~pass /\ r.t = "BAD" THEN <<fwd, j, pass, arm, "decode">>
    ELSE Flush(taken, RecEnd(j), j + 1,
               pass \/ r.t \in {"APP", "HRR"},
               arm \/ (~pass /\ r.t = "HRR"))

Write(k) ==
  /\ k >= 1 /\ wtaken + k <= BackendTotal /\ ~wErr
  /\ IF wPass /\ wtaken = wfwd
     THEN /\ wtaken' = wtaken + k /\ wfwd' = wfwd + k
          /\ lastWrite' = [n |-> k, err |-> "none"]
          /\ bi' = bi /\ UNCHANGED <<wPass, armed, wErr>>
     ELSE LET f == Flush(wtaken + k, wfwd, bi, wPass, armed) IN
          /\ wtaken' = wtaken + k /\ wfwd' = f[1] /\ bi' = f[2] /\ wPass' = f[3] /\ armed' = f[4]
          /\ wErr' = (f[5] # "none")
          /\ lastWrite' = [n |-> IF f[5] = "none" THEN k ELSE 0, err |-> f[5]]
  /\ UNCHANGED <<scen, rvars>>

\* once both directions are plain pass-through the write side no longer tracks records
\* (bi is meaningful only while wtaken # wfwd or ~wPass)

\* ------------------------------------------------------------------ properties
Conserved       == outpos + (hi - lo) = outTotal /\ lo <= hi /\ bigHdr \in BOOLEAN                 \* nothing lost, nothing duplicated
WriteIsPrefix   == wfwd <= wtaken
\* strictly less than one record is withheld from the client
OneRecordWithheld ==
  ~wErr => \/ wtaken = wfwd
           \/ (bi <= Len(brecs) /\ brecs[bi].t # "BIG" /\ wfwd = RecEnd(bi - 1) /\ wtaken < RecEnd(bi))
           \/ (bi <= Len(brecs) /\ wtaken - wfwd < 5)
\* everything received before a cut / an error is delivered before the error is reported
CutDeliversAll  == lastRead.err # "none" => outpos = outTotal /\ (lastRead.err \in {"eof", "err"} => tpos = cutAt)
NeverZeroNil    == lastRead.n = 0 => lastRead.err # "none"
BufBound        == hi - lo <= 5 + MaxRec /\ (~wErr => wtaken - wfwd < 5 + MaxRec)
ErrorIsTheCut   == lastRead.err \in {"eof", "err"} => lastRead.err = cutKind
TypeOK == /\ tpos <= cutAt /\ outpos >= 0 /\ wfwd >= 0
          /\ rErr \in {"none", "eof", "err", "decode", "tmo"} /\ (tmoAt = -1 \/ (tmoAt >= firstIn /\ tmoAt < cutAt))
\* a transient transport error loses nothing: afterwards the stream is delivered from where it stood, or (a timeout that
\* fell inside a record under inspection) the error stays - never bytes that are not the stream's
TmoKeepsOrder == (lastRead.err = "tmo") => (lastRead.n = 0 \/ rErr = "tmo")
Delivered == outpos = outTotal /\ tpos = cutAt
=============================================================================
