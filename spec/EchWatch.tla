------------------------------ MODULE EchWatch ------------------------------
(* NewConn's context watcher (ech.go NewConn): the main goroutine reading the first record, the watcher goroutine
   selecting on done / ctx.Done, the caller who may cancel (or whose deadline may expire) at ANY moment - including
   right after NewConn returned - and the client whose hello arrives early, late or never.

   C10  the context governs only the initial read: prompt failure while blocked; no effect at all once
        NewConn has returned successfully
   C08  (stall clause) NewConn returns no later than the context's deadline when the client stalls

   Time is discrete; Tick follows testing/synctest's rule (time advances only when nothing else can run).     *)
EXTENDS Integers, TLC

CONSTANTS Times,          \* candidate instants for the scenario parameters (-1 = never / none)
          MaxTime

\* scenario, fixed in Init
VARIABLES Deadline,       \* context deadline (virtual time), or -1 for a context without deadline
          HelloAt,        \* time at which the complete hello is available, or -1 for never (stall)
          CancelAt        \* time at which the caller cancels, or -1 for never
scen == <<Deadline, HelloAt, CancelAt>>

VARIABLES now, ctxDone, cancelled,
          hello,          \* the complete first record is available to read
          mpc,            \* main: "reading" -> "processed" -> "closed" -> "joined" -> "returned"
          wpc,            \* watcher: "select" -> "exited"
          done,           \* the done channel is closed
          expired,        \* the watcher set the deadline
          connDl,         \* the transport's deadline: "none" or "past"
          readFailed,     \* the blocked read was failed by the deadline
          returned,       \* "no", "ok", "err"
          retAt, lateSet, ctxEndAt

vars == <<scen, now, ctxDone, cancelled, hello, mpc, wpc, done, expired, connDl, readFailed, returned, retAt, lateSet, ctxEndAt>>

Init ==
  /\ Deadline \in Times /\ HelloAt \in Times /\ CancelAt \in Times
  /\ ctxEndAt = -1
  /\ now = 0 /\ ctxDone = FALSE /\ cancelled = FALSE /\ hello = (HelloAt = 0)
  /\ mpc = "reading" /\ wpc = "select" /\ done = FALSE /\ expired = FALSE /\ connDl = "none"
  /\ readFailed = FALSE /\ returned = "no" /\ retAt = -1 /\ lateSet = FALSE

\* ---- environment
CtxExpire == /\ ~ctxDone /\ Deadline >= 0 /\ now >= Deadline /\ ctxDone' = TRUE /\ ctxEndAt' = now
             /\ UNCHANGED <<now, cancelled, hello, mpc, wpc, done, expired, connDl, readFailed, returned, retAt, lateSet>>
CallerCancel == /\ ~cancelled /\ CancelAt >= 0 /\ now >= CancelAt /\ cancelled' = TRUE /\ ctxDone' = TRUE /\ ctxEndAt' = (IF ctxDone THEN ctxEndAt ELSE now)
                /\ UNCHANGED <<now, hello, mpc, wpc, done, expired, connDl, readFailed, returned, retAt, lateSet>>
HelloArrives == /\ ~hello /\ HelloAt >= 0 /\ now >= HelloAt /\ hello' = TRUE
                /\ UNCHANGED <<ctxEndAt, now, ctxDone, cancelled, mpc, wpc, done, expired, connDl, readFailed, returned, retAt, lateSet>>

\* ---- main goroutine
\* the read completes with the hello; a past deadline fails it instead (either may win when both are possible)
MainRead == /\ mpc = "reading" /\ hello /\ mpc' = "processed"
            /\ UNCHANGED <<ctxEndAt, now, ctxDone, cancelled, hello, wpc, done, expired, connDl, readFailed, returned, retAt, lateSet>>
MainReadFails == /\ mpc = "reading" /\ connDl = "past" /\ mpc' = "processed" /\ readFailed' = TRUE
                 /\ UNCHANGED <<ctxEndAt, now, ctxDone, cancelled, hello, wpc, done, expired, connDl, returned, retAt, lateSet>>
\* deferred: close(done), then wait for the watcher to exit
MainCloseDone == /\ mpc = "processed" /\ done' = TRUE /\ mpc' = "closed"
                 /\ UNCHANGED <<ctxEndAt, now, ctxDone, cancelled, hello, wpc, expired, connDl, readFailed, returned, retAt, lateSet>>
MainJoin == /\ mpc = "closed" /\ wpc = "exited" /\ mpc' = "joined"
            /\ UNCHANGED <<ctxEndAt, now, ctxDone, cancelled, hello, wpc, done, expired, connDl, readFailed, returned, retAt, lateSet>>
\* a deadline set while the hello was being accepted is cleared before a successful return
MainClear == /\ mpc = "joined" /\ ~readFailed /\ connDl' = "none"          \* (clearing when nothing was set is harmless)
             /\ UNCHANGED <<ctxEndAt, now, ctxDone, cancelled, hello, mpc, wpc, done, expired, readFailed, returned, retAt, lateSet>>
MainReturn == /\ mpc = "joined" /\ (expired /\ ~readFailed => connDl = "none") /\ mpc' = "returned"
              /\ returned' = IF readFailed THEN "err" ELSE "ok"
              /\ retAt' = now
              /\ UNCHANGED <<ctxEndAt, now, ctxDone, cancelled, hello, wpc, done, expired, connDl, readFailed, lateSet>>
\* the caller may cancel the context at any time after NewConn returned (the idiomatic deferred cancel)
LateCancel == /\ returned # "no" /\ ~cancelled /\ cancelled' = TRUE /\ ctxDone' = TRUE /\ ctxEndAt' = (IF ctxDone THEN ctxEndAt ELSE now)
              /\ UNCHANGED <<now, hello, mpc, wpc, done, expired, connDl, readFailed, returned, retAt, lateSet>>

\* ---- watcher goroutine: Go's select picks any ready case
WatchDone == /\ wpc = "select" /\ done /\ wpc' = "exited"
             /\ UNCHANGED <<ctxEndAt, now, ctxDone, cancelled, hello, mpc, done, expired, connDl, readFailed, returned, retAt, lateSet>>
WatchFire == /\ wpc = "select" /\ ctxDone /\ wpc' = "exited" /\ expired' = TRUE /\ connDl' = "past"
             /\ lateSet' = (lateSet \/ returned = "ok")
             /\ UNCHANGED <<ctxEndAt, now, ctxDone, cancelled, hello, mpc, done, readFailed, returned, retAt>>

Immediate == CtxExpire \/ CallerCancel \/ HelloArrives \/ MainRead \/ MainReadFails \/ MainCloseDone \/ MainJoin \/ MainClear \/ MainReturn
             \/ WatchDone \/ WatchFire
Tick == /\ ~ENABLED Immediate /\ now < MaxTime /\ now' = now + 1
        /\ UNCHANGED <<ctxEndAt, ctxDone, cancelled, hello, mpc, wpc, done, expired, connDl, readFailed, returned, retAt, lateSet>>
Next == (Immediate \/ Tick \/ LateCancel) /\ UNCHANGED scen
Spec == Init /\ [][Next]_vars /\ WF_vars(Next)

\* ---- properties
NoLateDeadline   == ~lateSet                                   \* no SetDeadline on a connection already handed out
CleanAfterReturn == returned = "ok" => connDl = "none"         \* ... and none left behind by NewConn itself
\* blocked when the context ends => fails promptly: no time passes between the context ending and the return
PromptFailure    == (ctxDone /\ returned = "no") => now = ctxEndAt
StallBounded     == (returned # "no" /\ HelloAt < 0) => /\ returned = "err"
                                                         /\ retAt = ctxEndAt
ReturnsIfAnything == <>(returned # "no" \/ (HelloAt < 0 /\ Deadline < 0 /\ CancelAt < 0))
SuccessNeedsHello == returned = "ok" => hello
DefaultTimes == {-1, 0, 1, 2}
TypeOK == mpc \in {"reading", "processed", "closed", "joined", "returned"} /\ wpc \in {"select", "exited"}
=============================================================================
