SPECIFICATION Spec
CONSTANTS
 Ports <- PortsAll
 AddrLists <- AddrAll
 AddLists <- AddlAll
 RecSets <- RecsT
 Networks <- Net3
INVARIANTS NoDupAddrPort FamilyRespected OwnTargetOwnParams AliasIgnored HintsOnlyWithoutOrigin PlainOnlyIfNoHttpsTarget Http80Upgraded RecordOrder Emit
PROPERTIES InputUnchanged Termination
CHECK_DEADLOCK FALSE
