INIT TraceInit
NEXT TraceNext
CONSTANTS
 Keys = {"n1"}
 G = 16
 MaxNow = 100
 MaxGen = 1
 TtlSets <- TS_full
CONSTRAINT HighWater
INVARIANTS EntryFresh Fresh NoCachedFailure MutualExclusion
POSTCONDITION TraceAccepted
CHECK_DEADLOCK FALSE
