---------------------------- MODULE TraceDialPolicy ----------------------------
(* Trace validation for DialPolicy: every DialFunc invocation recorded from the real Dialer must be an
   Invoke1/Invoke2 step of the specification with exactly the recorded ServerName and ECH list. *)
EXTENDS DialPolicy, Json, IOUtils

Trace == ndJsonDeserialize(IOEnv.TRACE_FILE)
ASSUME TLCSet(1, 0)
VARIABLES l
tvars == <<vars, l>>
Ev == Trace[l]
Has == l <= Len(Trace)

LoadScen(sc) ==
  /\ n = sc.n /\ cech = sc.cech /\ csn = sc.csn /\ req = sc.req /\ pub = sc.pub
  /\ tech = sc.tech /\ script = sc.script

TraceInit ==
  /\ l = 2
  /\ LoadScen(Trace[1].scen)
  /\ att = [i \in 1..n |-> 0] /\ st = [i \in 1..n |-> "new"] /\ calls = {}

\* an invocation: the code's (sn, ech, addr) must be what the policy prescribes
ObsInvoke ==
  /\ Has /\ Ev.e = "invoke" /\ Ev.i \in T /\ Ev.addrok
  /\ \/ Invoke1(Ev.i) /\ Ev.sn = SnFor(Ev.i) /\ Ev.ech = EchFor(Ev.i)
     \/ Invoke2(Ev.i) /\ Ev.sn = SnFor(Ev.i) /\ Ev.ech = RetryOfI(Ev.i, script[Ev.i][1])
  /\ l' = l + 1

\* the scripted result the harness handed back for the latest invocation of target i
ObsResult ==
  /\ Has /\ Ev.e = "result" /\ Ev.i \in T
  /\ Outcome(Ev.i) /\ Ev.r = OutcomeOf(Ev.i)
  /\ l' = l + 1

\* the refusal is internal to Dial (no DialFunc call): silent
SilentRefuse == (\E i \in T : Refuse(i)) /\ UNCHANGED l

\* Dial returned: the caller's tls.Config must be untouched
ObsRet ==
  /\ Has /\ Ev.e = "ret" /\ Ev.cfgsame
  /\ (Ev.r = "conn" => Ev.i \in T /\ st[Ev.i] = "ok")
  /\ l' = l + 1 /\ UNCHANGED vars

\* quiescence: a retry that was due has been made, unless Dial had already returned a connection
ObsQuiesce ==
  /\ Has /\ Ev.e = "quiesce"
  /\ (\A i \in T : st[i] = "retrying" => Ev.r = "conn")
  /\ (Ev.k1 => (\A i \in T : st[i] \in {"new", "retrying"} => \E j \in T : st[j] = "ok"))
  /\ l' = l + 1 /\ UNCHANGED vars

ObsReset ==
  /\ Has /\ Ev.e = "reset" /\ Trace[l-1].e = "quiesce"
  /\ LET sc == Ev.scen IN
       /\ n' = sc.n /\ cech' = sc.cech /\ csn' = sc.csn /\ req' = sc.req /\ pub' = sc.pub
       /\ tech' = sc.tech /\ script' = sc.script
       /\ att' = [i \in 1..sc.n |-> 0] /\ st' = [i \in 1..sc.n |-> "new"] /\ calls' = {}
  /\ l' = l + 1

TraceNext == ObsInvoke \/ ObsResult \/ SilentRefuse \/ ObsRet \/ ObsQuiesce \/ ObsReset
TraceSpec == TraceInit /\ [][TraceNext]_tvars

HighWater == TLCSet(1, IF TLCGet(1) > l THEN TLCGet(1) ELSE l)
TraceAccepted ==
  IF TLCGet(1) = Len(Trace) + 1 THEN TRUE
  ELSE Print(<<"TRACE_REJECTED_AT", TLCGet(1), IF TLCGet(1) <= Len(Trace) THEN Trace[TLCGet(1)] ELSE "eof">>, FALSE)
=============================================================================
