INIT Init
NEXT Stutter
CONSTANTS MaxN = 2
INVARIANT EmitScen
CHECK_DEADLOCK FALSE
