INIT Init
NEXT Next
CONSTANTS Domain <- F_decodeonly
INVARIANTS RoundTrip RoundTripCompressed CompressionNeverLonger Emit
CHECK_DEADLOCK FALSE
