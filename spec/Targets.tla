------------------------------ MODULE Targets ------------------------------
(* C15 - connection targets are a pure, rule-conforming function of the resolution result
   (resolve.go ResolveResult.Targets, RFC 9460 sections 2.4.2, 3, 7.3, 9.5).

   The input is fixed in Init; Next is one iteration of the code's loops (one HTTPS record, then the plain-address
   epilogue); the rules are stated declaratively on the yielded sequence and hold in every intermediate state, so
   that a consumer stopping after any yield has seen a conforming prefix.                                          *)
EXTENDS Integers, Sequences, FiniteSets, TLC

CONSTANTS Ports, AddrLists, AddLists, RecSets, Networks

V4 == {"v4a", "v4b", "v4h", "v4t"}      \* abstract IPv4 addresses; everything else is IPv6
Fam(a) == IF a \in V4 THEN 4 ELSE 6
Allowed(net, a) == CASE net \in {"tcp4", "udp4"} -> Fam(a) = 4
                     [] net \in {"tcp6", "udp6"} -> Fam(a) = 6
                     [] OTHER -> TRUE

VARIABLES port, addrs, https, addl, net,      \* input: ResolveResult{Port, Address, HTTPS, Additional["t"]}, network
          i, phase, out, seen

input == <<port, addrs, https, addl, net>>
vars == <<input, i, phase, out, seen>>

Init ==
  /\ port \in Ports /\ addrs \in AddrLists /\ https \in RecSets /\ addl \in AddLists /\ net \in Networks
  /\ i = 1 /\ phase = "https" /\ out = <<>> /\ seen = {}

\* add(ip, port, ech, alpn) for a list of addresses: returns <<out', seen'>>
RECURSIVE AddAll(_, _, _, _, _, _)
AddAll(as, p, ech, alpn, o, s) ==
  IF as = <<>> THEN <<o, s>>
  ELSE LET a == Head(as)  key == <<a, p>> IN
       IF ~Allowed(net, a) \/ key \in s THEN AddAll(Tail(as), p, ech, alpn, o, s)
       ELSE AddAll(Tail(as), p, ech, alpn, Append(o, [addr |-> a, port |-> p, ech |-> ech, alpn |-> alpn]), s \cup {key})

RecPort(h) == IF h.port > 0 THEN h.port ELSE IF port = 80 THEN 443 ELSE port          \* RFC 9460 9.5 upgrade
RecAlpn(h) == IF h.nodefault THEN h.alpn ELSE h.alpn \o <<"http/1.1">>

StepRecord ==
  /\ phase = "https" /\ i <= Len(https)
  /\ LET h == https[i] IN
     IF h.prio = 0 THEN UNCHANGED <<out, seen>>                                     \* alias mode: ignored
     ELSE LET p == RecPort(h)  al == RecAlpn(h)
              src == IF h.target # "" THEN addl                                      \* its own target name's addresses
                     ELSE IF addrs # <<>> THEN addrs                                 \* the origin's addresses
                     ELSE h.v4hint \o h.v6hint                                       \* hints only when the origin has none
              r == AddAll(src, p, h.ech, al, out, seen)
          IN out' = r[1] /\ seen' = r[2]
  /\ i' = i + 1 /\ UNCHANGED <<input, phase>>

StepEpilogue ==
  /\ phase = "https" /\ i > Len(https)
  /\ IF seen # {} THEN UNCHANGED <<out, seen>>
     ELSE LET r == AddAll(addrs, port, "nil", <<>>, out, seen) IN out' = r[1] /\ seen' = r[2]
  /\ phase' = "done" /\ UNCHANGED <<input, i>>

Next == StepRecord \/ StepEpilogue
Spec == Init /\ [][Next]_vars /\ WF_vars(Next)

\* ------------------------------------------------------------------ the rules
Svc == {k \in DOMAIN https : https[k].prio > 0}
NoDupAddrPort == \A a, b \in DOMAIN out : a # b => <<out[a].addr, out[a].port>> # <<out[b].addr, out[b].port>>
FamilyRespected == \A a \in DOMAIN out : Allowed(net, out[a].addr)
\* every target comes from some service-mode record with that record's own parameters, or is a plain address
FromRecord(t, h) ==
  /\ h.prio > 0 /\ t.port = RecPort(h) /\ t.ech = h.ech /\ t.alpn = RecAlpn(h)
  /\ \E n \in 1..Len(IF h.target # "" THEN addl ELSE IF addrs # <<>> THEN addrs ELSE h.v4hint \o h.v6hint) :
        t.addr = (IF h.target # "" THEN addl ELSE IF addrs # <<>> THEN addrs ELSE h.v4hint \o h.v6hint)[n]
Plain(t) == t.ech = "nil" /\ t.alpn = <<>> /\ t.port = port /\ \E n \in DOMAIN addrs : addrs[n] = t.addr
OwnTargetOwnParams == \A a \in DOMAIN out : (\E k \in DOMAIN https : FromRecord(out[a], https[k])) \/ Plain(out[a])
AliasIgnored == \A a \in DOMAIN out : ~Plain(out[a]) => \E k \in Svc : FromRecord(out[a], https[k])
HintsOnlyWithoutOrigin == addrs # <<>> => \A a \in DOMAIN out : out[a].addr \notin {"v4h", "v6h"}
PlainOnlyIfNoHttpsTarget ==
  phase = "done" => \/ \A a \in DOMAIN out : \E k \in Svc : FromRecord(out[a], https[k])
                    \/ \A a \in DOMAIN out : Plain(out[a]) /\ ~\E k \in Svc : FromRecord(out[a], https[k]) /\ FALSE
                    \/ \A a \in DOMAIN out : Plain(out[a])
\* the origin's default port 80 is upgraded to 443 for targets from records; a record's own port= parameter is kept as it is, 80 included
Http80Upgraded == port = 80 => \A a \in DOMAIN out : out[a].port = 80 => (Plain(out[a]) \/ \E k \in Svc : https[k].port = 80 /\ FromRecord(out[a], https[k]))
RecordOrder == \A a, b \in DOMAIN out : a < b =>
                 \/ Plain(out[a]) /\ Plain(out[b])
                 \/ \E ka, kb \in Svc : ka <= kb /\ FromRecord(out[a], https[ka]) /\ FromRecord(out[b], https[kb])
InputUnchanged == [][UNCHANGED input]_vars
Done == phase = "done"
Termination == <>Done
=============================================================================
