INIT Init
NEXT Next
CONSTANTS Domain <- F_opt
INVARIANTS RoundTrip RoundTripCompressed CompressionNeverLonger Emit
CHECK_DEADLOCK FALSE
