INIT Init
NEXT Next
CONSTANTS Domain <- F_addr
INVARIANTS RoundTrip RoundTripCompressed CompressionNeverLonger Emit
CHECK_DEADLOCK FALSE
