--------------------------- MODULE ResolverCache ---------------------------
(* C16 - the resolver cache never serves stale answers and is safe under concurrency.
   resolve.go resolveOne / resolveOneNoCache: per-(name,type) cache entry {expiration, result} with an RWMutex, fast path
   (read lock), slow path (write lock, re-check, upstream fetch, store or remove-on-error); package clock; upstream zone
   data that changes (generations) and whose responses carry several records with their own TTLs (including records
   that do not answer the question, e.g. a CNAME); upstream failures.

   G goroutines step through the code's critical sections; the environment advances the clock, changes data and
   toggles upstream failure at any time (time does not advance between an upstream fetch and its store).           *)
EXTENDS Integers, Sequences, FiniteSets, TLC

CONSTANTS Keys, G, MaxNow, MaxGen,
          TtlSets      \* possible TTL lists of a response: Seq of TTL; <<>> = a response without answer records

None == [none |-> TRUE]
VARIABLES now, up,
          ttls,        \* ttls[k][g]: TTLs of the records in the response for generation g of key k (fixed in Init)
          gen,         \* gen[k]: current upstream generation
          cache,       \* cache[k]: None or [exp, gen, f, min]
          wlock,       \* wlock[k]: 0 or the goroutine holding the entry's write lock
          pc, key, got,\* per goroutine
          fetched,     \* per goroutine: the response it fetched
          upq,         \* per goroutine: did the current call query upstream?
          missed,      \* per goroutine: there was no entry for the key when the call looked it up
          last         \* per goroutine: result of the call that just returned [kind, gen, upq, at]

vars == <<now, up, ttls, gen, cache, wlock, pc, key, got, fetched, upq, missed, last>>
Gs == 1..G

MinOf(s) == IF s = <<>> THEN 300 ELSE CHOOSE m \in {s[i] : i \in DOMAIN s} : \A i \in DOMAIN s : m <= s[i]
Valid(e, t) == e # None /\ t < e.exp

Init ==
  /\ now = 0 /\ up = TRUE
  /\ ttls \in [Keys -> [0..MaxGen -> TtlSets]]
  /\ gen = [k \in Keys |-> 0]
  /\ cache = [k \in Keys |-> None] /\ wlock = [k \in Keys |-> 0]
  /\ pc = [g \in Gs |-> "idle"] /\ key = [g \in Gs |-> CHOOSE k \in Keys : TRUE] /\ got = [g \in Gs |-> None]
  /\ fetched = [g \in Gs |-> None] /\ upq = [g \in Gs |-> FALSE] /\ missed = [g \in Gs |-> FALSE] /\ last = [g \in Gs |-> None]

\* ---- a lookup (resolve.go:451-488)
Call(g, k) == /\ pc[g] = "idle" /\ pc' = [pc EXCEPT ![g] = "fast"] /\ key' = [key EXCEPT ![g] = k]
              /\ upq' = [upq EXCEPT ![g] = FALSE] /\ got' = [got EXCEPT ![g] = None]
              /\ missed' = [missed EXCEPT ![g] = (cache[k] = None)]
              /\ UNCHANGED <<now, up, ttls, gen, cache, wlock, fetched, last>>
\* fast path: RLock (blocks while a writer holds the entry), read, RUnlock
FastRead(g) == /\ pc[g] = "fast" /\ wlock[key[g]] = 0
               /\ IF Valid(cache[key[g]], now)
                  THEN pc' = [pc EXCEPT ![g] = "ret"] /\ got' = [got EXCEPT ![g] = [kind |-> "ok", gen |-> cache[key[g]].gen, at |-> now, f |-> cache[key[g]].f]]
                  ELSE pc' = [pc EXCEPT ![g] = "wantlock"] /\ UNCHANGED got
               /\ UNCHANGED <<now, up, ttls, gen, cache, wlock, key, fetched, upq, missed, last>>
Lock(g) == /\ pc[g] = "wantlock" /\ wlock[key[g]] = 0
           /\ wlock' = [wlock EXCEPT ![key[g]] = g] /\ pc' = [pc EXCEPT ![g] = "locked"]
           /\ UNCHANGED <<now, up, ttls, gen, cache, key, got, fetched, upq, missed, last>>
Recheck(g) == /\ pc[g] = "locked"
              /\ IF Valid(cache[key[g]], now)
                 THEN /\ pc' = [pc EXCEPT ![g] = "ret"] /\ got' = [got EXCEPT ![g] = [kind |-> "ok", gen |-> cache[key[g]].gen, at |-> now, f |-> cache[key[g]].f]]
                      /\ wlock' = [wlock EXCEPT ![key[g]] = 0]
                 ELSE pc' = [pc EXCEPT ![g] = "fetch"] /\ UNCHANGED <<got, wlock>>
              /\ UNCHANGED <<now, up, ttls, gen, cache, key, fetched, upq, missed, last>>
\* upstream query: a failure removes the entry and is not cached
Fetch(g) == /\ pc[g] = "fetch"
            /\ upq' = [upq EXCEPT ![g] = TRUE]
            /\ IF up THEN /\ fetched' = [fetched EXCEPT ![g] = [gen |-> gen[key[g]], ttls |-> ttls[key[g]][gen[key[g]]], f |-> now]]
                          /\ pc' = [pc EXCEPT ![g] = "store"] /\ UNCHANGED <<cache, wlock, got>>
               ELSE /\ cache' = [cache EXCEPT ![key[g]] = None] /\ wlock' = [wlock EXCEPT ![key[g]] = 0]
                    /\ got' = [got EXCEPT ![g] = [kind |-> "err", gen |-> -1, at |-> now, f |-> now]] /\ pc' = [pc EXCEPT ![g] = "ret"] /\ UNCHANGED fetched
            /\ UNCHANGED <<now, up, ttls, gen, key, missed, last>>
\* lifetime = the smallest TTL among ALL records of the response (0 = not cacheable); 300 s only for an empty response
Store(g) == /\ pc[g] = "store"
            /\ cache' = [cache EXCEPT ![key[g]] = [exp |-> now + MinOf(fetched[g].ttls), gen |-> fetched[g].gen, f |-> fetched[g].f,
                                                   min |-> MinOf(fetched[g].ttls)]]
            /\ wlock' = [wlock EXCEPT ![key[g]] = 0]
            /\ got' = [got EXCEPT ![g] = [kind |-> "ok", gen |-> fetched[g].gen, at |-> now, f |-> fetched[g].f]] /\ pc' = [pc EXCEPT ![g] = "ret"]
            /\ UNCHANGED <<now, up, ttls, gen, key, fetched, upq, missed, last>>
\* cache.Get / cache.Add are two steps (resolve.go:458-462): calls that find no entry for the key each create their own
\* entry object, so they do not exclude each other: such a call may go upstream on its own, and its entry may or may not
\* end up as the one in the cache. (Harmless: no stale data; only a duplicate query.)
PrivateFetch(g) ==
  /\ pc[g] \in {"fast", "wantlock"} /\ missed[g]
  /\ upq' = [upq EXCEPT ![g] = TRUE]
  /\ IF up THEN LET e == [exp |-> now + MinOf(ttls[key[g]][gen[key[g]]]), gen |-> gen[key[g]], f |-> now, min |-> MinOf(ttls[key[g]][gen[key[g]]])] IN
                 /\ got' = [got EXCEPT ![g] = [kind |-> "ok", gen |-> gen[key[g]], at |-> now, f |-> now]]
                 /\ cache' \in {cache, [cache EXCEPT ![key[g]] = e]}
           ELSE /\ got' = [got EXCEPT ![g] = [kind |-> "err", gen |-> -1, at |-> now, f |-> now]]
                /\ cache' \in {cache, [cache EXCEPT ![key[g]] = None]}
  /\ pc' = [pc EXCEPT ![g] = "ret"]
  /\ UNCHANGED <<now, up, ttls, gen, wlock, key, fetched, missed, last>>

\* the caller's context ends while the upstream query is outstanding: the lookup fails like any failed query (the entry is
\* dropped, nothing is cached), and says nothing about the data
Abandon(g) == /\ pc[g] = "fetch"
              /\ cache' = [cache EXCEPT ![key[g]] = None] /\ wlock' = [wlock EXCEPT ![key[g]] = 0]
              /\ got' = [got EXCEPT ![g] = [kind |-> "timeout", gen |-> -1, at |-> now, f |-> now]] /\ pc' = [pc EXCEPT ![g] = "ret"]
              /\ UNCHANGED <<now, up, ttls, gen, key, fetched, upq, missed, last>>
AbandonPrivate(g) == /\ pc[g] \in {"fast", "wantlock"} /\ missed[g]
                     /\ cache' \in {cache, [cache EXCEPT ![key[g]] = None]}
                     /\ got' = [got EXCEPT ![g] = [kind |-> "timeout", gen |-> -1, at |-> now, f |-> now]] /\ pc' = [pc EXCEPT ![g] = "ret"]
                     /\ UNCHANGED <<now, up, ttls, gen, wlock, key, fetched, upq, missed, last>>

Return(g) == /\ pc[g] = "ret" /\ pc' = [pc EXCEPT ![g] = "idle"]
             /\ last' = [last EXCEPT ![g] = [kind |-> got[g].kind, gen |-> got[g].gen, upq |-> upq[g], at |-> now, key |-> key[g]]]
             /\ UNCHANGED <<now, up, ttls, gen, cache, wlock, key, got, fetched, upq, missed>>

\* ---- environment
Advance == /\ now < MaxNow /\ \A g \in Gs : pc[g] # "store" /\ now' = now + 1
           /\ UNCHANGED <<up, ttls, gen, cache, wlock, pc, key, got, fetched, upq, missed, last>>
Change(k) == /\ gen[k] < MaxGen /\ gen' = [gen EXCEPT ![k] = gen[k] + 1]
             /\ UNCHANGED <<now, up, ttls, cache, wlock, pc, key, got, fetched, upq, missed, last>>
Toggle == /\ up' = ~up /\ UNCHANGED <<now, ttls, gen, cache, wlock, pc, key, got, fetched, upq, missed, last>>

GoStep(g) == (\E k \in Keys : Call(g, k)) \/ FastRead(g) \/ Lock(g) \/ Recheck(g) \/ Fetch(g) \/ Store(g) \/ PrivateFetch(g) \/ Abandon(g) \/ AbandonPrivate(g) \/ Return(g)
Next == (\E g \in Gs : GoStep(g)) \/ Advance \/ (\E k \in Keys : Change(k)) \/ Toggle
Spec == Init /\ [][Next]_vars

\* ---- properties
\* an entry never outlives the smallest TTL of the response it came from
EntryFresh == \A k \in Keys : cache[k] # None => cache[k].exp <= cache[k].f + MinOf(ttls[k][cache[k].gen])
\* an answer is returned either by the call that fetched it, or while younger than that smallest TTL
Fresh == \A g \in Gs : (pc[g] = "ret" /\ got[g].kind = "ok") =>
            \/ got[g].at = got[g].f /\ upq[g]                                         \* the fetching call itself
            \/ got[g].at < got[g].f + MinOf(ttls[key[g]][got[g].gen])                  \* or younger than the smallest TTL
NoCachedFailure == \A g \in Gs : (pc[g] = "ret" /\ got[g].kind = "err") => upq[g]
\* a call that starts when the entry is expired (or absent) asks upstream before returning, unless another call refreshed it meanwhile
MutualExclusion == \A a, b \in Gs : (a # b /\ pc[a] \in {"locked", "fetch", "store"} /\ pc[b] \in {"locked", "fetch", "store"}) => key[a] # key[b]
LockHeld == \A g \in Gs : pc[g] \in {"locked", "fetch", "store"} <=> wlock[key[g]] = g
TS_full == { <<0>>, <<1>>, <<2>>, <<0, 2>>, <<2, 1>>, <<3, 0, 2>> }     \* (a response without records has no TTL: caching it or not is unspecified)
TS_two == { <<2>>, <<0>> }
TS_q == { <<1>>, <<0, 2>>, <<2, 1>> }
ViewNoLast == <<now, up, ttls, gen, cache, wlock, pc, key, got, fetched, upq, missed>>
TypeOK == now \in 0..MaxNow
=============================================================================
