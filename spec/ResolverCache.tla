--------------------------- MODULE ResolverCache ---------------------------
(* C16 - the resolver cache never serves stale answers and is safe under concurrency.
   resolve.go resolveOne / resolveOneNoCache. The cache maps a (name,type) key to an ENTRY OBJECT {expiration, result}
   with its own RWMutex; callers work on the object they got from the map, which need not be the one the map holds
   later: cache.Get and cache.Add are two steps, a failed query removes whatever is mapped under the key, and the map
   evicts. So the model keeps object identity: objects 1..nobj, cache[k] = the object mapped under k (0 = none),
   ent[g] = the object goroutine g works on. Fast path (read lock), slow path (write lock, re-check, upstream fetch,
   store or remove-on-error); package clock; upstream zone data that changes (generations) and whose responses carry
   several records with their own TTLs (including records that do not answer the question, e.g. a CNAME); upstream
   failures; callers whose context ends.

   G goroutines step through the code's critical sections; the environment advances the clock, changes data, toggles
   upstream failure, ends a caller's context and (when Evicts) evicts entries at any time (time does not advance
   between an upstream fetch and its store).                                                                        *)
EXTENDS Integers, Sequences, FiniteSets, TLC

CONSTANTS Keys, G, MaxNow, MaxGen,
          TtlSets,     \* possible TTL lists of a response: Seq of TTL; <<>> = a response without answer records
          MaxObj,      \* bound on the number of entry objects (model checking only: ObjBound)
          Evicts       \* BOOLEAN: the map is under capacity pressure (more live keys than its size): entries get evicted

None == [none |-> TRUE]
VARIABLES now, up,
          ttls,        \* ttls[k][g]: TTLs of the records in the response for generation g of key k (fixed in Init)
          gen,         \* gen[k]: current upstream generation
          nobj,        \* number of entry objects created so far
          objs,        \* objs[o]: None (zero expiration) or [exp, gen, f, min], o \in 1..nobj
          okey,        \* okey[o]: the key the object was created for
          olock,       \* olock[o]: 0 or the goroutine holding the object's write lock
          cache,       \* cache[k]: 0 or the object mapped under k
          pc, key, ent, got,   \* per goroutine
          fetched,     \* per goroutine: the response it fetched
          upq,         \* per goroutine: did the current call query upstream?
          upqAt,       \* per goroutine: ... and when
          hit,         \* per goroutine: expiration of the valid entry the call found in the map (-1: it found none)
          cancelled,   \* per goroutine: the caller's context has ended
          last         \* per goroutine: result of the call that just returned [kind, gen, upq, at]

vars == <<now, up, ttls, gen, nobj, objs, okey, olock, cache, pc, key, ent, got, fetched, upq, upqAt, hit, cancelled, last>>
Gs == 1..G
Objs == 1..nobj

MinOf(s) == IF s = <<>> THEN 300 ELSE CHOOSE m \in {s[i] : i \in DOMAIN s} : \A i \in DOMAIN s : m <= s[i]
Valid(e, t) == e # None /\ t < e.exp

Init ==
  /\ now = 0 /\ up = TRUE
  /\ ttls \in [Keys -> [0..MaxGen -> TtlSets]]
  /\ gen = [k \in Keys |-> 0]
  /\ nobj = 0 /\ objs = [o \in {} |-> None] /\ okey = [o \in {} |-> None] /\ olock = [o \in {} |-> 0]
  /\ cache = [k \in Keys |-> 0]
  /\ pc = [g \in Gs |-> "idle"] /\ key = [g \in Gs |-> CHOOSE k \in Keys : TRUE] /\ ent = [g \in Gs |-> 0] /\ got = [g \in Gs |-> None]
  /\ fetched = [g \in Gs |-> None] /\ upq = [g \in Gs |-> FALSE] /\ upqAt = [g \in Gs |-> 0] /\ hit = [g \in Gs |-> -1]
  /\ cancelled = [g \in Gs |-> FALSE] /\ last = [g \in Gs |-> None]

\* ---- a lookup (resolve.go resolveOne)
Call(g, k) == /\ pc[g] = "idle" /\ pc' = [pc EXCEPT ![g] = "get"] /\ key' = [key EXCEPT ![g] = k]
              /\ upq' = [upq EXCEPT ![g] = FALSE] /\ got' = [got EXCEPT ![g] = None] /\ cancelled' = [cancelled EXCEPT ![g] = FALSE]
              /\ hit' = [hit EXCEPT ![g] = -1]
              /\ UNCHANGED <<now, up, ttls, gen, nobj, objs, okey, olock, cache, ent, fetched, upqAt, last>>
\* cache.Get
Get(g) == /\ pc[g] = "get"
          /\ IF cache[key[g]] # 0
             THEN /\ ent' = [ent EXCEPT ![g] = cache[key[g]]] /\ pc' = [pc EXCEPT ![g] = "fast"]
                  /\ hit' = [hit EXCEPT ![g] = IF Valid(objs[cache[key[g]]], now) THEN objs[cache[key[g]]].exp ELSE -1]
             ELSE /\ pc' = [pc EXCEPT ![g] = "add"] /\ UNCHANGED <<ent, hit>>
          /\ UNCHANGED <<now, up, ttls, gen, nobj, objs, okey, olock, cache, key, got, fetched, upq, upqAt, cancelled, last>>
\* v = &cacheValue{}; cache.Add(key, v): a new object, mapped under the key in place of whatever another caller mapped meanwhile
Add(g) == /\ pc[g] = "add"
          /\ nobj' = nobj + 1
          /\ objs' = [o \in 1..(nobj + 1) |-> IF o <= nobj THEN objs[o] ELSE None]
          /\ okey' = [o \in 1..(nobj + 1) |-> IF o <= nobj THEN okey[o] ELSE key[g]]
          /\ olock' = [o \in 1..(nobj + 1) |-> IF o <= nobj THEN olock[o] ELSE 0]
          /\ cache' = [cache EXCEPT ![key[g]] = nobj + 1]
          /\ ent' = [ent EXCEPT ![g] = nobj + 1] /\ pc' = [pc EXCEPT ![g] = "fast"]
          /\ UNCHANGED <<now, up, ttls, gen, key, got, fetched, upq, upqAt, hit, cancelled, last>>
\* fast path: RLock (blocks while a writer holds the object), read, RUnlock
FastRead(g) == /\ pc[g] = "fast" /\ olock[ent[g]] = 0
               /\ IF Valid(objs[ent[g]], now)
                  THEN pc' = [pc EXCEPT ![g] = "ret"] /\ got' = [got EXCEPT ![g] = [kind |-> "ok", gen |-> objs[ent[g]].gen, at |-> now, f |-> objs[ent[g]].f]]
                  ELSE pc' = [pc EXCEPT ![g] = "wantlock"] /\ UNCHANGED got
               /\ UNCHANGED <<now, up, ttls, gen, nobj, objs, okey, olock, cache, key, ent, fetched, upq, upqAt, hit, cancelled, last>>
Lock(g) == /\ pc[g] = "wantlock" /\ olock[ent[g]] = 0
           /\ olock' = [olock EXCEPT ![ent[g]] = g] /\ pc' = [pc EXCEPT ![g] = "locked"]
           /\ UNCHANGED <<now, up, ttls, gen, nobj, objs, okey, cache, key, ent, got, fetched, upq, upqAt, hit, cancelled, last>>
Recheck(g) == /\ pc[g] = "locked"
              /\ IF Valid(objs[ent[g]], now)
                 THEN /\ pc' = [pc EXCEPT ![g] = "ret"] /\ got' = [got EXCEPT ![g] = [kind |-> "ok", gen |-> objs[ent[g]].gen, at |-> now, f |-> objs[ent[g]].f]]
                      /\ olock' = [olock EXCEPT ![ent[g]] = 0]
                 ELSE pc' = [pc EXCEPT ![g] = "fetch"] /\ UNCHANGED <<got, olock>>
              /\ UNCHANGED <<now, up, ttls, gen, nobj, objs, okey, cache, key, ent, fetched, upq, upqAt, hit, cancelled, last>>
\* upstream query: a failure removes whatever is mapped under the key (cache.Remove(key)) and is not cached
Fetch(g) == /\ pc[g] = "fetch"
            /\ upq' = [upq EXCEPT ![g] = TRUE] /\ upqAt' = [upqAt EXCEPT ![g] = now]
            /\ IF up THEN /\ fetched' = [fetched EXCEPT ![g] = [gen |-> gen[key[g]], ttls |-> ttls[key[g]][gen[key[g]]], f |-> now]]
                          /\ pc' = [pc EXCEPT ![g] = "store"] /\ UNCHANGED <<cache, olock, got>>
               ELSE /\ cache' = [cache EXCEPT ![key[g]] = 0] /\ olock' = [olock EXCEPT ![ent[g]] = 0]
                    /\ got' = [got EXCEPT ![g] = [kind |-> "err", gen |-> -1, at |-> now, f |-> now]] /\ pc' = [pc EXCEPT ![g] = "ret"] /\ UNCHANGED fetched
            /\ UNCHANGED <<now, up, ttls, gen, nobj, objs, okey, key, ent, hit, cancelled, last>>
\* lifetime = the smallest TTL among ALL records of the response (0 = not cacheable); 300 s only for an empty response.
\* The object is filled whether or not the map still holds it.
Store(g) == /\ pc[g] = "store"
            /\ objs' = [objs EXCEPT ![ent[g]] = [exp |-> now + MinOf(fetched[g].ttls), gen |-> fetched[g].gen, f |-> fetched[g].f,
                                                 min |-> MinOf(fetched[g].ttls)]]
            /\ olock' = [olock EXCEPT ![ent[g]] = 0]
            /\ got' = [got EXCEPT ![g] = [kind |-> "ok", gen |-> fetched[g].gen, at |-> now, f |-> fetched[g].f]] /\ pc' = [pc EXCEPT ![g] = "ret"]
            /\ UNCHANGED <<now, up, ttls, gen, nobj, okey, cache, key, ent, fetched, upq, upqAt, hit, cancelled, last>>
\* the caller's context has ended and the upstream query fails for that reason: the lookup fails like any failed query (the
\* mapping is dropped, nothing is cached), and says nothing about the data. Only a call that got as far as querying can end so
\* (before the query reached the server, or - "store" - with the server's answer on its way).
Abandon(g) == /\ pc[g] \in {"fetch", "store"} /\ cancelled[g]
              /\ cache' = [cache EXCEPT ![key[g]] = 0] /\ olock' = [olock EXCEPT ![ent[g]] = 0]
              /\ got' = [got EXCEPT ![g] = [kind |-> "timeout", gen |-> -1, at |-> now, f |-> now]] /\ pc' = [pc EXCEPT ![g] = "ret"]
              /\ UNCHANGED <<now, up, ttls, gen, nobj, objs, okey, key, ent, fetched, upq, upqAt, hit, cancelled, last>>

Return(g) == /\ pc[g] = "ret" /\ pc' = [pc EXCEPT ![g] = "idle"]
             /\ last' = [last EXCEPT ![g] = [kind |-> got[g].kind, gen |-> got[g].gen, upq |-> upq[g], at |-> now, key |-> key[g]]]
             /\ UNCHANGED <<now, up, ttls, gen, nobj, objs, okey, olock, cache, key, ent, got, fetched, upq, upqAt, hit, cancelled>>

\* ---- environment
Advance == /\ now < MaxNow /\ (\A g \in Gs : pc[g] # "store") /\ now' = now + 1
           /\ UNCHANGED <<up, ttls, gen, nobj, objs, okey, olock, cache, pc, key, ent, got, fetched, upq, upqAt, hit, cancelled, last>>
Change(k) == /\ gen[k] < MaxGen /\ gen' = [gen EXCEPT ![k] = gen[k] + 1]
             /\ UNCHANGED <<now, up, ttls, nobj, objs, okey, olock, cache, pc, key, ent, got, fetched, upq, upqAt, hit, cancelled, last>>
Toggle == /\ up' = ~up /\ UNCHANGED <<now, ttls, gen, nobj, objs, okey, olock, cache, pc, key, ent, got, fetched, upq, upqAt, hit, cancelled, last>>
Cancel(g) == /\ pc[g] # "idle" /\ ~cancelled[g] /\ cancelled' = [cancelled EXCEPT ![g] = TRUE]
             /\ UNCHANGED <<now, up, ttls, gen, nobj, objs, okey, olock, cache, pc, key, ent, got, fetched, upq, upqAt, hit, last>>
\* the map drops an entry to make room (2Q cache of 32 entries by default); callers holding the object go on with it
Evict(k) == /\ Evicts /\ cache[k] # 0 /\ cache' = [cache EXCEPT ![k] = 0]
            /\ UNCHANGED <<now, up, ttls, gen, nobj, objs, okey, olock, pc, key, ent, got, fetched, upq, upqAt, hit, cancelled, last>>

GoStep(g) == (\E k \in Keys : Call(g, k)) \/ Get(g) \/ Add(g) \/ FastRead(g) \/ Lock(g) \/ Recheck(g) \/ Fetch(g) \/ Store(g) \/ Abandon(g) \/ Return(g) \/ Cancel(g)
Next == (\E g \in Gs : GoStep(g)) \/ Advance \/ (\E k \in Keys : Change(k) \/ Evict(k)) \/ Toggle
Spec == Init /\ [][Next]_vars

\* ---- properties
\* an entry never outlives the smallest TTL of the response it came from
EntryFresh == \A o \in Objs : objs[o] # None => objs[o].exp <= objs[o].f + MinOf(ttls[okey[o]][objs[o].gen])
\* an answer is returned either by the call that fetched it, or while younger than that smallest TTL
Fresh == \A g \in Gs : (pc[g] = "ret" /\ got[g].kind = "ok") =>
            \/ got[g].at = got[g].f /\ upq[g]                                         \* the fetching call itself
            \/ got[g].at < got[g].f + MinOf(ttls[key[g]][got[g].gen])                  \* or younger than the smallest TTL
NoCachedFailure == \A g \in Gs : (pc[g] = "ret" /\ got[g].kind = "err") => upq[g]
Held == {"locked", "fetch", "store"}
MutualExclusion == \A a, b \in Gs : (a # b /\ pc[a] \in Held /\ pc[b] \in Held) => ent[a] # ent[b]
LockHeld == /\ \A g \in Gs : pc[g] \in Held => ent[g] \in Objs /\ olock[ent[g]] = g
            /\ \A o \in Objs : olock[o] # 0 => pc[olock[o]] \in Held /\ ent[olock[o]] = o
\* an object only ever serves the key it was created for
KeyOK == /\ \A k \in Keys : cache[k] # 0 => cache[k] \in Objs /\ okey[cache[k]] = k
         /\ \A g \in Gs : pc[g] \notin {"idle", "get", "add"} => ent[g] \in Objs /\ okey[ent[g]] = key[g]
\* "within the TTL serves repeated lookups from its cache": a call that found a valid entry in the map does not ask upstream
\* before that entry expires - whatever the other callers, failures, evictions and cancellations do meanwhile
ServedFromCache == \A g \in Gs : (pc[g] \in {"store", "ret"} /\ upq[g] /\ hit[g] >= 0) => upqAt[g] >= hit[g]
TS_full == { <<0>>, <<1>>, <<2>>, <<0, 2>>, <<2, 1>>, <<3, 0, 2>> }     \* (a response without records has no TTL: caching it or not is unspecified)
TS_two == { <<2>>, <<0>> }
TS_q == { <<1>>, <<0, 2>>, <<2, 1>> }
\* model-checking reductions (sound): the contents of an object nobody can reach any more, and the history variables of a call
\* once they can no longer matter, are left out of the state's identity; a context is ended only where that is looked at
Reachable(o) == (\E k \in Keys : cache[k] = o) \/ (\E g \in Gs : pc[g] \notin {"idle", "get", "add"} /\ ent[g] = o)
ViewNoLast == <<now, up, ttls, gen, nobj, [o \in Objs |-> IF Reachable(o) THEN objs[o] ELSE None], olock, cache, pc, key,
                [g \in Gs |-> IF pc[g] \in {"idle", "get", "add"} THEN 0 ELSE ent[g]], got, fetched, upq,
                [g \in Gs |-> IF upq[g] /\ hit[g] >= 0 THEN upqAt[g] ELSE 0], hit, cancelled>>
CancelLate == \A g \in Gs : (cancelled'[g] /\ ~cancelled[g]) => pc[g] \in {"fetch", "store"}
TypeOK == now \in 0..MaxNow
ObjBound == nobj <= MaxObj
=============================================================================
