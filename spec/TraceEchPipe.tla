---------------------------- MODULE TraceEchPipe ----------------------------
(* Trace validation for EchPipe: every Read / Write call made on a real Conn (real record sizes, seeded random
   fragmentation, buffer sizes, write splits and cuts) must be a step of the specification with exactly the logged
   return values, and the harness's content comparison must agree with the positions the specification prescribes. *)
EXTENDS EchPipe, Json, IOUtils

Trace == ndJsonDeserialize(IOEnv.TRACE_FILE)
ASSUME TLCSet(1, 0)
VARIABLES l
tvars == <<vars, l>>
Ev == Trace[l]
Has == l <= Len(Trace)

Load(sc) ==
  /\ crecs = sc.crecs /\ brecs = sc.brecs /\ cutAt = sc.cutAt /\ cutKind = sc.cutKind
  /\ firstIn = sc.firstIn /\ firstOut = sc.firstOut /\ accepted = sc.accepted /\ tmoAt = sc.tmoAt /\ bigHdr \in BOOLEAN /\ (bigHdr \/ HasBig(sc.crecs))

TraceInit == l = 2 /\ Load(Trace[1].scen) /\ InitState

ObsRead ==
  /\ Has /\ Ev.e = "read"
  /\ \E k \in {0, Ev.n} : Read(Ev.cap, k)
  /\ lastRead' = [n |-> Ev.n, err |-> Ev.err]
  /\ Ev.m \in {"both", IF repl' THEN "repl" ELSE "raw"}      \* contents: the stream with / without the replaced hello
  /\ l' = l + 1

ObsWrite ==
  /\ Has /\ Ev.e = "write"
  /\ Write(Ev.k)
  /\ lastWrite'.err = Ev.err /\ (Ev.err = "none" => lastWrite'.n = Ev.n)      \* the count returned with an error is not specified
  /\ wfwd' = Ev.fwd /\ Ev.wok
  /\ l' = l + 1

ObsEnd == /\ Has /\ Ev.e = "end" /\ l' = l + 1 /\ UNCHANGED vars

ObsReset ==
  /\ Has /\ Ev.e = "reset" /\ Trace[l-1].e = "end"
  /\ LET sc == Ev.scen IN
     /\ crecs' = sc.crecs /\ brecs' = sc.brecs /\ cutAt' = sc.cutAt /\ cutKind' = sc.cutKind
     /\ firstIn' = sc.firstIn /\ firstOut' = sc.firstOut /\ accepted' = sc.accepted /\ tmoAt' = sc.tmoAt /\ bigHdr' \in BOOLEAN /\ (bigHdr' \/ HasBig(sc.crecs))
     /\ tpos' = sc.firstIn /\ ri' = 1 /\ lo' = 0 /\ hi' = sc.firstOut /\ rErr' = "none" /\ outTotal' = sc.firstOut /\ outpos' = 0
     /\ rPass' = ~sc.accepted /\ repl' = FALSE /\ tmoDone' = FALSE /\ lastRead' = [n |-> -1, err |-> "none"]
     /\ wtaken' = 0 /\ wfwd' = 0 /\ bi' = 1 /\ wPass' = ~sc.accepted /\ armed' = FALSE /\ wErr' = FALSE
     /\ lastWrite' = [n |-> -1, err |-> "none"]
  /\ l' = l + 1

TraceNext == ObsRead \/ ObsWrite \/ ObsEnd \/ ObsReset
HighWater == TLCSet(1, IF TLCGet(1) > l THEN TLCGet(1) ELSE l)
TraceAccepted ==
  IF TLCGet(1) = Len(Trace) + 1 THEN TRUE
  ELSE Print(<<"TRACE_REJECTED_AT", TLCGet(1), IF TLCGet(1) <= Len(Trace) THEN Trace[TLCGet(1)] ELSE "eof">>, FALSE)
=============================================================================
