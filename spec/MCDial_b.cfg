SPECIFICATION Spec
CONSTANTS MaxN = 2
MaxK = 2
Delay = 4
Timeout = 2
Durs = {0, 1, 3, 5}
CancelTimes = {0, 2}
INVARIANTS BoundedConcurrency OrderOK StaggerOK LateCancelled AtMostOneReturned QuiescentClean ErrorMeansNoSuccess ConnMeansReturned PromptCancel
PROPERTY Termination
CHECK_DEADLOCK FALSE
