INIT Init
NEXT Next
CONSTANTS Domain <- F_https
INVARIANTS RoundTrip RoundTripCompressed CompressionNeverLonger Emit
CHECK_DEADLOCK FALSE
