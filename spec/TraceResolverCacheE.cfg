INIT TraceInit
NEXT TraceNext
CONSTANTS
 Keys = {"n1"}
 G = 16
 MaxNow = 100
 MaxGen = 1
 TtlSets <- TS_full
 Evicts = TRUE
 MaxObj = 0
CONSTRAINT HighWater
INVARIANTS EntryFresh Fresh NoCachedFailure MutualExclusion LockHeld KeyOK ServedFromCache
POSTCONDITION TraceAccepted
CHECK_DEADLOCK FALSE
