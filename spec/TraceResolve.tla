---------------------------- MODULE TraceResolve ----------------------------
(* C14, direction B: seeded RANDOM DNS universes (alias chains and loops of any length, CNAME chains, NXDOMAIN / SERVFAIL
   names, answers poisoned with records of other owners) are served to the real Resolver; the universe, the input form,
   the result and the query log are recorded; TLC runs Resolve.tla on the recorded universe and the observed result
   must be the specification's, the observed queries among the specification's. *)
EXTENDS Resolve, Json, IOUtils

Trace == ndJsonDeserialize(IOEnv.TRACE_FILE)
ASSUME TLCSet(1, 0)
VARIABLES l
tvars == <<vars, l>>
Ev == Trace[l]
Has == l <= Len(Trace)

Load(sc) ==
  /\ inp = sc.inp /\ ztab = sc.ztab /\ hs = "absent" /\ as = "none" /\ a6s = "none" /\ ts = "none"
TraceInit ==
  /\ l = 2 /\ Load(Trace[1].scen)
  /\ pc = "parse" /\ want = N(Origin) /\ seen = {} /\ https = <<>> /\ addl = <<>> /\ tq = <<>> /\ address = <<>>
  /\ queries = <<>> /\ result = [kind |-> "none"]

\* the specification's own (deterministic) run
Run == Next /\ UNCHANGED l

SetOf(s) == {s[i] : i \in DOMAIN s}
Bag(s) == [x \in SetOf(s) |-> Cardinality({i \in DOMAIN s : s[i] = x})]    \* order of addresses is not specified
NonEmptyAddl(a) == {x \in SetOf(a) : x.ips # <<>>}
ObsResult ==
  /\ Has /\ Ev.e = "result" /\ pc = "done"
  /\ result.kind = Ev.kind
  /\ (result.kind = "err" => \/ result.class = Ev.class
                              \/ \E t \in {"A", "AAAA"} : Ask(want, t).rcode # 0 /\ ErrOf(Ask(want, t).rcode) = Ev.class)
  /\ (result.kind = "ok" => /\ Bag(result.address) = Bag(Ev.address)
                            /\ result.https = Ev.https
                            /\ NonEmptyAddl(result.addl) = SetOf(Ev.addl)
                            /\ result.port = Ev.port)
  \* the code asks nothing the specification's run does not ask
  /\ SetOf(Ev.queries) \subseteq SetOf(queries)
  /\ l' = l + 1 /\ UNCHANGED vars
ObsEnd == Has /\ Ev.e = "end" /\ l' = l + 1 /\ UNCHANGED vars
ObsReset ==
  /\ Has /\ Ev.e = "reset" /\ Trace[l-1].e = "end"
  /\ inp' = Ev.scen.inp /\ ztab' = Ev.scen.ztab /\ UNCHANGED <<hs, as, a6s, ts>>
  /\ pc' = "parse" /\ want' = N(Origin) /\ seen' = {} /\ https' = <<>> /\ addl' = <<>> /\ tq' = <<>> /\ address' = <<>>
  /\ queries' = <<>> /\ result' = [kind |-> "none"]
  /\ l' = l + 1
TraceNext == Run \/ ObsResult \/ ObsEnd \/ ObsReset
HighWater == TLCSet(1, IF TLCGet(1) > l THEN TLCGet(1) ELSE l)
TraceAccepted ==
  IF TLCGet(1) = Len(Trace) + 1 THEN TRUE
  ELSE Print(<<"TRACE_REJECTED_AT", TLCGet(1), IF TLCGet(1) <= Len(Trace) THEN Trace[TLCGet(1)] ELSE "eof">>, FALSE)
=============================================================================
