INIT TraceInit
NEXT TraceNext
CONSTANTS MaxN = 5
MaxK = 4
Delay = 2
Timeout = 4
Durs = {0, 1, 3, 5}
CancelTimes = {0, 2}
CONSTRAINT HighWater
INVARIANTS BoundedConcurrency OrderOK StaggerOK LateCancelled AtMostOneReturned ErrorMeansNoSuccess ConnMeansReturned PromptCancel
POSTCONDITION TraceAccepted
CHECK_DEADLOCK FALSE
