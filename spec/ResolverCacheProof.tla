------------------------ MODULE ResolverCacheProof ------------------------
(* Unbounded version of ResolverCache's freshness result: for EVERY number of goroutines, key set, clock range, number
   of zone generations and TTL lists, an entry's lifetime is exactly the smallest TTL of the response it came from, and
   an answer is returned either by the call that fetched it or while younger than that smallest TTL.  Proved with TLAPS
   by an inductive invariant; MinOf is never unfolded, so the result does not depend on how "the smallest TTL" is
   computed.  TLC's runs of MCResolverCache cover small instances exhaustively and bind the steps to the code. *)
EXTENDS ResolverCache, TLAPS

ASSUME KeysNonEmpty == Keys # {}

PCs == {"idle", "fast", "wantlock", "locked", "fetch", "store", "ret"}
Shape == /\ pc \in [Gs -> PCs] /\ key \in [Gs -> Keys]
         /\ DOMAIN got = Gs /\ DOMAIN fetched = Gs /\ DOMAIN upq = Gs /\ DOMAIN cache = Keys
\* lifetime = smallest TTL, exactly
EntryExact == \A k \in Keys : cache[k] # None => cache[k].exp = cache[k].f + MinOf(ttls[k][cache[k].gen])
\* between the upstream answer and its store no time passes, and the stored response is the zone's
Pending == \A g \in Gs : pc[g] = "store" => /\ upq[g] /\ fetched[g].f = now
                                             /\ fetched[g].ttls = ttls[key[g]][fetched[g].gen]
IndInv == Shape /\ EntryExact /\ Pending /\ Fresh

THEOREM InitInd == Init => IndInv
<1> SUFFICES ASSUME Init PROVE IndInv
  OBVIOUS
<1>1 (CHOOSE k \in Keys : TRUE) \in Keys
  BY KeysNonEmpty
<1>2 Shape
  BY <1>1 DEF Init, Shape, PCs
<1>3 EntryExact /\ Pending /\ Fresh
  BY DEF Init, EntryExact, Pending, Fresh
<1> QED BY <1>2, <1>3 DEF IndInv

LEMMA StepInd == IndInv /\ [Next]_vars => IndInv'
<1> SUFFICES ASSUME IndInv, [Next]_vars PROVE IndInv'
  OBVIOUS
<1> USE DEF IndInv, Shape, PCs
<1>1 ASSUME NEW g \in Gs, NEW k \in Keys, Call(g, k) PROVE IndInv'
  BY <1>1 DEF Call, EntryExact, Pending, Fresh
<1>2 ASSUME NEW g \in Gs, FastRead(g) PROVE IndInv'
  <2>1 Shape' /\ EntryExact' /\ Pending'
    BY <1>2 DEF FastRead, EntryExact, Pending
  <2>2 Fresh'
    <3>1 CASE Valid(cache[key[g]], now)
      <4>1 key[g] \in Keys /\ cache[key[g]] # None /\ now < cache[key[g]].exp
        BY <3>1 DEF Valid
      <4>2 now < cache[key[g]].f + MinOf(ttls[key[g]][cache[key[g]].gen])
        BY <4>1 DEF EntryExact
      <4> QED BY <1>2, <3>1, <4>2 DEF FastRead, Fresh
    <3>2 CASE ~Valid(cache[key[g]], now)
      BY <1>2, <3>2 DEF FastRead, Fresh
    <3> QED BY <3>1, <3>2
  <2> QED BY <2>1, <2>2
<1>3 ASSUME NEW g \in Gs, Lock(g) PROVE IndInv'
  BY <1>3 DEF Lock, EntryExact, Pending, Fresh
<1>4 ASSUME NEW g \in Gs, Recheck(g) PROVE IndInv'
  <2>1 Shape' /\ EntryExact' /\ Pending'
    BY <1>4 DEF Recheck, EntryExact, Pending
  <2>2 Fresh'
    <3>1 CASE Valid(cache[key[g]], now)
      <4>1 key[g] \in Keys /\ cache[key[g]] # None /\ now < cache[key[g]].exp
        BY <3>1 DEF Valid
      <4>2 now < cache[key[g]].f + MinOf(ttls[key[g]][cache[key[g]].gen])
        BY <4>1 DEF EntryExact
      <4> QED BY <1>4, <3>1, <4>2 DEF Recheck, Fresh
    <3>2 CASE ~Valid(cache[key[g]], now)
      BY <1>4, <3>2 DEF Recheck, Fresh
    <3> QED BY <3>1, <3>2
  <2> QED BY <2>1, <2>2
<1>5 ASSUME NEW g \in Gs, Fetch(g) PROVE IndInv'
  <2>1 CASE up
    BY <1>5, <2>1 DEF Fetch, EntryExact, Pending, Fresh
  <2>2 CASE ~up
    BY <1>5, <2>2 DEF Fetch, EntryExact, Pending, Fresh
  <2> QED BY <2>1, <2>2
<1>6 ASSUME NEW g \in Gs, Store(g) PROVE IndInv'
  <2>1 pc[g] = "store" /\ upq[g] /\ fetched[g].f = now /\ fetched[g].ttls = ttls[key[g]][fetched[g].gen] /\ key[g] \in Keys
    BY <1>6 DEF Store, Pending
  <2>2 Shape' /\ Pending'
    BY <1>6 DEF Store, Pending
  <2>3 EntryExact'
    BY <1>6, <2>1 DEF Store, EntryExact
  <2>4 Fresh'
    BY <1>6, <2>1 DEF Store, Fresh
  <2> QED BY <2>2, <2>3, <2>4
<1>7 ASSUME NEW g \in Gs, PrivateFetch(g) PROVE IndInv'
  <2>1 CASE up
    BY <1>7, <2>1 DEF PrivateFetch, EntryExact, Pending, Fresh
  <2>2 CASE ~up
    BY <1>7, <2>2 DEF PrivateFetch, EntryExact, Pending, Fresh
  <2> QED BY <2>1, <2>2
<1>7a ASSUME NEW g \in Gs, Abandon(g) PROVE IndInv'
  BY <1>7a DEF Abandon, EntryExact, Pending, Fresh
<1>7b ASSUME NEW g \in Gs, AbandonPrivate(g) PROVE IndInv'
  BY <1>7b DEF AbandonPrivate, EntryExact, Pending, Fresh
<1>8 ASSUME NEW g \in Gs, Return(g) PROVE IndInv'
  BY <1>8 DEF Return, EntryExact, Pending, Fresh
<1>9 CASE Advance
  BY <1>9 DEF Advance, EntryExact, Pending, Fresh
<1>10 ASSUME NEW k \in Keys, Change(k) PROVE IndInv'
  BY <1>10 DEF Change, EntryExact, Pending, Fresh
<1>11 CASE Toggle
  BY <1>11 DEF Toggle, EntryExact, Pending, Fresh
<1>12 CASE UNCHANGED vars
  BY <1>12 DEF vars, EntryExact, Pending, Fresh
<1> QED BY <1>1, <1>2, <1>3, <1>4, <1>5, <1>6, <1>7, <1>7a, <1>7b, <1>8, <1>9, <1>10, <1>11, <1>12 DEF Next, GoStep

THEOREM FreshAlways == Spec => [](Fresh /\ EntryExact)
<1>1 IndInv => Fresh /\ EntryExact
  BY DEF IndInv
<1> QED BY InitInd, StepInd, <1>1, PTL DEF Spec
=============================================================================
