------------------------ MODULE ResolverCacheProof ------------------------
(* Unbounded version of ResolverCache's freshness result: for EVERY number of goroutines, key set, clock range, number
   of zone generations, TTL lists and entry objects, with evictions, failures and cancellations, an entry object's
   lifetime is exactly the smallest TTL of the response it came from, an object only serves the key it was created for,
   and an answer is returned either by the call that fetched it or while younger than that smallest TTL.  Proved with
   TLAPS by an inductive invariant; MinOf is never unfolded, so the result does not depend on how "the smallest TTL" is
   computed.  TLC's runs of ResolverCache cover small instances exhaustively and bind the steps to the code. *)
EXTENDS ResolverCache, TLAPS

ASSUME KeysNonEmpty == Keys # {}

PCs == {"idle", "get", "add", "fast", "wantlock", "locked", "fetch", "store", "ret"}
Shape == /\ pc \in [Gs -> PCs] /\ key \in [Gs -> Keys] /\ nobj \in Nat
         /\ DOMAIN got = Gs /\ DOMAIN fetched = Gs /\ DOMAIN upq = Gs /\ DOMAIN cache = Keys /\ DOMAIN ent = Gs
         /\ DOMAIN objs = Objs /\ DOMAIN okey = Objs
\* lifetime = smallest TTL, exactly
EntryExact == \A o \in Objs : objs[o] # None => objs[o].exp = objs[o].f + MinOf(ttls[okey[o]][objs[o].gen])
\* between the upstream answer and its store no time passes, and the stored response is the zone's
Pending == \A g \in Gs : pc[g] = "store" => /\ upq[g] /\ fetched[g].f = now
                                             /\ fetched[g].ttls = ttls[key[g]][fetched[g].gen]
IndInv == Shape /\ KeyOK /\ EntryExact /\ Pending /\ Fresh

THEOREM InitInd == Init => IndInv
<1> SUFFICES ASSUME Init PROVE IndInv
  OBVIOUS
<1>1 (CHOOSE k \in Keys : TRUE) \in Keys
  BY KeysNonEmpty
<1>2 Shape
  BY <1>1 DEF Init, Shape, PCs, Objs
<1>3 KeyOK /\ EntryExact /\ Pending /\ Fresh
  BY DEF Init, KeyOK, EntryExact, Pending, Fresh, Objs
<1> QED BY <1>2, <1>3 DEF IndInv

LEMMA StepInd == IndInv /\ [Next]_vars => IndInv'
<1> SUFFICES ASSUME IndInv, [Next]_vars PROVE IndInv'
  OBVIOUS
<1> USE DEF IndInv, Shape, PCs, Objs
<1>1 ASSUME NEW g \in Gs, NEW k \in Keys, Call(g, k) PROVE IndInv'
  BY <1>1 DEF Call, KeyOK, EntryExact, Pending, Fresh
<1>1a ASSUME NEW g \in Gs, Get(g) PROVE IndInv'
  <2>1 CASE cache[key[g]] # 0
    BY <1>1a, <2>1 DEF Get, KeyOK, EntryExact, Pending, Fresh
  <2>2 CASE cache[key[g]] = 0
    BY <1>1a, <2>2 DEF Get, KeyOK, EntryExact, Pending, Fresh
  <2> QED BY <2>1, <2>2
<1>1b ASSUME NEW g \in Gs, Add(g) PROVE IndInv'
  <2>1 Shape'
    BY <1>1b DEF Add
  <2>2 KeyOK'
    BY <1>1b DEF Add, KeyOK
  <2>3 EntryExact'
    BY <1>1b DEF Add, EntryExact, None
  <2>4 Pending' /\ Fresh'
    BY <1>1b DEF Add, Pending, Fresh
  <2> QED BY <2>1, <2>2, <2>3, <2>4
<1>2 ASSUME NEW g \in Gs, FastRead(g) PROVE IndInv'
  <2>1 Shape' /\ KeyOK' /\ EntryExact' /\ Pending'
    BY <1>2 DEF FastRead, KeyOK, EntryExact, Pending
  <2>2 Fresh'
    <3>0 ent[g] \in Objs /\ okey[ent[g]] = key[g]
      BY <1>2 DEF FastRead, KeyOK
    <3>1 CASE Valid(objs[ent[g]], now)
      <4>1 objs[ent[g]] # None /\ now < objs[ent[g]].exp
        BY <3>1 DEF Valid
      <4>2 now < objs[ent[g]].f + MinOf(ttls[key[g]][objs[ent[g]].gen])
        BY <4>1, <3>0 DEF EntryExact
      <4> QED BY <1>2, <3>1, <4>2 DEF FastRead, Fresh
    <3>2 CASE ~Valid(objs[ent[g]], now)
      BY <1>2, <3>2 DEF FastRead, Fresh
    <3> QED BY <3>1, <3>2
  <2> QED BY <2>1, <2>2
<1>3 ASSUME NEW g \in Gs, Lock(g) PROVE IndInv'
  BY <1>3 DEF Lock, KeyOK, EntryExact, Pending, Fresh
<1>4 ASSUME NEW g \in Gs, Recheck(g) PROVE IndInv'
  <2>1 Shape' /\ KeyOK' /\ EntryExact' /\ Pending'
    BY <1>4 DEF Recheck, KeyOK, EntryExact, Pending
  <2>2 Fresh'
    <3>0 ent[g] \in Objs /\ okey[ent[g]] = key[g]
      BY <1>4 DEF Recheck, KeyOK
    <3>1 CASE Valid(objs[ent[g]], now)
      <4>1 objs[ent[g]] # None /\ now < objs[ent[g]].exp
        BY <3>1 DEF Valid
      <4>2 now < objs[ent[g]].f + MinOf(ttls[key[g]][objs[ent[g]].gen])
        BY <4>1, <3>0 DEF EntryExact
      <4> QED BY <1>4, <3>1, <4>2 DEF Recheck, Fresh
    <3>2 CASE ~Valid(objs[ent[g]], now)
      BY <1>4, <3>2 DEF Recheck, Fresh
    <3> QED BY <3>1, <3>2
  <2> QED BY <2>1, <2>2
<1>5 ASSUME NEW g \in Gs, Fetch(g) PROVE IndInv'
  <2>1 CASE up
    BY <1>5, <2>1 DEF Fetch, KeyOK, EntryExact, Pending, Fresh
  <2>2 CASE ~up
    BY <1>5, <2>2 DEF Fetch, KeyOK, EntryExact, Pending, Fresh
  <2> QED BY <2>1, <2>2
<1>6 ASSUME NEW g \in Gs, Store(g) PROVE IndInv'
  <2>1 pc[g] = "store" /\ upq[g] /\ fetched[g].f = now /\ fetched[g].ttls = ttls[key[g]][fetched[g].gen] /\ key[g] \in Keys
       /\ ent[g] \in Objs /\ okey[ent[g]] = key[g]
    BY <1>6 DEF Store, Pending, KeyOK
  <2>2 Shape' /\ Pending' /\ KeyOK'
    BY <1>6 DEF Store, Pending, KeyOK
  <2>3 EntryExact'
    BY <1>6, <2>1 DEF Store, EntryExact, None
  <2>4 Fresh'
    BY <1>6, <2>1 DEF Store, Fresh
  <2> QED BY <2>2, <2>3, <2>4
<1>7a ASSUME NEW g \in Gs, Abandon(g) PROVE IndInv'
  BY <1>7a DEF Abandon, KeyOK, EntryExact, Pending, Fresh
<1>7b ASSUME NEW g \in Gs, Cancel(g) PROVE IndInv'
  BY <1>7b DEF Cancel, KeyOK, EntryExact, Pending, Fresh
<1>7c ASSUME NEW k \in Keys, Evict(k) PROVE IndInv'
  BY <1>7c DEF Evict, KeyOK, EntryExact, Pending, Fresh
<1>8 ASSUME NEW g \in Gs, Return(g) PROVE IndInv'
  BY <1>8 DEF Return, KeyOK, EntryExact, Pending, Fresh
<1>9 CASE Advance
  BY <1>9 DEF Advance, KeyOK, EntryExact, Pending, Fresh
<1>10 ASSUME NEW k \in Keys, Change(k) PROVE IndInv'
  BY <1>10 DEF Change, KeyOK, EntryExact, Pending, Fresh
<1>11 CASE Toggle
  BY <1>11 DEF Toggle, KeyOK, EntryExact, Pending, Fresh
<1>12 CASE UNCHANGED vars
  BY <1>12 DEF vars, KeyOK, EntryExact, Pending, Fresh
<1> QED BY <1>1, <1>1a, <1>1b, <1>2, <1>3, <1>4, <1>5, <1>6, <1>7a, <1>7b, <1>7c, <1>8, <1>9, <1>10, <1>11, <1>12 DEF Next, GoStep

THEOREM FreshAlways == Spec => [](Fresh /\ EntryExact /\ KeyOK)
<1>1 IndInv => Fresh /\ EntryExact /\ KeyOK
  BY DEF IndInv
<1> QED BY InitInd, StepInd, <1>1, PTL DEF Spec
=============================================================================
