SPECIFICATION Spec
CONSTANTS
 KeySets <- KS1
 MaxLen = 4
 FirstKinds <- FirstAll
 CSyms <- ClientAll
 BSyms <- BackendAll
INVARIANTS TypeOK AtMostOneRetry NotAcceptedNeverAborts InnerOnlyWhenArmed Emit
PROPERTIES DecryptOnlyAfterHRR ArmedOnlyByHRR StickyPassthrough AppDataStopsInspection
CHECK_DEADLOCK FALSE
