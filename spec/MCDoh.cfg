SPECIFICATION Spec
CONSTANTS
  Statuses <- MCStatuses
  Framings <- MCFramings
  Bodies <- MCBodies
  MaxRetry = 4
INVARIANTS Conforms SentOnce SentBounded NoAllocBeforeLength Emit
PROPERTIES Termination NoSendAfterCtx
