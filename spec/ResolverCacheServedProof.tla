------------------------ MODULE ResolverCacheServedProof ------------------------
(* Unbounded version of ServedFromCache ("within the TTL serves repeated lookups from its cache"): for every number of
   goroutines, keys, entry objects and TTL lists, with evictions, failures and cancelled callers, a call that found a valid
   entry in the map never asks upstream before that entry's expiry. TLAPS, inductive invariant Inv; MinOf is only assumed to
   yield a natural number on the TTL lists. *)
EXTENDS ResolverCache, TLAPS

ASSUME KeysNonEmpty == Keys # {}
ASSUME TtlNat == \A s \in TtlSets : MinOf(s) \in Nat
ASSUME GenNat == MaxGen \in Nat
ASSUME GNat == G \in Nat

PCs == {"idle", "get", "add", "fast", "wantlock", "locked", "fetch", "store", "ret"}
Entry == [exp : Int, gen : 0..MaxGen, f : Int, min : Int]
Types == /\ pc \in [Gs -> PCs] /\ key \in [Gs -> Keys] /\ nobj \in Nat /\ now \in Nat
         /\ ttls \in [Keys -> [0..MaxGen -> TtlSets]] /\ gen \in [Keys -> 0..MaxGen]
         /\ objs \in [Objs -> Entry \cup {None}] /\ olock \in [Objs -> Gs \cup {0}]
         /\ cache \in [Keys -> Objs \cup {0}] /\ ent \in [Gs -> Objs \cup {0}]
         /\ hit \in [Gs -> Int] /\ upqAt \in [Gs -> Int] /\ upq \in [Gs -> BOOLEAN]
         /\ DOMAIN fetched = Gs
         /\ \A g \in Gs : pc[g] = "store" => fetched[g].ttls \in TtlSets /\ fetched[g].gen \in 0..MaxGen /\ fetched[g].f \in Int
Working == {"fast", "wantlock", "locked", "fetch", "store"}
EntOK == \A g \in Gs : pc[g] \in Working => ent[g] \in Objs
\* the holder of an object's lock past its re-check works on an object that is not valid (nobody else writes it; time only grows)
HolderInvalid == \A g \in Gs : pc[g] \in {"fetch", "store"} => ~Valid(objs[ent[g]], now)
LockInv == \A g \in Gs : pc[g] \in Held => olock[ent[g]] = g
AddNoHit == \A g \in Gs : pc[g] \in {"get", "add"} => hit[g] = -1
NoUpqYet == \A g \in Gs : pc[g] \in {"get", "add", "fast", "wantlock", "locked", "fetch"} => ~upq[g]
\* the object a call found valid stays filled, and expires no earlier than it did then - unless that instant has passed
HitKept == \A g \in Gs : (pc[g] \in {"fast", "wantlock", "locked"} /\ hit[g] >= 0) =>
              objs[ent[g]] # None /\ (objs[ent[g]].exp >= hit[g] \/ now >= hit[g])
FetchLate == \A g \in Gs : (pc[g] = "fetch" /\ hit[g] >= 0) => now >= hit[g]
Inv == Types /\ EntOK /\ HolderInvalid /\ LockInv /\ AddNoHit /\ NoUpqYet /\ HitKept /\ FetchLate /\ ServedFromCache


THEOREM InitInv == Init => Inv
<1> SUFFICES ASSUME Init PROVE Inv
  OBVIOUS
<1>1 (CHOOSE k \in Keys : TRUE) \in Keys
  BY KeysNonEmpty
<1>2 Objs = {}
  BY DEF Init, Objs
<1>3 Types
  BY <1>1, <1>2, GenNat DEF Init, Types, PCs
<1>4 EntOK /\ HolderInvalid /\ LockInv /\ AddNoHit /\ NoUpqYet /\ HitKept /\ FetchLate /\ ServedFromCache
  BY DEF Init, EntOK, HolderInvalid, LockInv, AddNoHit, NoUpqYet, HitKept, FetchLate, ServedFromCache, Held, Working
<1> QED BY <1>3, <1>4 DEF Inv

LEMMA StepInv == Inv /\ [Next]_vars => Inv'
<1> SUFFICES ASSUME Inv, [Next]_vars PROVE Inv'
  OBVIOUS
<1> USE DEF Inv, Types, Objs, PCs, Held, Working, Entry, Valid
<1>1 ASSUME NEW g \in Gs, NEW k \in Keys, Call(g, k) PROVE Inv'
  <2>1 Types'
    BY <1>1, TtlNat, GenNat DEF Call, EntOK, HolderInvalid, LockInv, AddNoHit, NoUpqYet, HitKept, FetchLate, ServedFromCache, None
  <2>2 EntOK'
    BY <1>1, TtlNat, GenNat DEF Call, EntOK, HolderInvalid, LockInv, AddNoHit, NoUpqYet, HitKept, FetchLate, ServedFromCache, None
  <2>3 HolderInvalid'
    BY <1>1, TtlNat, GenNat DEF Call, EntOK, HolderInvalid, LockInv, AddNoHit, NoUpqYet, HitKept, FetchLate, ServedFromCache, None
  <2>4 LockInv'
    BY <1>1, TtlNat, GenNat DEF Call, EntOK, HolderInvalid, LockInv, AddNoHit, NoUpqYet, HitKept, FetchLate, ServedFromCache, None
  <2>5 AddNoHit'
    BY <1>1, TtlNat, GenNat DEF Call, EntOK, HolderInvalid, LockInv, AddNoHit, NoUpqYet, HitKept, FetchLate, ServedFromCache, None
  <2>6 NoUpqYet'
    BY <1>1, TtlNat, GenNat DEF Call, EntOK, HolderInvalid, LockInv, AddNoHit, NoUpqYet, HitKept, FetchLate, ServedFromCache, None
  <2>7 HitKept'
    BY <1>1, TtlNat, GenNat DEF Call, EntOK, HolderInvalid, LockInv, AddNoHit, NoUpqYet, HitKept, FetchLate, ServedFromCache, None
  <2>8 FetchLate'
    BY <1>1, TtlNat, GenNat DEF Call, EntOK, HolderInvalid, LockInv, AddNoHit, NoUpqYet, HitKept, FetchLate, ServedFromCache, None
  <2>9 ServedFromCache'
    BY <1>1, TtlNat, GenNat DEF Call, EntOK, HolderInvalid, LockInv, AddNoHit, NoUpqYet, HitKept, FetchLate, ServedFromCache, None
  <2> QED BY <2>1, <2>2, <2>3, <2>4, <2>5, <2>6, <2>7, <2>8, <2>9
<1>2 ASSUME NEW g \in Gs, Get(g) PROVE Inv'
  <2>1 Types'
    BY <1>2, TtlNat, GenNat DEF Get, EntOK, HolderInvalid, LockInv, AddNoHit, NoUpqYet, HitKept, FetchLate, ServedFromCache, None
  <2>2 EntOK'
    BY <1>2, TtlNat, GenNat DEF Get, EntOK, HolderInvalid, LockInv, AddNoHit, NoUpqYet, HitKept, FetchLate, ServedFromCache, None
  <2>3 HolderInvalid'
    BY <1>2, TtlNat, GenNat DEF Get, EntOK, HolderInvalid, LockInv, AddNoHit, NoUpqYet, HitKept, FetchLate, ServedFromCache, None
  <2>4 LockInv'
    BY <1>2, TtlNat, GenNat DEF Get, EntOK, HolderInvalid, LockInv, AddNoHit, NoUpqYet, HitKept, FetchLate, ServedFromCache, None
  <2>5 AddNoHit'
    BY <1>2, TtlNat, GenNat DEF Get, EntOK, HolderInvalid, LockInv, AddNoHit, NoUpqYet, HitKept, FetchLate, ServedFromCache, None
  <2>6 NoUpqYet'
    BY <1>2, TtlNat, GenNat DEF Get, EntOK, HolderInvalid, LockInv, AddNoHit, NoUpqYet, HitKept, FetchLate, ServedFromCache, None
  <2>7 HitKept'
    BY <1>2, TtlNat, GenNat DEF Get, EntOK, HolderInvalid, LockInv, AddNoHit, NoUpqYet, HitKept, FetchLate, ServedFromCache, None
  <2>8 FetchLate'
    BY <1>2, TtlNat, GenNat DEF Get, EntOK, HolderInvalid, LockInv, AddNoHit, NoUpqYet, HitKept, FetchLate, ServedFromCache, None
  <2>9 ServedFromCache'
    BY <1>2, TtlNat, GenNat DEF Get, EntOK, HolderInvalid, LockInv, AddNoHit, NoUpqYet, HitKept, FetchLate, ServedFromCache, None
  <2> QED BY <2>1, <2>2, <2>3, <2>4, <2>5, <2>6, <2>7, <2>8, <2>9
<1>3 ASSUME NEW g \in Gs, Add(g) PROVE Inv'
  <2>1 Types'
    BY <1>3, TtlNat, GenNat DEF Add, EntOK, HolderInvalid, LockInv, AddNoHit, NoUpqYet, HitKept, FetchLate, ServedFromCache, None
  <2>2 EntOK'
    BY <1>3, TtlNat, GenNat DEF Add, EntOK, HolderInvalid, LockInv, AddNoHit, NoUpqYet, HitKept, FetchLate, ServedFromCache, None
  <2>3 HolderInvalid'
    BY <1>3, TtlNat, GenNat DEF Add, EntOK, HolderInvalid, LockInv, AddNoHit, NoUpqYet, HitKept, FetchLate, ServedFromCache, None
  <2>4 LockInv'
    BY <1>3, TtlNat, GenNat DEF Add, EntOK, HolderInvalid, LockInv, AddNoHit, NoUpqYet, HitKept, FetchLate, ServedFromCache, None
  <2>5 AddNoHit'
    BY <1>3, TtlNat, GenNat DEF Add, EntOK, HolderInvalid, LockInv, AddNoHit, NoUpqYet, HitKept, FetchLate, ServedFromCache, None
  <2>6 NoUpqYet'
    BY <1>3, TtlNat, GenNat DEF Add, EntOK, HolderInvalid, LockInv, AddNoHit, NoUpqYet, HitKept, FetchLate, ServedFromCache, None
  <2>7 HitKept'
    BY <1>3, TtlNat, GenNat DEF Add, EntOK, HolderInvalid, LockInv, AddNoHit, NoUpqYet, HitKept, FetchLate, ServedFromCache, None
  <2>8 FetchLate'
    BY <1>3, TtlNat, GenNat DEF Add, EntOK, HolderInvalid, LockInv, AddNoHit, NoUpqYet, HitKept, FetchLate, ServedFromCache, None
  <2>9 ServedFromCache'
    BY <1>3, TtlNat, GenNat DEF Add, EntOK, HolderInvalid, LockInv, AddNoHit, NoUpqYet, HitKept, FetchLate, ServedFromCache, None
  <2> QED BY <2>1, <2>2, <2>3, <2>4, <2>5, <2>6, <2>7, <2>8, <2>9
<1>4 ASSUME NEW g \in Gs, FastRead(g) PROVE Inv'
  <2>1 Types'
    BY <1>4, TtlNat, GenNat DEF FastRead, EntOK, HolderInvalid, LockInv, AddNoHit, NoUpqYet, HitKept, FetchLate, ServedFromCache, None
  <2>2 EntOK'
    BY <1>4, TtlNat, GenNat DEF FastRead, EntOK, HolderInvalid, LockInv, AddNoHit, NoUpqYet, HitKept, FetchLate, ServedFromCache, None
  <2>3 HolderInvalid'
    BY <1>4, TtlNat, GenNat DEF FastRead, EntOK, HolderInvalid, LockInv, AddNoHit, NoUpqYet, HitKept, FetchLate, ServedFromCache, None
  <2>4 LockInv'
    BY <1>4, TtlNat, GenNat DEF FastRead, EntOK, HolderInvalid, LockInv, AddNoHit, NoUpqYet, HitKept, FetchLate, ServedFromCache, None
  <2>5 AddNoHit'
    BY <1>4, TtlNat, GenNat DEF FastRead, EntOK, HolderInvalid, LockInv, AddNoHit, NoUpqYet, HitKept, FetchLate, ServedFromCache, None
  <2>6 NoUpqYet'
    BY <1>4, TtlNat, GenNat DEF FastRead, EntOK, HolderInvalid, LockInv, AddNoHit, NoUpqYet, HitKept, FetchLate, ServedFromCache, None
  <2>7 HitKept'
    BY <1>4, TtlNat, GenNat DEF FastRead, EntOK, HolderInvalid, LockInv, AddNoHit, NoUpqYet, HitKept, FetchLate, ServedFromCache, None
  <2>8 FetchLate'
    BY <1>4, TtlNat, GenNat DEF FastRead, EntOK, HolderInvalid, LockInv, AddNoHit, NoUpqYet, HitKept, FetchLate, ServedFromCache, None
  <2>9 ServedFromCache'
    BY <1>4, TtlNat, GenNat DEF FastRead, EntOK, HolderInvalid, LockInv, AddNoHit, NoUpqYet, HitKept, FetchLate, ServedFromCache, None
  <2> QED BY <2>1, <2>2, <2>3, <2>4, <2>5, <2>6, <2>7, <2>8, <2>9
<1>5 ASSUME NEW g \in Gs, Lock(g) PROVE Inv'
  <2>1 Types'
    BY <1>5, TtlNat, GenNat DEF Lock, EntOK, HolderInvalid, LockInv, AddNoHit, NoUpqYet, HitKept, FetchLate, ServedFromCache, None
  <2>2 EntOK'
    BY <1>5, TtlNat, GenNat DEF Lock, EntOK, HolderInvalid, LockInv, AddNoHit, NoUpqYet, HitKept, FetchLate, ServedFromCache, None
  <2>3 HolderInvalid'
    BY <1>5, TtlNat, GenNat DEF Lock, EntOK, HolderInvalid, LockInv, AddNoHit, NoUpqYet, HitKept, FetchLate, ServedFromCache, None
  <2>4 LockInv'
    <3>1 ent[g] \in Objs /\ olock[ent[g]] = 0 /\ pc[g] = "wantlock"
      BY <1>5 DEF Lock, EntOK
    <3>2 \A h \in Gs : h # 0
      BY GNat DEF Gs
    <3>3 \A h \in Gs : (h # g /\ pc[h] \in Held) => ent[h] # ent[g]
      BY <3>1, <3>2 DEF LockInv
    <3> QED BY <1>5, <3>1, <3>3 DEF Lock, LockInv, EntOK
  <2>5 AddNoHit'
    BY <1>5, TtlNat, GenNat DEF Lock, EntOK, HolderInvalid, LockInv, AddNoHit, NoUpqYet, HitKept, FetchLate, ServedFromCache, None
  <2>6 NoUpqYet'
    BY <1>5, TtlNat, GenNat DEF Lock, EntOK, HolderInvalid, LockInv, AddNoHit, NoUpqYet, HitKept, FetchLate, ServedFromCache, None
  <2>7 HitKept'
    BY <1>5, TtlNat, GenNat DEF Lock, EntOK, HolderInvalid, LockInv, AddNoHit, NoUpqYet, HitKept, FetchLate, ServedFromCache, None
  <2>8 FetchLate'
    BY <1>5, TtlNat, GenNat DEF Lock, EntOK, HolderInvalid, LockInv, AddNoHit, NoUpqYet, HitKept, FetchLate, ServedFromCache, None
  <2>9 ServedFromCache'
    BY <1>5, TtlNat, GenNat DEF Lock, EntOK, HolderInvalid, LockInv, AddNoHit, NoUpqYet, HitKept, FetchLate, ServedFromCache, None
  <2> QED BY <2>1, <2>2, <2>3, <2>4, <2>5, <2>6, <2>7, <2>8, <2>9
<1>6 ASSUME NEW g \in Gs, Recheck(g) PROVE Inv'
  <2>1 Types'
    BY <1>6, TtlNat, GenNat DEF Recheck, EntOK, HolderInvalid, LockInv, AddNoHit, NoUpqYet, HitKept, FetchLate, ServedFromCache, None
  <2>2 EntOK'
    BY <1>6, TtlNat, GenNat DEF Recheck, EntOK, HolderInvalid, LockInv, AddNoHit, NoUpqYet, HitKept, FetchLate, ServedFromCache, None
  <2>3 HolderInvalid'
    BY <1>6, TtlNat, GenNat DEF Recheck, EntOK, HolderInvalid, LockInv, AddNoHit, NoUpqYet, HitKept, FetchLate, ServedFromCache, None
  <2>4 LockInv'
    BY <1>6, TtlNat, GenNat DEF Recheck, EntOK, HolderInvalid, LockInv, AddNoHit, NoUpqYet, HitKept, FetchLate, ServedFromCache, None
  <2>5 AddNoHit'
    BY <1>6, TtlNat, GenNat DEF Recheck, EntOK, HolderInvalid, LockInv, AddNoHit, NoUpqYet, HitKept, FetchLate, ServedFromCache, None
  <2>6 NoUpqYet'
    BY <1>6, TtlNat, GenNat DEF Recheck, EntOK, HolderInvalid, LockInv, AddNoHit, NoUpqYet, HitKept, FetchLate, ServedFromCache, None
  <2>7 HitKept'
    BY <1>6, TtlNat, GenNat DEF Recheck, EntOK, HolderInvalid, LockInv, AddNoHit, NoUpqYet, HitKept, FetchLate, ServedFromCache, None
  <2>8 FetchLate'
    BY <1>6, TtlNat, GenNat DEF Recheck, EntOK, HolderInvalid, LockInv, AddNoHit, NoUpqYet, HitKept, FetchLate, ServedFromCache, None
  <2>9 ServedFromCache'
    BY <1>6, TtlNat, GenNat DEF Recheck, EntOK, HolderInvalid, LockInv, AddNoHit, NoUpqYet, HitKept, FetchLate, ServedFromCache, None
  <2> QED BY <2>1, <2>2, <2>3, <2>4, <2>5, <2>6, <2>7, <2>8, <2>9
<1>7 ASSUME NEW g \in Gs, Fetch(g) PROVE Inv'
  <2>1 Types'
    BY <1>7, TtlNat, GenNat DEF Fetch, EntOK, HolderInvalid, LockInv, AddNoHit, NoUpqYet, HitKept, FetchLate, ServedFromCache, None
  <2>2 EntOK'
    BY <1>7, TtlNat, GenNat DEF Fetch, EntOK, HolderInvalid, LockInv, AddNoHit, NoUpqYet, HitKept, FetchLate, ServedFromCache, None
  <2>3 HolderInvalid'
    BY <1>7, TtlNat, GenNat DEF Fetch, EntOK, HolderInvalid, LockInv, AddNoHit, NoUpqYet, HitKept, FetchLate, ServedFromCache, None
  <2>4 LockInv'
    BY <1>7, TtlNat, GenNat DEF Fetch, EntOK, HolderInvalid, LockInv, AddNoHit, NoUpqYet, HitKept, FetchLate, ServedFromCache, None
  <2>5 AddNoHit'
    BY <1>7, TtlNat, GenNat DEF Fetch, EntOK, HolderInvalid, LockInv, AddNoHit, NoUpqYet, HitKept, FetchLate, ServedFromCache, None
  <2>6 NoUpqYet'
    BY <1>7, TtlNat, GenNat DEF Fetch, EntOK, HolderInvalid, LockInv, AddNoHit, NoUpqYet, HitKept, FetchLate, ServedFromCache, None
  <2>7 HitKept'
    BY <1>7, TtlNat, GenNat DEF Fetch, EntOK, HolderInvalid, LockInv, AddNoHit, NoUpqYet, HitKept, FetchLate, ServedFromCache, None
  <2>8 FetchLate'
    BY <1>7, TtlNat, GenNat DEF Fetch, EntOK, HolderInvalid, LockInv, AddNoHit, NoUpqYet, HitKept, FetchLate, ServedFromCache, None
  <2>9 ServedFromCache'
    BY <1>7, TtlNat, GenNat DEF Fetch, EntOK, HolderInvalid, LockInv, AddNoHit, NoUpqYet, HitKept, FetchLate, ServedFromCache, None
  <2> QED BY <2>1, <2>2, <2>3, <2>4, <2>5, <2>6, <2>7, <2>8, <2>9
<1>8 ASSUME NEW g \in Gs, Store(g) PROVE Inv'
  <2>1 Types'
    BY <1>8, TtlNat, GenNat DEF Store, EntOK, HolderInvalid, LockInv, AddNoHit, NoUpqYet, HitKept, FetchLate, ServedFromCache, None
  <2>2 EntOK'
    BY <1>8, TtlNat, GenNat DEF Store, EntOK, HolderInvalid, LockInv, AddNoHit, NoUpqYet, HitKept, FetchLate, ServedFromCache, None
  <2>3 HolderInvalid'
    BY <1>8, TtlNat, GenNat DEF Store, EntOK, HolderInvalid, LockInv, AddNoHit, NoUpqYet, HitKept, FetchLate, ServedFromCache, None
  <2>4 LockInv'
    BY <1>8, TtlNat, GenNat DEF Store, EntOK, HolderInvalid, LockInv, AddNoHit, NoUpqYet, HitKept, FetchLate, ServedFromCache, None
  <2>5 AddNoHit'
    BY <1>8, TtlNat, GenNat DEF Store, EntOK, HolderInvalid, LockInv, AddNoHit, NoUpqYet, HitKept, FetchLate, ServedFromCache, None
  <2>6 NoUpqYet'
    BY <1>8, TtlNat, GenNat DEF Store, EntOK, HolderInvalid, LockInv, AddNoHit, NoUpqYet, HitKept, FetchLate, ServedFromCache, None
  <2>7 HitKept'
    BY <1>8, TtlNat, GenNat DEF Store, EntOK, HolderInvalid, LockInv, AddNoHit, NoUpqYet, HitKept, FetchLate, ServedFromCache, None
  <2>8 FetchLate'
    BY <1>8, TtlNat, GenNat DEF Store, EntOK, HolderInvalid, LockInv, AddNoHit, NoUpqYet, HitKept, FetchLate, ServedFromCache, None
  <2>9 ServedFromCache'
    BY <1>8, TtlNat, GenNat DEF Store, EntOK, HolderInvalid, LockInv, AddNoHit, NoUpqYet, HitKept, FetchLate, ServedFromCache, None
  <2> QED BY <2>1, <2>2, <2>3, <2>4, <2>5, <2>6, <2>7, <2>8, <2>9
<1>9 ASSUME NEW g \in Gs, Abandon(g) PROVE Inv'
  <2>1 Types'
    BY <1>9, TtlNat, GenNat DEF Abandon, EntOK, HolderInvalid, LockInv, AddNoHit, NoUpqYet, HitKept, FetchLate, ServedFromCache, None
  <2>2 EntOK'
    BY <1>9, TtlNat, GenNat DEF Abandon, EntOK, HolderInvalid, LockInv, AddNoHit, NoUpqYet, HitKept, FetchLate, ServedFromCache, None
  <2>3 HolderInvalid'
    BY <1>9, TtlNat, GenNat DEF Abandon, EntOK, HolderInvalid, LockInv, AddNoHit, NoUpqYet, HitKept, FetchLate, ServedFromCache, None
  <2>4 LockInv'
    BY <1>9, TtlNat, GenNat DEF Abandon, EntOK, HolderInvalid, LockInv, AddNoHit, NoUpqYet, HitKept, FetchLate, ServedFromCache, None
  <2>5 AddNoHit'
    BY <1>9, TtlNat, GenNat DEF Abandon, EntOK, HolderInvalid, LockInv, AddNoHit, NoUpqYet, HitKept, FetchLate, ServedFromCache, None
  <2>6 NoUpqYet'
    BY <1>9, TtlNat, GenNat DEF Abandon, EntOK, HolderInvalid, LockInv, AddNoHit, NoUpqYet, HitKept, FetchLate, ServedFromCache, None
  <2>7 HitKept'
    BY <1>9, TtlNat, GenNat DEF Abandon, EntOK, HolderInvalid, LockInv, AddNoHit, NoUpqYet, HitKept, FetchLate, ServedFromCache, None
  <2>8 FetchLate'
    BY <1>9, TtlNat, GenNat DEF Abandon, EntOK, HolderInvalid, LockInv, AddNoHit, NoUpqYet, HitKept, FetchLate, ServedFromCache, None
  <2>9 ServedFromCache'
    BY <1>9, TtlNat, GenNat DEF Abandon, EntOK, HolderInvalid, LockInv, AddNoHit, NoUpqYet, HitKept, FetchLate, ServedFromCache, None
  <2> QED BY <2>1, <2>2, <2>3, <2>4, <2>5, <2>6, <2>7, <2>8, <2>9
<1>10 ASSUME NEW g \in Gs, Return(g) PROVE Inv'
  <2>1 Types'
    BY <1>10, TtlNat, GenNat DEF Return, EntOK, HolderInvalid, LockInv, AddNoHit, NoUpqYet, HitKept, FetchLate, ServedFromCache, None
  <2>2 EntOK'
    BY <1>10, TtlNat, GenNat DEF Return, EntOK, HolderInvalid, LockInv, AddNoHit, NoUpqYet, HitKept, FetchLate, ServedFromCache, None
  <2>3 HolderInvalid'
    BY <1>10, TtlNat, GenNat DEF Return, EntOK, HolderInvalid, LockInv, AddNoHit, NoUpqYet, HitKept, FetchLate, ServedFromCache, None
  <2>4 LockInv'
    BY <1>10, TtlNat, GenNat DEF Return, EntOK, HolderInvalid, LockInv, AddNoHit, NoUpqYet, HitKept, FetchLate, ServedFromCache, None
  <2>5 AddNoHit'
    BY <1>10, TtlNat, GenNat DEF Return, EntOK, HolderInvalid, LockInv, AddNoHit, NoUpqYet, HitKept, FetchLate, ServedFromCache, None
  <2>6 NoUpqYet'
    BY <1>10, TtlNat, GenNat DEF Return, EntOK, HolderInvalid, LockInv, AddNoHit, NoUpqYet, HitKept, FetchLate, ServedFromCache, None
  <2>7 HitKept'
    BY <1>10, TtlNat, GenNat DEF Return, EntOK, HolderInvalid, LockInv, AddNoHit, NoUpqYet, HitKept, FetchLate, ServedFromCache, None
  <2>8 FetchLate'
    BY <1>10, TtlNat, GenNat DEF Return, EntOK, HolderInvalid, LockInv, AddNoHit, NoUpqYet, HitKept, FetchLate, ServedFromCache, None
  <2>9 ServedFromCache'
    BY <1>10, TtlNat, GenNat DEF Return, EntOK, HolderInvalid, LockInv, AddNoHit, NoUpqYet, HitKept, FetchLate, ServedFromCache, None
  <2> QED BY <2>1, <2>2, <2>3, <2>4, <2>5, <2>6, <2>7, <2>8, <2>9
<1>11 ASSUME NEW g \in Gs, Cancel(g) PROVE Inv'
  <2>1 Types'
    BY <1>11, TtlNat, GenNat DEF Cancel, EntOK, HolderInvalid, LockInv, AddNoHit, NoUpqYet, HitKept, FetchLate, ServedFromCache, None
  <2>2 EntOK'
    BY <1>11, TtlNat, GenNat DEF Cancel, EntOK, HolderInvalid, LockInv, AddNoHit, NoUpqYet, HitKept, FetchLate, ServedFromCache, None
  <2>3 HolderInvalid'
    BY <1>11, TtlNat, GenNat DEF Cancel, EntOK, HolderInvalid, LockInv, AddNoHit, NoUpqYet, HitKept, FetchLate, ServedFromCache, None
  <2>4 LockInv'
    BY <1>11, TtlNat, GenNat DEF Cancel, EntOK, HolderInvalid, LockInv, AddNoHit, NoUpqYet, HitKept, FetchLate, ServedFromCache, None
  <2>5 AddNoHit'
    BY <1>11, TtlNat, GenNat DEF Cancel, EntOK, HolderInvalid, LockInv, AddNoHit, NoUpqYet, HitKept, FetchLate, ServedFromCache, None
  <2>6 NoUpqYet'
    BY <1>11, TtlNat, GenNat DEF Cancel, EntOK, HolderInvalid, LockInv, AddNoHit, NoUpqYet, HitKept, FetchLate, ServedFromCache, None
  <2>7 HitKept'
    BY <1>11, TtlNat, GenNat DEF Cancel, EntOK, HolderInvalid, LockInv, AddNoHit, NoUpqYet, HitKept, FetchLate, ServedFromCache, None
  <2>8 FetchLate'
    BY <1>11, TtlNat, GenNat DEF Cancel, EntOK, HolderInvalid, LockInv, AddNoHit, NoUpqYet, HitKept, FetchLate, ServedFromCache, None
  <2>9 ServedFromCache'
    BY <1>11, TtlNat, GenNat DEF Cancel, EntOK, HolderInvalid, LockInv, AddNoHit, NoUpqYet, HitKept, FetchLate, ServedFromCache, None
  <2> QED BY <2>1, <2>2, <2>3, <2>4, <2>5, <2>6, <2>7, <2>8, <2>9
<1>12 ASSUME Advance PROVE Inv'
  <2>1 Types'
    <3>1 now' \in Nat
      <4>1 now \in Nat
        OBVIOUS
      <4>2 now' = now + 1
        BY <1>12 DEF Advance
      <4> QED BY <4>1, <4>2
    <3>2 UNCHANGED <<up, ttls, gen, nobj, objs, okey, olock, cache, pc, key, ent, got, fetched, upq, upqAt, hit, cancelled, last>>
      BY <1>12 DEF Advance
    <3> QED BY <3>1, <3>2
  <2>2 EntOK'
    BY <1>12, TtlNat, GenNat DEF Advance, EntOK, HolderInvalid, LockInv, AddNoHit, NoUpqYet, HitKept, FetchLate, ServedFromCache, None
  <2>3 HolderInvalid'
    BY <1>12, TtlNat, GenNat DEF Advance, EntOK, HolderInvalid, LockInv, AddNoHit, NoUpqYet, HitKept, FetchLate, ServedFromCache, None
  <2>4 LockInv'
    BY <1>12, TtlNat, GenNat DEF Advance, EntOK, HolderInvalid, LockInv, AddNoHit, NoUpqYet, HitKept, FetchLate, ServedFromCache, None
  <2>5 AddNoHit'
    BY <1>12, TtlNat, GenNat DEF Advance, EntOK, HolderInvalid, LockInv, AddNoHit, NoUpqYet, HitKept, FetchLate, ServedFromCache, None
  <2>6 NoUpqYet'
    BY <1>12, TtlNat, GenNat DEF Advance, EntOK, HolderInvalid, LockInv, AddNoHit, NoUpqYet, HitKept, FetchLate, ServedFromCache, None
  <2>7 HitKept'
    BY <1>12, TtlNat, GenNat DEF Advance, EntOK, HolderInvalid, LockInv, AddNoHit, NoUpqYet, HitKept, FetchLate, ServedFromCache, None
  <2>8 FetchLate'
    BY <1>12, TtlNat, GenNat DEF Advance, EntOK, HolderInvalid, LockInv, AddNoHit, NoUpqYet, HitKept, FetchLate, ServedFromCache, None
  <2>9 ServedFromCache'
    BY <1>12, TtlNat, GenNat DEF Advance, EntOK, HolderInvalid, LockInv, AddNoHit, NoUpqYet, HitKept, FetchLate, ServedFromCache, None
  <2> QED BY <2>1, <2>2, <2>3, <2>4, <2>5, <2>6, <2>7, <2>8, <2>9
<1>13 ASSUME NEW k \in Keys, Change(k) PROVE Inv'
  <2>1 Types'
    BY <1>13, TtlNat, GenNat DEF Change, EntOK, HolderInvalid, LockInv, AddNoHit, NoUpqYet, HitKept, FetchLate, ServedFromCache, None
  <2>2 EntOK'
    BY <1>13, TtlNat, GenNat DEF Change, EntOK, HolderInvalid, LockInv, AddNoHit, NoUpqYet, HitKept, FetchLate, ServedFromCache, None
  <2>3 HolderInvalid'
    BY <1>13, TtlNat, GenNat DEF Change, EntOK, HolderInvalid, LockInv, AddNoHit, NoUpqYet, HitKept, FetchLate, ServedFromCache, None
  <2>4 LockInv'
    BY <1>13, TtlNat, GenNat DEF Change, EntOK, HolderInvalid, LockInv, AddNoHit, NoUpqYet, HitKept, FetchLate, ServedFromCache, None
  <2>5 AddNoHit'
    BY <1>13, TtlNat, GenNat DEF Change, EntOK, HolderInvalid, LockInv, AddNoHit, NoUpqYet, HitKept, FetchLate, ServedFromCache, None
  <2>6 NoUpqYet'
    BY <1>13, TtlNat, GenNat DEF Change, EntOK, HolderInvalid, LockInv, AddNoHit, NoUpqYet, HitKept, FetchLate, ServedFromCache, None
  <2>7 HitKept'
    BY <1>13, TtlNat, GenNat DEF Change, EntOK, HolderInvalid, LockInv, AddNoHit, NoUpqYet, HitKept, FetchLate, ServedFromCache, None
  <2>8 FetchLate'
    BY <1>13, TtlNat, GenNat DEF Change, EntOK, HolderInvalid, LockInv, AddNoHit, NoUpqYet, HitKept, FetchLate, ServedFromCache, None
  <2>9 ServedFromCache'
    BY <1>13, TtlNat, GenNat DEF Change, EntOK, HolderInvalid, LockInv, AddNoHit, NoUpqYet, HitKept, FetchLate, ServedFromCache, None
  <2> QED BY <2>1, <2>2, <2>3, <2>4, <2>5, <2>6, <2>7, <2>8, <2>9
<1>14 ASSUME NEW k \in Keys, Evict(k) PROVE Inv'
  <2>1 Types'
    BY <1>14, TtlNat, GenNat DEF Evict, EntOK, HolderInvalid, LockInv, AddNoHit, NoUpqYet, HitKept, FetchLate, ServedFromCache, None
  <2>2 EntOK'
    BY <1>14, TtlNat, GenNat DEF Evict, EntOK, HolderInvalid, LockInv, AddNoHit, NoUpqYet, HitKept, FetchLate, ServedFromCache, None
  <2>3 HolderInvalid'
    BY <1>14, TtlNat, GenNat DEF Evict, EntOK, HolderInvalid, LockInv, AddNoHit, NoUpqYet, HitKept, FetchLate, ServedFromCache, None
  <2>4 LockInv'
    BY <1>14, TtlNat, GenNat DEF Evict, EntOK, HolderInvalid, LockInv, AddNoHit, NoUpqYet, HitKept, FetchLate, ServedFromCache, None
  <2>5 AddNoHit'
    BY <1>14, TtlNat, GenNat DEF Evict, EntOK, HolderInvalid, LockInv, AddNoHit, NoUpqYet, HitKept, FetchLate, ServedFromCache, None
  <2>6 NoUpqYet'
    BY <1>14, TtlNat, GenNat DEF Evict, EntOK, HolderInvalid, LockInv, AddNoHit, NoUpqYet, HitKept, FetchLate, ServedFromCache, None
  <2>7 HitKept'
    BY <1>14, TtlNat, GenNat DEF Evict, EntOK, HolderInvalid, LockInv, AddNoHit, NoUpqYet, HitKept, FetchLate, ServedFromCache, None
  <2>8 FetchLate'
    BY <1>14, TtlNat, GenNat DEF Evict, EntOK, HolderInvalid, LockInv, AddNoHit, NoUpqYet, HitKept, FetchLate, ServedFromCache, None
  <2>9 ServedFromCache'
    BY <1>14, TtlNat, GenNat DEF Evict, EntOK, HolderInvalid, LockInv, AddNoHit, NoUpqYet, HitKept, FetchLate, ServedFromCache, None
  <2> QED BY <2>1, <2>2, <2>3, <2>4, <2>5, <2>6, <2>7, <2>8, <2>9
<1>15 ASSUME Toggle PROVE Inv'
  <2>1 Types'
    BY <1>15, TtlNat, GenNat DEF Toggle, EntOK, HolderInvalid, LockInv, AddNoHit, NoUpqYet, HitKept, FetchLate, ServedFromCache, None
  <2>2 EntOK'
    BY <1>15, TtlNat, GenNat DEF Toggle, EntOK, HolderInvalid, LockInv, AddNoHit, NoUpqYet, HitKept, FetchLate, ServedFromCache, None
  <2>3 HolderInvalid'
    BY <1>15, TtlNat, GenNat DEF Toggle, EntOK, HolderInvalid, LockInv, AddNoHit, NoUpqYet, HitKept, FetchLate, ServedFromCache, None
  <2>4 LockInv'
    BY <1>15, TtlNat, GenNat DEF Toggle, EntOK, HolderInvalid, LockInv, AddNoHit, NoUpqYet, HitKept, FetchLate, ServedFromCache, None
  <2>5 AddNoHit'
    BY <1>15, TtlNat, GenNat DEF Toggle, EntOK, HolderInvalid, LockInv, AddNoHit, NoUpqYet, HitKept, FetchLate, ServedFromCache, None
  <2>6 NoUpqYet'
    BY <1>15, TtlNat, GenNat DEF Toggle, EntOK, HolderInvalid, LockInv, AddNoHit, NoUpqYet, HitKept, FetchLate, ServedFromCache, None
  <2>7 HitKept'
    BY <1>15, TtlNat, GenNat DEF Toggle, EntOK, HolderInvalid, LockInv, AddNoHit, NoUpqYet, HitKept, FetchLate, ServedFromCache, None
  <2>8 FetchLate'
    BY <1>15, TtlNat, GenNat DEF Toggle, EntOK, HolderInvalid, LockInv, AddNoHit, NoUpqYet, HitKept, FetchLate, ServedFromCache, None
  <2>9 ServedFromCache'
    BY <1>15, TtlNat, GenNat DEF Toggle, EntOK, HolderInvalid, LockInv, AddNoHit, NoUpqYet, HitKept, FetchLate, ServedFromCache, None
  <2> QED BY <2>1, <2>2, <2>3, <2>4, <2>5, <2>6, <2>7, <2>8, <2>9
<1>16 CASE UNCHANGED vars
  BY <1>16 DEF vars, EntOK, HolderInvalid, LockInv, AddNoHit, NoUpqYet, HitKept, FetchLate, ServedFromCache
<1> QED BY <1>1, <1>2, <1>3, <1>4, <1>5, <1>6, <1>7, <1>8, <1>9, <1>10, <1>11, <1>12, <1>13, <1>14, <1>15, <1>16 DEF Next, GoStep

THEOREM ServedAlways == Spec => []ServedFromCache
<1>1 Inv => ServedFromCache
  BY DEF Inv
<1> QED BY InitInv, StepInv, <1>1, PTL DEF Spec
=============================================================================
