SPECIFICATION Spec
CONSTANTS
 KeySets <- KS3
 MaxLen = 8
 FirstKinds <- FirstAll
 CSyms <- ClientAll
 BSyms <- BackendAll
INVARIANTS TypeOK AtMostOneRetry NotAcceptedNeverAborts InnerOnlyWhenArmed Emit
PROPERTIES DecryptOnlyAfterHRR ArmedOnlyByHRR StickyPassthrough AppDataStopsInspection
CHECK_DEADLOCK FALSE
