---------------------------- MODULE MCPublish ----------------------------
EXTENDS Publish, Json
P == << "alpn=h2", "port=8443" >>
R(nm, pg, ps) == [name |-> nm, page |-> pg, params |-> ps]
ParamLists == { <<>>, <<"alpn=h2">>, <<"key65400=a  b", "ech=old", "alpn=h2">>, <<"alpn=h2", "ech=C1x">>, <<"no-default-alpn", "alpn=h3", "ech=old">>, <<"alpn=h3", "no-default-alpn">>, <<"alpn=h2", "ech=old">>, <<"ech=old", "alpn=h2">>, <<"ech=C1">>, <<"alpn=h2", "ech=C1", "port=8443">>,
                \* a value with two ech entries, the current list first and a stale one last (the last one is what a reader of the
                \* value ends up with): not "already current"
                <<"ech=C1", "alpn=h2", "ech=old">> }
ParamLists2 == { <<>>, <<"alpn=h2">>, <<"ech=old", "port=8443">> }
RecSetsAll == { << R("a", 1, pa), R("b", 3, pb), R("c", 2, <<"alpn=h3", "ech=old", "no-default-alpn">>) >> : pa \in ParamLists, pb \in ParamLists2 }
              \cup { << R("a", 1, pa) >> : pa \in ParamLists } \cup { <<>> }
T(z, n) == [zone |-> z, name |-> n]
TLAll == { <<T("z1", "a")>>, <<T("z1", "a"), T("z3", "a")>>, <<T("z3", "b"), T("z1", "b"), T("z3", "a")>>, <<T("z1", "a"), T("z1", "b")>>, <<T("z1", "m"), T("z1", "b"), T("z1", "a")>>, <<T("z1", "a"), T("z1", "a")>>,
           <<T("z2", "x"), T("z1", "a")>>, <<T("z1", "b"), T("z2", "x"), T("z1", "b")>>, <<>> }
CfgAll == {"C1", "C2"}
FailAll == { NoFail, [kind |-> "zone", n |-> 1], [kind |-> "page", n |-> 1], [kind |-> "page", n |-> 2], [kind |-> "page", n |-> 3],
             [kind |-> "patch", n |-> 1], [kind |-> "patch", n |-> 2] }
RecSetsSmall == { << R("a", 1, <<"alpn=h2", "ech=old">>), R("b", 3, <<"ech=old", "port=8443">>), R("c", 2, <<"alpn=h3", "ech=old">>) >>,
                  << R("a", 1, <<"ech=C1">>), R("b", 3, <<"alpn=h2">>), R("c", 2, <<"alpn=h3", "ech=old">>) >>,
                  << R("a", 1, <<>>) >>,
                  << R("a", 1, <<"ech=C1", "alpn=h2", "ech=old">>), R("b", 3, <<"alpn=h2">>), R("c", 2, <<"ech=C2", "ech=C1x">>) >>,
                  << R("a", 1, <<"key65400=a  b", "ech=old", "alpn=h2">>), R("b", 3, <<"alpn=h2">>), R("c", 2, <<"alpn=h3", "ech=old">>) >>,
                  \* a record without any parameter on the last page (same position as a parameter-rich one on the page before)
                  << R("a", 1, <<"alpn=h2">>), R("b", 3, <<>>), R("c", 2, <<"alpn=h3", "ech=old", "no-default-alpn">>) >> }
TLSmall == { <<T("z1", "a"), T("z3", "a"), T("z1", "b")>>, <<T("z3", "b"), T("z1", "b")>>, <<T("z1", "a"), T("z1", "b")>>, <<T("z1", "a"), T("z1", "a")>>, <<T("z2", "x"), T("z1", "b"), T("z1", "a")>>, <<T("z1", "m"), T("z1", "a")>> }
FailSmall == { NoFail, [kind |-> "page", n |-> 2], [kind |-> "patch", n |-> 1], [kind |-> "zone", n |-> 1] }
Slim(c) == [targets |-> c.targets, cfg |-> c.cfg, fail |-> c.fail, results |-> c.results, patches |-> c.patches, after |-> c.after]
Emit == ncalls = MaxCalls => PrintT(<<"CASE", ToJson([init |-> calls[1].before, calls |-> [j \in DOMAIN calls |-> Slim(calls[j])]])>>)
=============================================================================
