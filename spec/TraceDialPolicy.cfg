INIT TraceInit
NEXT TraceNext
CONSTANTS MaxN = 3
CONSTRAINT HighWater
INVARIANTS NeverWithoutECH CallerECHKept FromOwnRecord ServerNameFromCaller OneRetryExact
POSTCONDITION TraceAccepted
CHECK_DEADLOCK FALSE
