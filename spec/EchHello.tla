------------------------------ MODULE EchHello ------------------------------
(* The client-facing server's decision procedure for a first ClientHello
   (draft-ietf-tls-esni 5.1, 7, 7.1, Appendix B; ech.go handleClientHello /
   processEncryptedClientHello), over an abstract ClientHello syntax and a
   symbolic (Dolev-Yao) HPKE.

   A case is fixed in Init: an honest client hello built from a layout library
   (Build), a key list held by the server, and one operator applied to it
   (a tamper after sealing, a protocol fault before sealing, or a reason for
   non-acceptance).  Next is the procedure, one code block per step.  The
   listed properties are stated declaratively on the terminal state:

     Req_C02  acceptance only for an authentic payload bound to the exact outer hello
     Req_C03  the accepted inner hello is the committed one, byte for byte
     Req_C04  every rule violation aborts with the mandated alert class
     Req_C05  no acceptance => the outer hello is forwarded untouched
     Req_C09  the outcome depends only on holding the key the client sealed to     *)
EXTENDS Integers, Sequences, FiniteSets, TLC

CONSTANTS OuterNames, InnerNames,   \* which layouts of the library to use
          KeyLists,                 \* set of key-name sequences the server may hold
          ClientKeys,               \* key names the client may seal to
          Ops,                      \* operators to apply
          Pads, Sids

\* --------------------------------------------------------------- syntax
E(t, v) == [t |-> t, v |-> v]
NoEch     == [type |-> "none"]
InnerEch  == [type |-> "inner"]
BadEch    == [type |-> "bad"]
ZeroCt    == [ok |-> FALSE, zero |-> TRUE]
NoEoe     == <<>>

\* outer extension layouts (values: the outer's own)
OuterLayout(nm) ==
  CASE nm = "O1" -> << E("sni","pub"), E("sg","g"), E("ks","k"), E("sv","13"), E("ech","E") >>
    [] nm = "O2" -> << E("gr","r"), E("sni","pub"), E("sg","g"), E("x1","x"), E("ks","k"), E("sv","13"), E("ech","E"), E("alpn","ao") >>
    [] nm = "O3" -> << E("sni","pub"), E("sv","13"), E("ech","E") >>
    [] nm = "O5" -> << E("sni","pub"), E("x1","x"), E("sg","g"), E("x1","x2"), E("ks","k"), E("sv","13"), E("ech","E") >>   \* a type carried twice: a reference takes the first occurrence after the previous one (Appendix B forward scan)
    [] nm = "O4" -> << E("ech","E"), E("sv","13"), E("ks","k"), E("psk","p"), E("sni","pub") >>

\* expanded inner layouts (values: the inner's own; compressed ones take the outer's value)
InnerLayout(nm) ==
  CASE nm = "I1" -> << E("sni","priv"), E("sg","gi"), E("ks","ki"), E("alpn","ai"), E("sv","13"), E("ech","I") >>
    [] nm = "I2" -> << E("ech","I"), E("sv","13"), E("sni","priv"), E("x1","xi"), E("sg","gi"), E("ks","ki"), E("alpn","ai") >>
    [] nm = "I3" -> << E("sni","priv"), E("sv","13"), E("ech","I") >>
    [] nm = "I4" -> << E("sni","priv"), E("alpn","ai"), E("sv","13"), E("ech","I"), E("ks","ki"), E("psk","pi") >>
    [] nm = "I5" -> << E("sv","13"), E("ks","ki"), E("ech","I") >>                      \* no server name, no ALPN (a client dialling an IP literal)
    [] nm = "I7" -> << E("sni","priv"), E("sg","gi"), E("p21","z"), E("ks","ki"), E("sv","13"), E("ech","I") >>   \* an RFC 7685 padding extension is part of the hello like any other
    [] nm = "I6" -> << E("sni","priv"), E("sv","13"), E("ech","I"), E("alpn","ai"), E("x0","") >>   \* the hello ends in an extension with an empty body: its last bytes are zero, like the padding that follows

Compressible == {"sg", "ks", "x1", "gr", "psk"}

Types(s) == [i \in DOMAIN s |-> s[i].t]
PosOf(s, t, from) == IF \E i \in from..Len(s) : s[i].t = t
                     THEN CHOOSE i \in from..Len(s) : s[i].t = t /\ \A j \in from..(i-1) : s[j].t # t
                     ELSE 0

\* is the type sequence ts an order-preserving subsequence of the outer extension list o, scanning from cursor p?
RECURSIVE SubseqFrom(_, _, _)
SubseqFrom(ts, o, p) ==
  IF ts = <<>> THEN TRUE
  ELSE LET q == PosOf(o, Head(ts), p) IN IF q = 0 THEN FALSE ELSE SubseqFrom(Tail(ts), o, q + 1)

\* runs [a..b] of the inner layout that an honest client may compress against outer o
Runs(inn, o) ==
  {<<0, 0>>} \cup
  { ab \in (1..Len(inn)) \X (1..Len(inn)) :
       /\ ab[1] <= ab[2]
       /\ \A i \in ab[1]..ab[2] : inn[i].t \in Compressible
       /\ SubseqFrom([i \in 1..(ab[2]-ab[1]+1) |-> inn[ab[1]+i-1].t], o, 1) }

OuterVal(o, t) == o[PosOf(o, t, 1)].v

\* the inner hello the client commits to: compressed positions carry the outer's values
Expanded(inn, o, run) ==
  [i \in 1..Len(inn) |-> IF run[1] # 0 /\ i \in run[1]..run[2] THEN E(inn[i].t, OuterVal(o, inn[i].t)) ELSE inn[i]]

\* EncodedClientHelloInner: the run is replaced by one ech_outer_extensions marker
EncodedExts(inn, run) ==
  IF run[1] = 0 THEN inn
  ELSE SubSeq(inn, 1, run[1]-1) \o << E("eoe", "E") >> \o SubSeq(inn, run[2]+1, Len(inn))
EoeList(inn, run) == IF run[1] = 0 THEN NoEoe ELSE [i \in 1..(run[2]-run[1]+1) |-> inn[run[1]+i-1].t]

\* --------------------------------------------------------------- keys and symbolic HPKE
Suites == {"s1", "s2", "s3"}
KeyPool(nm) ==
  CASE nm = "K1"  -> [kid |-> "k1", cid |-> 7, suites |-> {"s1","s2","s3"}, pub |-> "pub",  cfg |-> "c1", dec |-> TRUE]
    [] nm = "K2"  -> [kid |-> "k2", cid |-> 7, suites |-> {"s1","s2","s3"}, pub |-> "pub",  cfg |-> "c2", dec |-> TRUE]
    [] nm = "K3"  -> [kid |-> "k3", cid |-> 7, suites |-> {"s1","s3"},      pub |-> "pubB", cfg |-> "c3", dec |-> TRUE]
    [] nm = "K4"  -> [kid |-> "k4", cid |-> 8, suites |-> {"s1","s2","s3"}, pub |-> "pub",  cfg |-> "c4", dec |-> TRUE]
    [] nm = "K5"  -> [kid |-> "k5", cid |-> 7, suites |-> {"s2"},           pub |-> "pub",  cfg |-> "c5", dec |-> TRUE]
    [] nm = "K6"  -> [kid |-> "k6", cid |-> 7, suites |-> {"s1","s2","s3"}, pub |-> "pub",  cfg |-> "c6", dec |-> TRUE]
    [] nm = "K7"  -> [kid |-> "k7", cid |-> 9, suites |-> {"s1","s4"},      pub |-> "pub",  cfg |-> "c7", dec |-> TRUE]   \* its config also lists s4, a suite whose KDF the server cannot run
    [] nm = "K8"  -> [kid |-> "k8", cid |-> 7, suites |-> {"s4","s1","s2"}, pub |-> "pub", cfg |-> "c8", dec |-> TRUE]   \* its config lists the unimplemented-KDF suite s4 FIRST, then suites the server can serve
    [] nm = "KP"  -> [kid |-> "kp", cid |-> 10, suites |-> {"s1","s2","s3"}, pub |-> "pub", cfg |-> "cp", dec |-> FALSE]  \* a held key for a KEM the server's HPKE does not implement (P-256), under an id no client of the model uses: never a candidate
    [] nm = "KX"  -> [kid |-> "kx", cid |-> 7, suites |-> {"s1","s2","s3"}, pub |-> "pub",  cfg |-> "cx", dec |-> FALSE]  \* a held entry whose config bytes do not decode (unknown version): ignored
    [] nm = "K1b" -> [kid |-> "k1", cid |-> 7, suites |-> {"s1","s2","s3"}, pub |-> "pub",  cfg |-> "c1b", dec |-> TRUE]  \* same key material, other config bytes

Aad(h) == [h EXCEPT !.ech.ct = ZeroCt]

\* AEAD open under the context derived from key k and the hello's enc (info = config bytes of k)
OpenOK(k, h) ==
  LET e == h.ech IN
  /\ e.type = "outer" /\ e.ct.ok
  /\ e.suite \in Suites                   \* a suite the server's HPKE implements (s4 = HKDF-SHA384 is listed by K7's config but not implemented: the key is skipped)
  /\ e.enc.to = k.kid                      \* decapsulation with the right private key
  /\ e.ct.kid = k.kid /\ e.ct.enc = e.enc.id
  /\ e.ct.suite = e.suite
  /\ e.ct.info = k.cfg
  /\ e.ct.aad = Aad(h)

\* --------------------------------------------------------------- honest client
Honest(onm, inm, run, pad, sid, ck, suite) ==
  LET o    == OuterLayout(onm)
      inn  == InnerLayout(inm)
      k    == KeyPool(ck)
      enci == [sid |-> "", exts |-> EncodedExts(inn, run), ech |-> InnerEch, eoe |-> EoeList(inn, run), pad |-> pad]
      exts == [i \in 1..Len(o) |-> IF o[i].t = "sni" THEN E("sni", k.pub) ELSE o[i]]
      h0   == [sid |-> sid, exts |-> exts, eoe |-> NoEoe, pad |-> "none",
               ech |-> [type |-> "outer", cid |-> k.cid, suite |-> suite, enc |-> [to |-> k.kid, id |-> "e1"], ct |-> ZeroCt, trail |-> FALSE]]
      ct   == [ok |-> TRUE, zero |-> FALSE, kid |-> k.kid, enc |-> "e1", suite |-> suite, info |-> k.cfg, aad |-> h0, pt |-> enci]
  IN [h0 EXCEPT !.ech.ct = ct]

\* re-seal an (altered) encoded inner hello under the same outer
Reseal(h, enci) == LET h0 == Aad(h) IN [h EXCEPT !.ech.ct = [h.ech.ct EXCEPT !.aad = h0, !.pt = enci]]
Pt(h) == h.ech.ct.pt

SwapAt(s, i) == [j \in DOMAIN s |-> IF j = i THEN s[i+1] ELSE IF j = i+1 THEN s[i] ELSE s[j]]
DropAt(s, i) == SubSeq(s, 1, i-1) \o SubSeq(s, i+1, Len(s))
SetV(s, i, v) == [s EXCEPT ![i] = E(s[i].t, v)]
SetT(s, i, t) == [s EXCEPT ![i] = E(t, s[i].v)]
IdxT(s, t) == PosOf(s, t, 1)

\* ---- operators.  Each yields the hello actually sent.
Apply(op, h) ==
  LET x == h.exts  p == Pt(h)  px == p.exts IN
  CASE op = "none"        -> h
    \* -- structural damage (C04 truncations, C08): applied by the concretiser at EVERY length-prefixed node of the
    \*    outer hello ("structOuter") or of the encoded inner hello before sealing ("structInner"); kinds: declared
    \*    length +1, -1, content truncated by one byte
    [] op \in {"structOuter", "structInner"} -> h
    \* -- tampering after sealing (C02): anything that changes the outer hello or the payload
    [] op = "swap1"       -> [h EXCEPT !.exts = SwapAt(x, 1)]
    [] op = "swapLast"    -> [h EXCEPT !.exts = SwapAt(x, Len(x)-1)]
    [] op = "drop2"       -> [h EXCEPT !.exts = DropAt(x, IF x[2].t = "ech" THEN 1 ELSE 2)]
    [] op = "addExt"      -> [h EXCEPT !.exts = x \o << E("x2", "y") >>]
    [] op = "changeVal"   -> [h EXCEPT !.exts = SetV(x, IdxT(x, "sv"), "13b")]
    [] op = "changeSid"   -> [h EXCEPT !.sid = "sX"]
    [] op = "changeCid"   -> [h EXCEPT !.ech.cid = 8]
    [] op = "changeSuite" -> [h EXCEPT !.ech.suite = IF h.ech.suite = "s1" THEN "s3" ELSE "s1"]
    [] op = "otherEnc"    -> [h EXCEPT !.ech.enc = [to |-> h.ech.enc.to, id |-> "e2"]]    \* a different encapsulation to the same key
    [] op = "encToOther"  -> [h EXCEPT !.ech.enc = [to |-> "k2", id |-> "e3"]]
    [] op = "truncEnc"    -> [h EXCEPT !.ech.enc = [to |-> "malformed", id |-> "e4"]]
    [] op = "flipCt"      -> [h EXCEPT !.ech.ct.ok = FALSE]
    [] op = "truncCt"     -> [h EXCEPT !.ech.ct.ok = FALSE]
    [] op \in {"tinyCt", "emptyCt"} -> [h EXCEPT !.ech.ct.ok = FALSE]     \* a payload shorter than an AEAD tag (5 bytes / none at all)
    [] op = "echTrailing" -> [h EXCEPT !.ech.trail = TRUE]                                 \* bytes appended after the payload inside the ECH extension
    [] op = "wrongInfo"   -> [h EXCEPT !.ech.ct.info = "c1b"]                              \* sealed to the same key under other config bytes
    \* an enc that is a small-order X25519 point: the DH output is all zero whatever the private key, so the payload - sealed under the
    \* context derived from an empty ("lowEncNil") or all-zero ("lowEncZero") DH output - was made without anybody's key; HPKE
    \* (RFC 9180 7.1.4) has the recipient fail the decapsulation
    [] op \in {"lowEncNil", "lowEncZero"} -> LET h1 == [h EXCEPT !.ech.enc = [to |-> "loworder", id |-> (IF op = "lowEncNil" THEN "e5" ELSE "e6")]]
                                             IN [h1 EXCEPT !.ech.ct = [h.ech.ct EXCEPT !.enc = h1.ech.enc.id, !.aad = Aad(h1)]]
    [] op \in {"unlistedSuite", "otherCid"} -> h      \* (see ApplyK: needs the client's key)
    \* -- reasons for non-acceptance (C05)
    [] op = "noEch"       -> [h EXCEPT !.exts = DropAt(x, IdxT(x, "ech")), !.ech = NoEch]
    [] op = "grease"      -> [h EXCEPT !.ech.cid = 99, !.ech.ct.ok = FALSE]
    \*    (the payload is sealed over the hello as sent: only the missing TLS 1.3 offer keeps it from being accepted)
    [] op = "no13"        -> Reseal([h EXCEPT !.exts = SetV(x, IdxT(x, "sv"), "12")], p)
    [] op = "noSv"        -> Reseal([h EXCEPT !.exts = DropAt(x, IdxT(x, "sv"))], p)
    \* -- illegal hellos (C04), outer level
    [] op = "eoeInOuter"  -> [h EXCEPT !.exts = x \o << E("eoe", "E") >>, !.eoe = << "ks" >>]
    [] op = "innerTypeInOuter" -> [h EXCEPT !.ech = InnerEch]
    [] op = "badEchType"  -> [h EXCEPT !.ech = BadEch]
    [] op = "emptyEnc"    -> [h EXCEPT !.ech.enc = [to |-> "empty", id |-> "e0"]]
    [] op = "dupEchBefore" -> LET q == IdxT(x, "ech") IN Reseal([h EXCEPT !.exts = SubSeq(x, 1, q-1) \o << E("echdup", "D") >> \o SubSeq(x, q, Len(x))], p)
    [] op = "dupEchInnerBefore" -> LET q == IdxT(x, "ech") IN Reseal([h EXCEPT !.exts = SubSeq(x, 1, q-1) \o << E("echdupi", "D") >> \o SubSeq(x, q, Len(x))], p)
    [] op = "dupEchAfter"  -> Reseal([h EXCEPT !.exts = x \o << E("echdup", "D") >>], p)
    \* -- malformed contents of well-known extensions (outer hello / inside an authentic payload)
    [] op = "svOdd"        -> [h EXCEPT !.exts = SetV(x, IdxT(x, "sv"), "odd")]
    [] op = "sniNameType"  -> [h EXCEPT !.exts = SetV(x, IdxT(x, "sni"), "badtype")]
    [] op = "sniTwoNames"  -> [h EXCEPT !.exts = SetV(x, IdxT(x, "sni"), "two")]
    [] op = "innerSvOdd"   -> Reseal(h, [p EXCEPT !.exts = SetV(px, IdxT(px, "sv"), "odd")])
    [] op = "innerSniNameType" -> Reseal(h, [p EXCEPT !.exts = SetV(px, IdxT(px, "sni"), "badtype")])
    [] op = "innerTypeNo13" -> [h EXCEPT !.ech = InnerEch, !.exts = SetV(x, IdxT(x, "sv"), "12")]   \* two faults at once: still illegal
    [] op = "sniKelvin"   -> LET h1 == [h EXCEPT !.exts = SetV(x, IdxT(x, "sni"), "pubKelvin")] IN Reseal(h1, p)   \* the public name with its "k" written as U+212A (equal only under Unicode case folding)
    [] op = "sniNotPublic" -> LET h1 == [h EXCEPT !.exts = SetV(x, IdxT(x, "sni"), "other")] IN Reseal(h1, p)
    [] op = "noOuterSni"  -> LET h1 == [h EXCEPT !.exts = DropAt(x, IdxT(x, "sni"))] IN Reseal(h1, p)
    \* -- illegal hellos (C04), inside an authentic payload
    [] op = "noInnerEch"  -> Reseal(h, [p EXCEPT !.exts = DropAt(px, IdxT(px, "ech")), !.ech = NoEch])
    [] op = "outerTypeInInner" -> Reseal(h, [p EXCEPT !.ech = [type |-> "outer0"]])
    [] op = "innerNo13"   -> Reseal(h, [p EXCEPT !.exts = SetV(px, IdxT(px, "sv"), "12")])
    [] op = "innerNoSv"   -> Reseal(h, [p EXCEPT !.exts = DropAt(px, IdxT(px, "sv"))])
    [] op = "nonZeroPad"  -> Reseal(h, [p EXCEPT !.pad = "nonzero"])
    [] op = "eoeOdd"      -> Reseal(h, [p EXCEPT !.eoe = p.eoe \o << "ODD" >>])
    [] op = "eoeNoData"   -> Reseal(h, [p EXCEPT !.eoe = << "NODATA" >>])      \* the ech_outer_extensions extension with a zero-length body (not even the list length)
    [] op = "eoeEmptyList" -> Reseal(h, [p EXCEPT !.eoe = << "EMPTYLIST" >>])  \* ... or with an empty list
    [] op = "eoeBadLen"   -> Reseal(h, [p EXCEPT !.eoe = << "BADLEN" >> \o p.eoe])
    [] op = "eoeOutOfOrder" -> Reseal(h, [p EXCEPT !.eoe = SwapAt(p.eoe, 1)])
    [] op = "eoeAmplify"  -> Reseal(h, [p EXCEPT !.eoe = [i \in 1..100 |-> p.eoe[1]]])   \* one outer extension referenced a hundred times
    [] op = "eoeRepeated" -> Reseal(h, [p EXCEPT !.eoe = << p.eoe[1] >> \o p.eoe])
    [] op = "eoeMissing"  -> Reseal(h, [p EXCEPT !.eoe = p.eoe \o << "x9" >>])
    [] op = "eoeRefsEch"  -> Reseal(h, [p EXCEPT !.eoe = p.eoe \o << "ech" >>])
    [] op = "eoeRefsEoe"  -> Reseal(h, [p EXCEPT !.eoe = << "eoe" >> \o p.eoe])
    [] op = "eoeTwice"    -> Reseal(h, [p EXCEPT !.exts = px \o << E("eoe", "E") >>])
    [] op = "eoeRefsSni"  -> LET q == IdxT(px, "sni") IN      \* legal but unusual: the inner takes the outer's server name by reference
                             Reseal(h, [p EXCEPT !.exts = SubSeq(px, 1, q-1) \o << E("eoe","E") >> \o SubSeq(px, q+1, Len(px)), !.eoe = << "sni" >>])

\* a hello sealed - correctly - with an HPKE suite the config of the key does not list
ApplyK(op, h, k) ==
  IF op = "unlistedSuite"
  THEN LET s2 == CHOOSE x \in Suites : x \notin k.suites
           h1 == [h EXCEPT !.ech.suite = s2]
       IN [h1 EXCEPT !.ech.ct = [h.ech.ct EXCEPT !.suite = s2, !.aad = Aad(h1)]]
  ELSE IF op = "otherCid"      \* sealed to the client's key, but naming the config id of another key (before sealing: the AAD is consistent)
  THEN LET h1 == [h EXCEPT !.ech.cid = IF k.cid = 7 THEN 8 ELSE 7]
       IN [h1 EXCEPT !.ech.ct = [h.ech.ct EXCEPT !.aad = Aad(h1)]]
  ELSE Apply(op, h)

NeedsEoe == {"eoeOdd", "eoeBadLen", "eoeNoData", "eoeEmptyList", "eoeRepeated", "eoeAmplify", "eoeMissing", "eoeRefsEch", "eoeRefsEoe", "eoeTwice"}
NeedsEoe2 == {"eoeOutOfOrder"}
NoEoeOps == {"eoeRefsSni"}
Tampers == {"echTrailing", "swap1", "swapLast", "drop2", "addExt", "changeVal", "changeSid", "changeCid", "changeSuite", "otherEnc", "encToOther",
            "truncEnc", "flipCt", "truncCt", "tinyCt", "emptyCt", "wrongInfo", "otherCid", "lowEncNil", "lowEncZero"}
PassOps == {"noEch", "grease", "no13", "noSv", "unlistedSuite"}
\* the alert class each illegal hello must be answered with
ClassOf(op) ==
  CASE op \in {"sniNameType", "innerSniNameType", "innerTypeNo13", "dupEchBefore", "dupEchInnerBefore", "dupEchAfter", "eoeInOuter", "innerTypeInOuter", "badEchType", "emptyEnc", "sniNotPublic", "sniKelvin", "noOuterSni", "noInnerEch", "outerTypeInInner",
               "innerNo13", "innerNoSv", "nonZeroPad", "eoeOutOfOrder", "eoeRepeated", "eoeAmplify", "eoeMissing", "eoeRefsEch", "eoeRefsEoe", "eoeTwice"} -> "illegal_parameter"
    [] op \in {"eoeOdd", "eoeBadLen", "eoeNoData", "eoeEmptyList", "svOdd", "sniTwoNames", "innerSvOdd"} -> "decode_error"
    [] OTHER -> "none"
\* the draft mandates illegal_parameter for the ECH-specific rules; for merely malformed contents of an extension TLS allows
\* decode_error or illegal_parameter, and the specification admits both
Malformed == {"svOdd", "sniTwoNames", "innerSvOdd", "sniNameType", "innerSniNameType", "eoeOdd", "eoeBadLen", "eoeNoData", "eoeEmptyList"}
ClassesOf(op) == IF op \in Malformed THEN {"decode_error", "illegal_parameter"} ELSE {ClassOf(op)}
Faults == {op \in Ops : ClassOf(op) # "none"}

\* --------------------------------------------------------------- the case and the procedure
VARIABLES onm, inm, run, pad, sid, ck, suite, op, keynames,   \* the case
          hello,                                              \* the hello as sent
          pc, ci, pt, j, r, p, newExt, eoeSeen, res

casev == <<onm, inm, run, pad, sid, ck, suite, op, keynames, hello>>
vars == <<casev, pc, ci, pt, j, r, p, newExt, eoeSeen, res>>

Keys == [i \in DOMAIN keynames |-> KeyPool(keynames[i])]
NoRes == [kind |-> "none"]

Init ==
  /\ onm \in OuterNames /\ inm \in InnerNames
  /\ run \in Runs(InnerLayout(inm), OuterLayout(onm))
  /\ pad \in Pads /\ sid \in Sids
  /\ ck \in ClientKeys /\ suite \in KeyPool(ck).suites
  /\ op \in Ops
  /\ (op \in NeedsEoe => run[1] # 0)
  /\ (op \in NeedsEoe2 => run[1] # 0 /\ run[2] > run[1])
  /\ (op \in NoEoeOps => run[1] = 0)
  /\ (op = "unlistedSuite" => KeyPool(ck).suites # Suites)
  /\ (op \in {"innerSniNameType", "eoeRefsSni"} => \E i \in DOMAIN InnerLayout(inm) : InnerLayout(inm)[i].t = "sni")
  /\ keynames \in KeyLists
  /\ hello = ApplyK(op, Honest(onm, inm, run, pad, sid, ck, suite), KeyPool(ck))
  /\ pc = "outer" /\ ci = 1 /\ pt = NoRes /\ j = 1 /\ r = 1 /\ p = 1 /\ newExt = <<>> /\ eoeSeen = FALSE /\ res = NoRes

HasT(h, t) == \E i \in DOMAIN h.exts : h.exts[i].t = t
ValOf(h, t) == IF HasT(h, t) THEN h.exts[IdxT(h.exts, t)].v ELSE ""
Tls13(h) == HasT(h, "sv") /\ ValOf(h, "sv") \in {"13", "13b"}
Sni(h) == ValOf(h, "sni")
Alpn(h) == ValOf(h, "alpn")

Abort(c) == /\ res' = [kind |-> "abort", class |-> c] /\ pc' = "done"
Pass     == /\ res' = [kind |-> "pass", sni |-> Sni(hello), alpn |-> Alpn(hello)] /\ pc' = "done"

\* ech.go:150-166 and the parse-level rule on ECHClientHello.type
StepOuter ==
  /\ pc = "outer"
  /\ IF op = "structOuter" THEN res' = [kind |-> "noaccept"] /\ pc' = "done" /\ UNCHANGED ci   \* damaged in transit: the AAD cannot match
     ELSE IF op = "structInner" THEN res' = [kind |-> "any"] /\ pc' = "done" /\ UNCHANGED ci   \* only totality is specified
     ELSE IF ValOf(hello, "sv") = "odd" \/ ValOf(hello, "sni") = "two" THEN Abort("decode_error") /\ UNCHANGED <<ci>>            \* client_hello.go parseExtensions
     ELSE IF ValOf(hello, "sni") = "badtype" THEN Abort("illegal_parameter") /\ UNCHANGED <<ci>>
     ELSE IF hello.ech.type = "bad" \/ HasT(hello, "echdup") \/ HasT(hello, "echdupi") THEN Abort("illegal_parameter") /\ UNCHANGED <<ci>>   \* RFC 8446 4.2: no duplicates
     ELSE IF HasT(hello, "eoe") THEN Abort("illegal_parameter") /\ UNCHANGED <<ci>>
     ELSE IF Keys # <<>> /\ hello.ech.type = "inner" THEN Abort("illegal_parameter") /\ UNCHANGED <<ci>>
     ELSE IF ~Tls13(hello) \/ hello.ech.type # "outer" \/ Keys = <<>> THEN Pass /\ UNCHANGED <<ci>>
     ELSE pc' = "cand" /\ ci' = 1 /\ UNCHANGED res
  /\ UNCHANGED <<casev, pt, j, r, p, newExt, eoeSeen>>

\* ech.go:192-235: one candidate key per step, a fresh context each
StepCand ==
  /\ pc = "cand"
  /\ LET e == hello.ech IN
     IF ci > Len(Keys) THEN Pass /\ UNCHANGED <<ci, pt>>
     ELSE LET k == Keys[ci] IN
       IF ~k.dec \/ k.cid # e.cid \/ e.suite \notin k.suites THEN ci' = ci + 1 /\ UNCHANGED <<pc, res, pt>>
       ELSE IF e.enc.to = "empty" THEN Abort("illegal_parameter") /\ UNCHANGED <<ci, pt>>
       ELSE IF ~OpenOK(k, hello) THEN ci' = ci + 1 /\ UNCHANGED <<pc, res, pt>>
       ELSE IF k.pub # Sni(hello) THEN Abort("illegal_parameter") /\ UNCHANGED <<ci, pt>>
       ELSE pt' = e.ct.pt /\ pc' = "decode" /\ UNCHANGED <<ci, res>>
  /\ UNCHANGED <<casev, j, r, p, newExt, eoeSeen>>

\* ech.go:237-253 + client_hello.go padding rule
StepDecode ==
  /\ pc = "decode"
  /\ IF ValOf(pt, "sv") = "odd" THEN Abort("decode_error")
     ELSE IF ValOf(pt, "sni") = "badtype" THEN Abort("illegal_parameter")
     ELSE IF pt.ech.type = "outer0" THEN Abort("illegal_parameter")       \* an 'outer' ECH extension inside the inner hello
     ELSE IF pt.ech.type # "inner" THEN Abort("illegal_parameter")
     ELSE IF pt.pad = "nonzero" THEN Abort("illegal_parameter")
     ELSE pc' = "splice" /\ UNCHANGED res
  /\ j' = 1 /\ p' = 1 /\ r' = 1 /\ newExt' = <<>> /\ eoeSeen' = FALSE
  /\ UNCHANGED <<casev, ci, pt>>

\* ech.go:256-293, Appendix B: one inner extension, or one referenced type, per step
StepSplice ==
  /\ pc = "splice"
  /\ IF j > Len(pt.exts) THEN pc' = "final" /\ UNCHANGED <<res, j, r, p, newExt, eoeSeen>>
     ELSE LET x == pt.exts[j] IN
       IF x.t # "eoe" THEN newExt' = Append(newExt, x) /\ j' = j + 1 /\ UNCHANGED <<pc, res, r, p, eoeSeen>>
       ELSE IF eoeSeen /\ r = 1 THEN Abort("illegal_parameter") /\ UNCHANGED <<j, r, p, newExt, eoeSeen>>
       ELSE IF r > Len(pt.eoe) THEN j' = j + 1 /\ r' = 1 /\ eoeSeen' = TRUE /\ UNCHANGED <<pc, res, p, newExt>>
       ELSE LET t == pt.eoe[r] IN
         IF t = "BADLEN" THEN Abort("decode_error") /\ UNCHANGED <<j, r, p, newExt, eoeSeen>>
         ELSE IF t = "ODD" THEN Abort("decode_error") /\ UNCHANGED <<j, r, p, newExt, eoeSeen>>
         ELSE IF t \in {"ech", "eoe"} THEN Abort("illegal_parameter") /\ UNCHANGED <<j, r, p, newExt, eoeSeen>>
         ELSE LET q == PosOf(hello.exts, t, p) IN
           IF q = 0 THEN Abort("illegal_parameter") /\ UNCHANGED <<j, r, p, newExt, eoeSeen>>
           ELSE newExt' = Append(newExt, hello.exts[q]) /\ p' = q + 1 /\ r' = r + 1 /\ UNCHANGED <<pc, res, j, eoeSeen>>
  /\ UNCHANGED <<casev, ci, pt>>

\* ech.go:254, 294-301
StepFinal ==
  /\ pc = "final"
  /\ LET inner == [sid |-> hello.sid, exts |-> newExt] IN
     IF ~Tls13(inner) THEN Abort("illegal_parameter")
     ELSE res' = [kind |-> "accept", inner |-> inner, sni |-> Sni(inner), alpn |-> Alpn(inner)] /\ pc' = "done"
  /\ UNCHANGED <<casev, ci, pt, j, r, p, newExt, eoeSeen>>

Next == StepOuter \/ StepCand \/ StepDecode \/ StepSplice \/ StepFinal
Spec == Init /\ [][Next]_vars /\ WF_vars(Next)

\* --------------------------------------------------------------- the properties
Done == pc = "done"
Target == KeyPool(ck)
Holds == suite \in Suites /\ \E i \in DOMAIN Keys : Keys[i].dec /\ Keys[i].kid = Target.kid /\ Keys[i].cfg = Target.cfg
Authentic == \E i \in DOMAIN Keys : Keys[i].dec /\ Keys[i].cid = hello.ech.cid /\ hello.ech.suite \in Keys[i].suites /\ OpenOK(Keys[i], hello)
Committed == [sid |-> sid, exts |-> Expanded(InnerLayout(inm), OuterLayout(onm), run)]

Req_C02 == Done /\ res.kind = "accept" => hello.ech.type = "outer" /\ Authentic
Req_C02_Tamper == /\ (Done /\ op \in Tampers \ {"wrongInfo"} => res.kind # "accept")
                  /\ (Done /\ op = "wrongInfo" /\ res.kind = "accept" => \E i \in DOMAIN Keys : Keys[i].cfg = "c1b")
Req_C03 == Done /\ res.kind = "accept" /\ op = "none" =>
              /\ res.inner = Committed
              /\ res.sni = ValOf(Committed, "sni") /\ res.alpn = ValOf(Committed, "alpn")
Req_C04 == Done /\ op \in Faults /\ Holds => res.kind = "abort" /\ res.class \in ClassesOf(op)
Req_C04_NeverAccept == Done /\ op \in Faults => res.kind # "accept"
Req_C05 == Done /\ op \in PassOps => res.kind = "pass" /\ res.sni = Sni(hello) /\ res.alpn = Alpn(hello)
Req_C09 == Done /\ op = "none" => (res.kind = "accept" <=> Holds) /\ (~Holds => res.kind = "pass")
Termination == <>Done
TypeOK == pc \in {"outer", "cand", "decode", "splice", "final", "done"}
=============================================================================
