SPECIFICATION Spec
CONSTANTS
 Inputs <- InputsAll
 HShapes <- HSome
 AShapes <- ASome
 A6Shapes <- A6Some
 TShapes <- TSome
INVARIANTS QueriesConformant AliasBounded QueriesBounded OnlyOwned SortedByPriority NxOnHttpsIsAbsence RcodeMapping NameLimits LoopFallsBack Emit
PROPERTY Termination
CHECK_DEADLOCK FALSE
