SPECIFICATION Spec
CONSTANTS
 Keys = {"n1"}
 G = 2
 MaxNow = 2
 MaxGen = 1
 TtlSets <- TS_q
INVARIANTS TypeOK EntryFresh Fresh NoCachedFailure MutualExclusion LockHeld
CHECK_DEADLOCK FALSE
VIEW ViewNoLast
