---------------------------- MODULE MCDnsWalk ----------------------------
EXTENDS DnsWalk, Json
HopCap == hops <= 12
Emit == st # "run" => PrintT(<<"CASE", ToJson([cells |-> [i \in 1..N |-> cells[i-1]], start |-> start, st |-> st, labels |-> labels])>>)
=============================================================================
