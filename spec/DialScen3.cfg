INIT Init
NEXT Stutter
CONSTANTS MaxN = 3
MaxK = 2
Delay = 2
Timeout = 4
Durs = {0, 1, 3, 5}
CancelTimes = {0, 2}
INVARIANT EmitScen
CHECK_DEADLOCK FALSE
