---------------------------- MODULE MCTransport ----------------------------
EXTENDS Transport, Json
RECURSIVE SortedSeq(_)
SortedSeq(S) == IF S = {} THEN <<>> ELSE LET m == CHOOSE x \in S : \A y \in S : x <= y IN <<m>> \o SortedSeq(S \ {m})
SetToSeqSorted(S) == SortedSeq(S)
U(s, h, p) == [scheme |-> s, host |-> h, port |-> p, hh |-> ""]
UH(s, h, p, hh) == [scheme |-> s, host |-> h, port |-> p, hh |-> hh]
UrlsAll == { U(s, "a", p) : s \in {"http", "https"}, p \in {0, 80, 443, 8443} } \cup { U("https", "b", 0), U("http", "b", 0), UH("https", "a", 0, "b") }
UrlsFn == { U(s, "a", p) : s \in {"http", "https"}, p \in {0, 443, 8443} } \cup { UH("https", "a", 0, "b"), UH("https", "a", 8443, "b") }
Rc(p, al, nd) == [prio |-> p, alpn |-> al, nodef |-> nd]
Alpns == { <<>>, <<"h3">>, <<"h2">>, <<"h3", "h2">>, <<"foo">>, <<"http/1.1">> }
One == { Rc(p, al, nd) : p \in {1}, al \in Alpns, nd \in BOOLEAN }   \* (a lone alias-mode record is followed by Resolve, it never reaches Transport)
Lo == { Rc(1, al, nd) : al \in Alpns, nd \in BOOLEAN }
Hi == { Rc(2, al, nd) : al \in { <<>>, <<"h3">>, <<"h2">>, <<"foo">> }, nd \in BOOLEAN }
RecFn == { <<>> } \cup { <<r>> : r \in One } \cup { <<a, b>> : a \in Lo, b \in Hi } \cup { <<Rc(0, <<>>, FALSE), b>> : b \in Lo }
RecPool == { <<>>, <<Rc(1, <<"h2">>, FALSE)>>, <<Rc(1, <<"h3">>, TRUE)>> }
\* function part: one request per behaviour, every (url, records, h3)
EmitFn == Len(reqs) = 1 => PrintT(<<"CASE", ToJson([reqs |-> reqs, recs |-> [h \in Hosts |-> recsOf[h]], h3 |-> h3,
                                                     outs |-> [k \in DOMAIN reqs |-> [o |-> O(k), kept |-> SetToSeqSorted(O(k).kept)]], served |-> served])>>)
EmitPool == Len(reqs) = MaxReqs => PrintT(<<"CASE", ToJson([reqs |-> reqs, recs |-> [h \in Hosts |-> recsOf[h]], h3 |-> h3,
                                                     outs |-> [k \in DOMAIN reqs |-> [o |-> O(k), kept |-> SetToSeqSorted(O(k).kept)]], served |-> served])>>)
=============================================================================
