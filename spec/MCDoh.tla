------------------------------ MODULE MCDoh ------------------------------
EXTENDS Doh, Json
MCStatuses == {200, 204, 400, 403, 404, 406, 415, 429, 500, 503}
MCFramings == {"exact", "chunked", "closedelim", "short", "long", "zero", "over", "huge", "badlen", "reset", "endless"}
MCBodies == {"answer", "padded", "big", "garbage", "truncated", "empty"}
Emit == Done => PrintT(<<"CASE", ToJson([st |-> st, fr |-> fr, bd |-> bd, res |-> res, sent |-> sent, ctx |-> ctx, retry |-> Retryable(st, fr), ok |-> Admissible(st, fr, bd)])>>)
=============================================================================
