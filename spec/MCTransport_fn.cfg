SPECIFICATION Spec
CONSTANTS
 Urls <- UrlsFn
 RecLists <- RecFn
 MaxReqs = 1
INVARIANTS Upgrade NoPlaintext SNIIsUrlHost HostPreserved H3Rule FilterCompatible PoolKeyInjective OriginIsolation EmitFn
CHECK_DEADLOCK FALSE
