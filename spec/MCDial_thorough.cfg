SPECIFICATION Spec
CONSTANTS MaxN = 3
MaxK = 2
Delay = 2
Timeout = 4
Durs = {0, 1, 3, 5}
CancelTimes = {0, 2}
INVARIANTS BoundedConcurrency OrderOK StaggerOK LateCancelled AtMostOneReturned QuiescentClean ErrorMeansNoSuccess ConnMeansReturned PromptCancel
PROPERTY Termination
CHECK_DEADLOCK FALSE
