SPECIFICATION Spec
CONSTANTS
 KeySets <- KS3
 MaxLen = 5
 FirstKinds <- FirstAll
 CSyms <- ClientAll
 BSyms <- BackendAll
INVARIANTS TypeOK AtMostOneRetry NotAcceptedNeverAborts InnerOnlyWhenArmed 
PROPERTIES DecryptOnlyAfterHRR ArmedOnlyByHRR StickyPassthrough AppDataStopsInspection
CHECK_DEADLOCK FALSE
