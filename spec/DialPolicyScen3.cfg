INIT Init
NEXT Stutter
CONSTANTS MaxN = 3
INVARIANT EmitScen
CHECK_DEADLOCK FALSE
