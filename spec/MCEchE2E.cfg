SPECIFICATION E2ESpec
CONSTANTS
 KeySets <- KS1
 MaxLen = 20
 FirstKinds <- FirstAll
 CSyms <- ClientAll
 BSyms <- BackendAll
INVARIANTS TypeOK E2E_NoAbort E2E_Retry E2E_Stale E2E_OnlyHellosRewritten AtMostOneRetry EmitScen
PROPERTIES E2E_Done DecryptOnlyAfterHRR ArmedOnlyByHRR StickyPassthrough
CHECK_DEADLOCK FALSE
