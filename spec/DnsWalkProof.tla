---------------------------- MODULE DnsWalkProof ----------------------------
(* Unbounded version of DnsWalk's step bound: for EVERY message size N and every layout, the safe rule makes the
   measure  seg * (N + 1) + (N - pos)  decrease at every step, so the walk takes at most N * (N + 1) + N steps.
   Proved with TLAPS (no bound on N); DnsWalk.tla's TLC runs cover N <= 5 exhaustively and bind the rule to the code. *)
EXTENDS Integers, TLAPS

CONSTANT N
ASSUME NAssump == N \in Nat

VARIABLES cells, start, pos, seg, hops, st
vars == <<cells, start, pos, seg, hops, st>>

Kinds == {"L", "E", "J", "P"}
TypeOK == /\ cells \in [0..N-1 -> [k : Kinds, to : 0..N-1]]
          /\ start \in 0..N-1 /\ pos \in 0..N /\ seg \in 0..N-1 /\ hops \in Nat /\ st \in {"run", "done", "err"}

Init == /\ cells \in [0..N-1 -> [k : Kinds, to : 0..N-1]] /\ start \in 0..N-1 /\ pos = start /\ seg = start /\ hops = 0 /\ st = "run"

Step ==
  /\ st = "run"
  /\ IF pos >= N THEN st' = "err" /\ UNCHANGED <<pos, seg, hops>>
     ELSE IF cells[pos].k = "L" THEN pos' = pos + 1 /\ hops' = hops + 1 /\ UNCHANGED <<seg, st>>
     ELSE IF cells[pos].k = "E" THEN st' = "done" /\ UNCHANGED <<pos, seg, hops>>
     ELSE IF cells[pos].k = "J" THEN st' = "err" /\ UNCHANGED <<pos, seg, hops>>
     ELSE IF cells[pos].to < seg THEN pos' = cells[pos].to /\ seg' = cells[pos].to /\ hops' = hops + 1 /\ UNCHANGED st
          ELSE st' = "err" /\ UNCHANGED <<pos, seg, hops>>
  /\ UNCHANGED <<cells, start>>
Next == Step
Spec == Init /\ [][Next]_vars

Measure == seg * (N + 1) + (N - pos)
Budget == start * (N + 1) + (N - start)
Inv == /\ TypeOK /\ seg <= start /\ seg <= pos
       /\ hops + Measure <= Budget
StepBound == hops <= N * (N + 1) + N

THEOREM InitInv == Init => Inv
  BY NAssump DEF Init, Inv, TypeOK, Measure, Budget

LEMMA MulMono == \A a, b, c \in Nat : a <= b => a * c <= b * c
  OBVIOUS

THEOREM NextInv == Inv /\ [Next]_vars => Inv'
<1> SUFFICES ASSUME Inv, [Next]_vars PROVE Inv' OBVIOUS
<1>0. TypeOK /\ seg <= start /\ seg <= pos /\ hops + Measure <= Budget BY DEF Inv
<1>1. CASE UNCHANGED vars BY <1>1, <1>0 DEF Inv, TypeOK, Measure, Budget, vars
<1>2. CASE Step
  <2>0. st = "run" /\ UNCHANGED <<cells, start>> BY <1>2 DEF Step
  <2>1. CASE pos >= N
    <3>1. st' = "err" /\ UNCHANGED <<pos, seg, hops>> BY <1>2, <2>1 DEF Step
    <3> QED BY <3>1, <2>0, <1>0 DEF Inv, TypeOK, Measure, Budget
  <2>2. CASE ~(pos >= N)
    <3>0. pos \in 0..N-1 BY <2>2, <1>0, NAssump DEF TypeOK
    <3>00. cells[pos] \in [k : Kinds, to : 0..N-1] BY <3>0, <1>0 DEF TypeOK
    <3>1. CASE cells[pos].k = "L"
      <4>1. pos' = pos + 1 /\ hops' = hops + 1 /\ UNCHANGED <<seg, st>> BY <1>2, <2>2, <3>1 DEF Step
      <4> QED BY <4>1, <2>0, <1>0, <3>0, NAssump DEF Inv, TypeOK, Measure, Budget
    <3>2. CASE cells[pos].k = "E"
      <4>1. st' = "done" /\ UNCHANGED <<pos, seg, hops>> BY <1>2, <2>2, <3>2 DEF Step
      <4> QED BY <4>1, <2>0, <1>0 DEF Inv, TypeOK, Measure, Budget
    <3>3. CASE cells[pos].k = "J"
      <4>1. st' = "err" /\ UNCHANGED <<pos, seg, hops>> BY <1>2, <2>2, <3>3 DEF Step
      <4> QED BY <4>1, <2>0, <1>0 DEF Inv, TypeOK, Measure, Budget
    <3>4. CASE cells[pos].k # "L" /\ cells[pos].k # "E" /\ cells[pos].k # "J"
      <4>1. CASE cells[pos].to < seg
        <5> DEFINE t == cells[pos].to
        <5>1. t \in 0..N-1 /\ t < seg BY <3>00, <4>1
        <5>2. pos' = t /\ seg' = t /\ hops' = hops + 1 /\ st' = st BY <1>2, <2>2, <3>4, <4>1 DEF Step
        <5>3. t * (N + 1) + (N - t) + 1 <= seg * (N + 1) + (N - pos)
          <6>0. t \in Nat /\ seg \in Nat /\ N \in Nat /\ pos \in Nat /\ pos <= N BY <5>1, <3>0, <1>0, NAssump DEF TypeOK
          <6>1. t + 1 <= seg BY <5>1, <6>0
          <6>2. (t + 1) * (N + 1) <= seg * (N + 1) BY <6>0, <6>1, MulMono
          <6>3. (t + 1) * (N + 1) = t * (N + 1) + (N + 1) BY <6>0
          <6> QED BY <6>0, <6>2, <6>3
        <5> QED BY <5>1, <5>2, <5>3, <2>0, <1>0, NAssump DEF Inv, TypeOK, Measure, Budget
      <4>2. CASE ~(cells[pos].to < seg)
        <5>1. st' = "err" /\ UNCHANGED <<pos, seg, hops>> BY <1>2, <2>2, <3>4, <4>2 DEF Step
        <5> QED BY <5>1, <2>0, <1>0 DEF Inv, TypeOK, Measure, Budget
      <4> QED BY <4>1, <4>2
    <3> QED BY <3>1, <3>2, <3>3, <3>4
  <2> QED BY <2>1, <2>2
<1> QED BY <1>1, <1>2 DEF Next

THEOREM InvBound == Inv => StepBound
  <1> SUFFICES ASSUME Inv PROVE StepBound OBVIOUS
  <1>1. Measure >= 0 BY NAssump DEF Inv, TypeOK, Measure
  <1>2. Budget <= N * (N + 1) + N
    <2>1. start <= N /\ start \in Nat /\ N + 1 \in Nat BY NAssump DEF Inv, TypeOK
    <2>2. start * (N + 1) <= N * (N + 1) BY <2>1, NAssump, MulMono DEF Inv, TypeOK
    <2> QED BY <2>1, <2>2, NAssump DEF Budget
  <1>3. hops + Measure <= Budget /\ hops \in Nat BY DEF Inv, TypeOK
  <1>4. Measure \in Int /\ Budget \in Int /\ N * (N + 1) + N \in Int BY NAssump DEF Inv, TypeOK, Measure, Budget
  <1> HIDE DEF Measure, Budget
  <1> QED BY <1>1, <1>2, <1>3, <1>4 DEF StepBound

THEOREM Safety == Spec => [](Inv /\ StepBound)
  <1>1. Inv /\ [Next]_vars => Inv' BY NextInv
  <1>2. Spec => []Inv BY InitInv, <1>1, PTL DEF Spec
  <1> QED BY <1>2, InvBound, PTL
=============================================================================
