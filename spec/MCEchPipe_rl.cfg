SPECIFICATION Fair
CONSTANTS
 MaxRec = 3
 CTypes = {"HS", "CH", "APP", "BIG"}
 BTypes = {"HRR"}
 Lens = {0, 2}
 Caps = {1, 3, 100}
 MaxC = 2
 MaxB = 1
 WChunks = {7}
 Tmo = FALSE
INVARIANTS TypeOK Conserved WriteIsPrefix OneRecordWithheld CutDeliversAll NeverZeroNil BufBound ErrorIsTheCut TmoKeepsOrder
PROPERTY EventuallyDelivered
CHECK_DEADLOCK FALSE
