---------------------------- MODULE DialPolicy ----------------------------
(* C17 - Dial never weakens the caller's ECH or server-name requirements.

   The per-attempt TLS configuration policy of Dialer.Dial (dial.go:197-212, 237-247, 302-317):
   which ECH config list and which ServerName every DialFunc invocation gets, the RequireECH
   refusal, and the single retry with the server's RetryConfigList.  Scheduling (order, timing,
   concurrency) is Dial.tla's business; here the per-target machines may interleave freely.

   Operational part (code shaped): Base / Derive / Invoke1 / Outcome / Invoke2.
   Declarative part (the property):  NeverWithoutECH, CallerECHKept, FromOwnRecord,
   ServerNameFromCaller, OneRetryExact - stated on the history of invocations `calls`. *)
EXTENDS Integers, Sequences, FiniteSets, TLC

CONSTANTS MaxN

Nil == "nil"
CallerEch  == {Nil, "Ec", "Empty"}   \* caller's tls.Config.EncryptedClientHelloConfigList. "Empty": a list that is not nil but has no bytes -
                                     \* crypto/tls takes any non-nil list as "ECH or nothing", so this is a supplied list too (a caller failing closed)
CallerSn   == {"", "SNc"}            \* caller's tls.Config.ServerName
PubNames   == {"", "pn"}             \* Dialer.PublicName
TargetEch  == {Nil, "E1", "E2"}      \* ech= of the HTTPS record that produced the address
Host       == "host"                 \* the host the caller named
Boot       == "boot"                 \* bootstrap config list generated from PublicName

\* per-target outcome scripts: result of the 1st, 2nd ... DialFunc invocation for that target
\* "rejSame": the server rejects ECH and hands back, as retry configs, the very list the attempt was made with
Scripts == { <<"ok">>, <<"err">>, <<"rejnil">>, <<"rejR1", "ok">>, <<"rejR1", "err">>, <<"rejR1", "rejR2">>, <<"rejSame", "ok">>, <<"rejSame", "rejR2">> }
RetryOf(o) == IF o = "rejR1" THEN "R1" ELSE IF o = "rejR2" THEN "R2" ELSE Nil

VARIABLES n, cech, csn, req, pub, tech, script,      \* scenario (fixed in Init)
          att,        \* att[i]: number of DialFunc invocations made for target i
          st,         \* st[i] \in {"new","refused","called","retrying","failed","ok"}
          calls       \* set of invocation records [i, k, sn, ech]

scen == <<n, cech, csn, req, pub, tech, script>>
vars == <<scen, att, st, calls>>

T == 1..n

Init ==
  /\ n \in 1..MaxN
  /\ cech \in CallerEch /\ csn \in CallerSn /\ req \in BOOLEAN /\ pub \in PubNames
  /\ tech \in [1..n -> TargetEch]
  /\ script \in [1..n -> Scripts]
  /\ att = [i \in 1..n |-> 0]
  /\ st = [i \in 1..n |-> "new"]
  /\ calls = {}

\* ---- operational derivation, as in the code
NeedECH == cech = Nil
BaseEch == IF NeedECH /\ pub # "" THEN Boot ELSE cech            \* dial.go:197-212
SnFor(i) == IF csn = "" THEN Host ELSE csn                        \* dial.go:238-240
EchFor(i) == IF NeedECH /\ tech[i] # Nil THEN tech[i] ELSE BaseEch \* dial.go:241-243

\* the retry configs the server hands out (a rejection that comes with zero bytes of retry configs comes with none)
RetryOfI(i, o) == IF o = "rejSame" THEN (IF EchFor(i) = "Empty" THEN Nil ELSE EchFor(i)) ELSE RetryOf(o)

Refuse(i) ==
  /\ st[i] = "new" /\ req /\ EchFor(i) = Nil                      \* dial.go:244-247
  /\ st' = [st EXCEPT ![i] = "refused"]
  /\ UNCHANGED <<scen, att, calls>>

Invoke1(i) ==
  /\ st[i] = "new" /\ ~(req /\ EchFor(i) = Nil)
  /\ att' = [att EXCEPT ![i] = 1]
  /\ calls' = calls \cup {[i |-> i, k |-> 1, sn |-> SnFor(i), ech |-> EchFor(i)]}
  /\ st' = [st EXCEPT ![i] = "called"]
  /\ UNCHANGED scen

OutcomeOf(i) == IF att[i] <= Len(script[i]) THEN script[i][att[i]] ELSE "err"

Outcome(i) ==
  /\ st[i] = "called"
  /\ LET o == OutcomeOf(i) IN
       st' = [st EXCEPT ![i] = IF o = "ok" THEN "ok"
                                 ELSE IF RetryOfI(i, o) # Nil /\ att[i] = 1 THEN "retrying"   \* dial.go:309
                                 ELSE "failed"]
  /\ UNCHANGED <<scen, att, calls>>

Invoke2(i) ==
  /\ st[i] = "retrying"
  /\ att' = [att EXCEPT ![i] = 2]
  /\ calls' = calls \cup {[i |-> i, k |-> 2, sn |-> SnFor(i), ech |-> RetryOfI(i, script[i][1])]}
  /\ st' = [st EXCEPT ![i] = "called"]
  /\ UNCHANGED scen

Next == \E i \in T : Refuse(i) \/ Invoke1(i) \/ Outcome(i) \/ Invoke2(i)
Spec == Init /\ [][Next]_vars

\* ---- the property, stated on the invocation history only
First(i)  == {c \in calls : c.i = i /\ c.k = 1}
Second(i) == {c \in calls : c.i = i /\ c.k = 2}

NeverWithoutECH == req => \A c \in calls : c.ech # Nil
CallerECHKept   == cech # Nil => \A c \in calls : c.k = 1 => c.ech = cech
FromOwnRecord   == cech = Nil => \A c \in calls : c.k = 1 =>
                      c.ech = (IF tech[c.i] # Nil THEN tech[c.i] ELSE IF pub # "" THEN Boot ELSE Nil)
ServerNameFromCaller == \A c \in calls : c.sn = (IF csn # "" THEN csn ELSE Host)
OneRetryExact ==
  \A i \in T :
     /\ att[i] <= 2 /\ Cardinality(First(i)) <= 1 /\ Cardinality(Second(i)) <= 1
     /\ \A c \in Second(i) : /\ Len(script[i]) >= 1 /\ RetryOfI(i, script[i][1]) # Nil
                             /\ c.ech = RetryOfI(i, script[i][1])
RetryHappens == \A i \in T : (st[i] \in {"ok", "failed"} /\ RetryOfI(i, script[i][1]) # Nil) => att[i] = 2
TypeOK == /\ att \in [T -> 0..2]
          /\ st \in [T -> {"new", "refused", "called", "retrying", "failed", "ok"}]
=============================================================================
