INIT TraceInit
NEXT TraceNext
CONSTANTS Times <- DefaultTimes
 MaxTime = 50
CONSTRAINT HighWater
INVARIANTS NoLateDeadline CleanAfterReturn PromptFailure StallBounded SuccessNeedsHello
POSTCONDITION TraceAccepted
CHECK_DEADLOCK FALSE
