------------------------------ MODULE EchConn ------------------------------
(* The Conn after NewConn, at record granularity (ech.go Read / Write / inspectWrite,
   handleClientHello(isRetry = TRUE), draft-ietf-tls-esni 7.1.1).

   The environment is arbitrary: at every step either the client's next record is read
   through the Conn (Read) or the backend writes a record through it (Write), in any
   interleaving.  The history and the per-step results are kept so that TLC enumerates
   HISTORIES (C06's quantifier) and every history can be replayed on the real Conn.

   C06  only a HelloRetryRequest re-arms ECH processing, under the retry rules
   C05  (Conn level) a connection whose ECH was not accepted is never interpreted
   C09  (retry) the retried hello is accepted whatever other keys are configured      *)
EXTENDS Integers, Sequences, FiniteSets, TLC

CONSTANTS KeySets,       \* key lists the server may hold (all contain the client's key)
          MaxLen,        \* bound on the history length
          FirstKinds,    \* how the first flight ended: "acc" (ECH accepted), "grease" (ECH presented, not accepted), "plain"
          CSyms, BSyms   \* client / backend record alphabets

\* client records
ClientAll == {"CH2ok", "CH2noEch", "CH2cid", "CH2suite", "CH2enc", "CH2undec", "CH2sni", "CH2sniKelvin", "CH2alpn", "CH2outerSni", "CH2innerType",
              "CH2no13", "CH2noEchNo13", "CH2again", "CCS", "HSother", "ALERT", "APP", "ZERO", "ZEROAPP"}
\* backend records
BackendAll == {"SH", "HRR", "CCS", "HSother", "APP", "SHbad", "ZERO", "ZEROAPP", "ALERTF", "SH12"}

IsCH(s) == s \in {"CH2ok", "CH2noEch", "CH2cid", "CH2suite", "CH2enc", "CH2undec", "CH2sni", "CH2sniKelvin", "CH2alpn", "CH2outerSni", "CH2innerType", "CH2no13", "CH2noEchNo13", "CH2again"}

VARIABLES first, keyset,               \* scenario
          accepted, rPass, wPass, retry, seq, cseq, st, wDead,
          hist, outs                   \* history of steps and their specified results

vars == <<first, keyset, accepted, rPass, wPass, retry, seq, cseq, st, wDead, hist, outs>>

Init ==
  /\ first \in FirstKinds
  /\ keyset \in KeySets /\ (first # "acc" => keyset = "K1")
  /\ wDead = FALSE
  /\ accepted = (first = "acc")
  /\ rPass = (first # "acc") /\ wPass = (first # "acc")      \* ech.go:82-83
  /\ retry = 0
  /\ seq = IF first = "acc" THEN 1 ELSE 0                     \* HPKE opens done by the server
  /\ cseq = 1                                                 \* seals done by the client's sender
  /\ st = "ok"
  /\ hist = <<>> /\ outs = <<>>

\* every CH2* the client emits is sealed with its one sender, at the sender's next sequence number
Seals(s) == s \in {"CH2ok", "CH2cid", "CH2suite", "CH2enc", "CH2undec", "CH2sni", "CH2sniKelvin", "CH2alpn", "CH2outerSni", "CH2no13", "CH2again"}

\* result of processing a retried hello (ech.go:150-176,181-235): <<kind, class, opened>>
RetryResult(s) ==
  CASE s \in {"CH2noEch", "CH2noEchNo13"} -> <<"abort", "missing_extension", FALSE>>   \* the missing extension is what is wrong, whatever else the hello lacks
    [] s = "CH2innerType" -> <<"abort", "illegal_parameter", FALSE>>      \* 'inner' type in an outer hello, server has keys
    [] s = "CH2no13"      -> <<"abort", "illegal_parameter", FALSE>>      \* a matching, sealed ECH extension but no TLS 1.3 offer: not processed, hence "no inner hello"
    [] s \in {"CH2cid", "CH2suite", "CH2enc"} -> <<"abort", "illegal_parameter", FALSE>>
    [] s = "CH2undec"     -> <<"abort", "decrypt_error", FALSE>>
    \* (CH2sniKelvin: the first hello's inner name with its "k" written as U+212A - equal only under Unicode case folding, which is
    \*  not how host names compare: another name)
    [] s \in {"CH2sni", "CH2sniKelvin", "CH2alpn", "CH2outerSni"} -> IF cseq = seq THEN <<"abort", "illegal_parameter", TRUE>> ELSE <<"abort", "decrypt_error", FALSE>>
    [] s \in {"CH2ok", "CH2again"} -> IF cseq = seq THEN <<"inner", "", TRUE>> ELSE <<"abort", "decrypt_error", FALSE>>

Log(step, out) == hist' = Append(hist, step) /\ outs' = Append(outs, out)

\* Conn.Read with a buffer that takes the whole record: the next client record s comes out (or an abort)
Read(s) ==
  /\ st = "ok" /\ s \in CSyms
  /\ cseq' = IF Seals(s) THEN cseq + 1 ELSE cseq
  /\ IF rPass THEN
        /\ Log(<<"r", s>>, <<"fwd">>) /\ UNCHANGED <<accepted, rPass, wPass, retry, seq, st>>
     ELSE IF s \in {"APP", "ZEROAPP"} THEN                                   \* ech.go: case r[0] == 23
        /\ rPass' = TRUE /\ Log(<<"r", s>>, <<"fwd">>) /\ UNCHANGED <<accepted, wPass, retry, seq, st>>
     ELSE IF IsCH(s) /\ retry = 1 THEN                                      \* ech.go: retried ClientHello
        LET rr == RetryResult(s) IN
        /\ rPass' = TRUE
        /\ seq' = IF rr[3] THEN seq + 1 ELSE seq
        /\ IF rr[1] = "inner" THEN Log(<<"r", s>>, <<"inner">>) /\ UNCHANGED st
           ELSE Log(<<"r", s>>, <<"abort", rr[2]>>) /\ st' = "err"
        /\ UNCHANGED <<accepted, wPass, retry>>
     ELSE
        /\ Log(<<"r", s>>, <<"fwd">>) /\ UNCHANGED <<accepted, rPass, wPass, retry, seq, st>>
  /\ UNCHANGED <<first, keyset, wDead>>

\* Conn.Write of one whole backend record
Write(s) ==
  /\ st = "ok" /\ s \in BSyms /\ ~wDead
  /\ wDead' = (~wPass /\ s \in {"SHbad", "SH12"})       \* the spec is silent about writes after a failed one
  /\ IF wPass THEN
        /\ Log(<<"w", s>>, <<"fwd">>) /\ UNCHANGED <<wPass, retry>>
     ELSE IF s \in {"APP", "ZEROAPP"} THEN                                  \* application data of any length, empty included
        /\ wPass' = TRUE /\ Log(<<"w", s>>, <<"fwd">>) /\ UNCHANGED retry
     ELSE IF s = "HRR" THEN
        /\ wPass' = TRUE /\ retry' = retry + 1 /\ Log(<<"w", s>>, <<"fwd">>)
     ELSE IF s = "SHbad" THEN
        /\ Log(<<"w", s>>, <<"werr">>) /\ UNCHANGED <<wPass, retry>>           \* not forwarded, Write fails
     ELSE IF s = "SH12" THEN      \* a TLS 1.2 ServerHello (no extensions block) answering an accepted ECH: a protocol violation of the
        /\ Log(<<"w", s>>, <<"any">>) /\ UNCHANGED <<wPass, retry>>            \* backend; refused or forwarded, the spec does not say. (Forwarded on pass-through connections.)
     ELSE
        /\ Log(<<"w", s>>, <<"fwd">>) /\ UNCHANGED <<wPass, retry>>
  /\ UNCHANGED <<first, keyset, accepted, rPass, seq, cseq, st>>

Next == /\ Len(hist) < MaxLen
        /\ \/ \E s \in CSyms : Read(s)
           \/ \E s \in BSyms : Write(s)
Spec == Init /\ [][Next]_vars

\* --------------------------------------------------------------- properties (C06)
WroteHRR == \E i \in DOMAIN hist : hist[i] = <<"w", "HRR">>
\* a second HPKE open happens only while armed and still inspecting
DecryptOnlyAfterHRR == [][ seq' > seq => retry = 1 /\ ~rPass /\ accepted ]_vars
\* arming only by writing a HelloRetryRequest on an accepted, still inspected connection
ArmedOnlyByHRR == [][ retry' > retry => (\E i \in DOMAIN hist' : hist'[i] = <<"w", "HRR">>) /\ accepted /\ ~wPass ]_vars
AtMostOneRetry == seq <= 2 /\ retry <= 1
StickyPassthrough == [][ (rPass => rPass') /\ (wPass => wPass') ]_vars
AppDataStopsInspection == [][ /\ (Len(hist') > Len(hist) /\ hist'[Len(hist')] \in {<<"r", "APP">>, <<"r", "ZEROAPP">>} => rPass')
                              /\ (Len(hist') > Len(hist) /\ hist'[Len(hist')] \in {<<"w", "APP">>, <<"w", "ZEROAPP">>} => wPass') ]_vars
\* a connection whose ECH was not accepted is a pure pipe (C05 at Conn level)
NotAcceptedNeverAborts == ~accepted => st = "ok" /\ \A i \in DOMAIN outs : outs[i] = <<"fwd">>
\* a replaced hello only directly in answer to a HelloRetryRequest
InnerOnlyWhenArmed == \A i \in DOMAIN outs : outs[i] = <<"inner">> =>
                         /\ accepted /\ \E k \in 1..(i-1) : hist[k] = <<"w", "HRR">>
                         /\ \A k \in 1..(i-1) : outs[k] # <<"inner">>
                         /\ \A k \in 1..(i-1) : hist[k] \notin {<<"r", "APP">>, <<"r", "ZEROAPP">>}
TypeOK == st \in {"ok", "err"} /\ retry \in 0..2 /\ seq \in 0..3
=============================================================================
