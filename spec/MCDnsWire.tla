---------------------------- MODULE MCDnsWire ----------------------------
(* The bounded domain of messages for DnsWire, in families (one cfg per family), and the case emitter. *)
EXTENDS DnsWire, Json

CONSTANT Domain
Init == m \in Domain
Spec == Init /\ [][Next]_m

la == <<97>>  lbc == <<98, 99>>  lt == <<116>>  l63 == Rep(120, 63)  l61 == Rep(121, 61)
nRoot == <<>>  nA == <<la>>  nAB == <<la, lbc>>  nT == <<lt, lbc>>  n63 == <<l63, lbc>>  n127 == [i \in 1..127 |-> la]  n255 == <<l63, l63, l63, l61>>
Names == {nRoot, nA, nAB, n63, n127, n255}
Q(n, t, c) == [name |-> n, type |-> t, class |-> c]
RRr(n, t, c, ttl, d) == [name |-> n, type |-> t, class |-> c, ttl |-> ttl, data |-> d]
M(q, an, ns, ar) == [id |-> 4660, qr |-> 1, opcode |-> 0, aa |-> 0, tc |-> 0, rd |-> 1, ra |-> 1, z |-> 0, rcode |-> 0,
                     question |-> q, answer |-> an, authority |-> ns, additional |-> ar]
IP4(x) == [ip |-> <<x, 0, 2, x>>]
IP6(x) == [ip |-> <<32, 1, 13, 184>> \o Rep(0, 11) \o <<x>>]
T4(n) == B4(n)
ARec(n, x) == RRr(n, tA, 1, T4(60), IP4(x))
Opt(os, ttl) == RRr(nRoot, tOPT, 4096, ttl, [opts |-> os])   \* ttl given as 4 bytes
O(c, d) == [code |-> c, data |-> d]

\* -- header flags and ids
F_flags == { [M(<<Q(nAB, 1, 1)>>, <<>>, <<>>, <<>>) EXCEPT !.id = id, !.qr = qr, !.opcode = op, !.aa = aa, !.tc = tc, !.rd = rd, !.ra = ra, !.rcode = rc] :
               id \in {0, 65535}, qr \in {0, 1}, op \in {0, 15}, aa \in {0, 1}, tc \in {0, 1}, rd \in {0, 1}, ra \in {0, 1}, rc \in {0, 3, 15} }
           \* ... and with the Z / AD / CD bits as other encoders set them
           \cup { [M(<<Q(nAB, 1, 1)>>, <<ARec(nAB, 1)>>, <<>>, <<>>) EXCEPT !.z = z, !.rcode = rc, !.ra = ra] : z \in 1..7, rc \in {0, 3, 5}, ra \in {0, 1} }
\* -- names: in the question, as owner, inside RDATA
F_names == { M(<<Q(n, t, c)>>, <<>>, <<>>, <<>>) : n \in Names, t \in {1, 65, 255}, c \in {1, 255} }
           \cup { M(<<Q(nAB, 1, 1)>>, <<RRr(n, ty, 1, T4(300), [name |-> n2])>>, <<>>, <<>>) : n \in Names, n2 \in {nRoot, nAB, n127, n255}, ty \in NameTypes }
\* -- addresses, classes, ttls
F_addr == { M(<<Q(nAB, 1, 1)>>, <<RRr(nAB, tA, c, ttl, [ip |-> ip])>>, <<>>, <<RRr(nA, tAAAA, 1, ttl, IP6(x)), RRr(nA, tAAAA, 1, ttl, [ip |-> Rep(0, 10) \o <<255, 255, 10, 1, 2, 3>>])>>) :
              c \in {1, 3, 255}, ttl \in {<<0, 0, 0, 0>>, <<0, 0, 0, 1>>, <<128, 0, 0, 0>>, <<255, 255, 255, 255>>}, ip \in {<<0, 0, 0, 0>>, <<255, 255, 255, 255>>, <<10, 1, 2, 3>>}, x \in {0, 255} }
\* -- EDNS options and the extended RCODE
OptLists == { <<>>, <<O(12, Rep(0, 3))>>, <<O(10, Rep(7, 8)), O(12, <<>>)>>, <<O(3, <<110, 115>>)>>, <<O(12, Rep(0, 1)), O(3, <<>>)>> }
F_opt == { [M(<<Q(nAB, 1, 1)>>, <<>>, <<>>, ar) EXCEPT !.rcode = rc] : rc \in {0, 1, 15},
             ar \in { <<Opt(os, ttl)>> : os \in OptLists, ttl \in {<<0, 0, 0, 0>>, <<1, 0, 0, 0>>, <<255, 0, 0, 0>>, <<0, 0, 128, 0>>} } \cup { <<ARec(nA, 1), Opt(<<>>, <<0, 0, 0, 0>>)>> } }
\* -- HTTPS / SVCB parameters
Https(p, t, al, nd, po, v4, ech, v6) == [prio |-> p, target |-> t, alpn |-> al, nodef |-> nd, port |-> po, v4 |-> v4, ech |-> ech, v6 |-> v6, pre |-> <<>>, post |-> <<>>]
P(k, v) == [key |-> k, val |-> v]
h2 == <<104, 50>>  h3 == <<104, 51>>
F_https == { M(<<Q(nAB, 65, 1)>>, <<RRr(nAB, tHTTPS, 1, T4(60), Https(p, t, al, nd, po, v4, ech, v6))>>, <<>>, <<>>) :
               p \in {0, 1, 65535}, t \in {nRoot, nT}, al \in {<<>>, <<h2>>, <<h3, h2>>}, nd \in BOOLEAN, po \in {0, 8443, 65535},
               v4 \in {<<>>, <<<<192, 0, 2, 1>>>>, <<<<192, 0, 2, 1>>, <<192, 0, 2, 2>>>>}, ech \in {<<>>, <<1, 2, 3>>}, v6 \in {<<>>, <<IP6(9).ip>>, <<IP6(9).ip, IP6(7).ip>>} }
\* -- HTTPS records from another encoder: "mandatory" first (RFC 9460 section 8), keys the package has no field for last
F_httpsx == { M(<<Q(nAB, 65, 1)>>, <<RRr(nAB, tHTTPS, 1, T4(60), [Https(1, t, al, FALSE, po, <<>>, ech, <<>>) EXCEPT !.pre = pre, !.post = post])>>, <<>>, <<>>) :
                t \in {nRoot, nT}, al \in {<<>>, <<h2>>}, po \in {0, 8443}, ech \in {<<>>, <<1, 2, 3>>},
                pre \in {<<>>, <<P(0, <<0, 1>>)>>, <<P(0, <<0, 1, 0, 3>>)>>, <<P(0, <<0, 5>>)>>},
                post \in {<<>>, <<P(7, <<47, 100>>)>>, <<P(8, <<>>), P(65280, <<1>>)>>} }
\* -- record types the package only decodes
F_decodeonly ==
  { M(<<Q(nAB, 15, 1)>>, <<RRr(nAB, tMX, 1, T4(60), [pref |-> pr, name |-> n])>>, <<>>, <<>>) : pr \in {0, 10, 65535}, n \in {nRoot, nAB, nT} }
  \cup { M(<<Q(nAB, 16, 1)>>, <<RRr(nAB, tTXT, 1, T4(60), [txt |-> tx])>>, <<>>, <<>>) : tx \in {<<>>, <<<<>>>>, <<<<104, 105>>>>, <<<<104, 105>>, Rep(122, 255)>>} }
  \cup { M(<<Q(nAB, 33, 1)>>, <<RRr(nAB, tSRV, 1, T4(60), [prio |-> a, weight |-> b, port |-> c, name |-> n])>>, <<>>, <<>>) : a \in {0, 65535}, b \in {0, 5}, c \in {0, 443}, n \in {nRoot, nT} }
  \cup { M(<<Q(nAB, 64, 1)>>, <<RRr(nAB, tSVCB, 1, T4(60), [prio |-> 1, target |-> n, params |-> ps])>>, <<>>, <<>>) : n \in {nRoot, nT},
           ps \in {<<>>, <<[key |-> 1, val |-> <<2, 104, 50>>]>>, <<[key |-> 3, val |-> <<1, 187>>], [key |-> 65280, val |-> <<>>]>>} }
  \cup { M(<<Q(nAB, 6, 1)>>, <<>>, <<RRr(nA, tSOA, 1, T4(60), [mname |-> nAB, rname |-> nT, serial |-> <<255, 255, 255, 255>>, refresh |-> T4(1), retry |-> T4(0), expire |-> T4(65536), minimum |-> T4(300)])>>, <<>>) }
  \cup { M(<<Q(nAB, 99, 1)>>, <<RRr(nAB, 99, 1, T4(60), [raw |-> r])>>, <<>>, <<>>) : r \in {<<>>, <<1, 2, 3>>} }
\* -- sections and shared names (what a compressing peer exploits)
RRs0 == { <<>> }
RRs1 == { <<ARec(nAB, 1)>>, <<RRr(nAB, tCNAME, 1, T4(5), [name |-> nT])>>, <<RRr(nT, tNS, 1, T4(5), [name |-> nAB])>> }
RRs2 == { <<RRr(nAB, tCNAME, 1, T4(5), [name |-> nT]), ARec(nT, 2)>>, <<ARec(nAB, 1), ARec(nAB, 2)>>, <<RRr(n127, tPTR, 1, T4(5), [name |-> n127]), ARec(nA, 3)>> }
F_sections == { M(q, an, ns, ar) : q \in {<<>>, <<Q(nAB, 1, 1)>>, <<Q(nAB, 1, 1), Q(nT, 28, 1)>>}, an \in RRs0 \cup RRs1 \cup RRs2, ns \in RRs0 \cup RRs1, ar \in RRs0 \cup RRs2 }
\* -- large responses: compression pointers to offsets beyond 255, 1023, 4095 and at the 14-bit limit
Big(k) == M(<<Q(nAB, 1, 1)>>, <<RRr(nA, 99, 1, T4(60), [raw |-> Rep(85, k)]), RRr(nT, tCNAME, 1, T4(5), [name |-> n63]), ARec(n63, 1), RRr(nAB, tNS, 1, T4(5), [name |-> n63])>>, <<>>, <<ARec(nT, 2)>>)
F_big == { Big(k) : k \in {200, 1000, 1100, 4100, 16300, 16340, 16400} }
\* -- padding: every question-name length x OPT contents
NameOfLen(k) == IF k <= 63 THEN <<Rep(113, k)>> ELSE IF k <= 127 THEN <<Rep(113, 63), Rep(114, k - 64)>> ELSE IF k <= 191 THEN <<Rep(113, 63), Rep(114, 63), Rep(115, k - 128)>>
                ELSE <<Rep(113, 63), Rep(114, 63), Rep(115, 63), Rep(116, k - 192)>>
PadLens == ((1..70) \cup (120..135) \cup {190, 191, 193, 250, 251, 252, 253}) \ {64, 128, 192}    \* presentation lengths (dots included) without empty labels
\* ... and the two ends of the label-count range: the root name (no label) and 127 labels
F_pad == { M(<<Q(nm, 65, 1)>>, <<>>, <<>>, ar) : nm \in {NameOfLen(k) : k \in PadLens} \cup {nRoot, n127},
             ar \in { <<>>, <<Opt(<<>>, <<0, 0, 0, 0>>)>>, <<Opt(<<O(12, Rep(0, 5))>>, <<0, 0, 0, 0>>)>>, <<Opt(<<O(10, Rep(7, 8))>>, <<0, 0, 0, 0>>)>>, <<ARec(nA, 1), Opt(<<O(12, <<>>), O(3, <<120>>)>>, <<0, 0, 0, 0>>)>> } }

Emit == PrintT(<<"CASE", ToJson([m |-> m, bytes |-> EncMsg(m), cbytes |-> EncMsgC(m), ext |-> ExtRcode(m)])>>)
EmitPad == PrintT(<<"CASE", ToJson([m |-> m, padded |-> Pad(m), plen |-> Len(EncMsg(Pad(m)))])>>)
=============================================================================
