------------------------------ MODULE DnsWire ------------------------------
(* C13 (and the framing part of C12) - an independent, executable RFC 1035 / RFC 6891 / RFC 9460 codec over byte
   sequences, written from the RFCs:
     EncMsg   - plain encoder (no compression): what dns.Message.Bytes must produce
     EncMsgC  - compressing encoder (suffix sharing, pointers into earlier names): "compression produced by the other side"
     DecMsg   - decoder for the framing and the names (follows pointers under the strictly-backwards rule)
     Pad      - RFC 7830 / 8467 padding to a multiple of 128 bytes
     ExtRcode - RFC 6891 extended RCODE
   TLC checks DecMsg(EncMsg(m)) = Semi(m) = DecMsg(EncMsgC(m)) and the padding rule on the bounded domain of
   MCDnsWire.tla; every case is emitted with its bytes and compared with dns/message.go in both directions.        *)
EXTENDS Integers, Sequences, FiniteSets, TLC

U8(n)  == <<n % 256>>
U16(n) == <<(n \div 256) % 256, n % 256>>
\* 32-bit fields (TTL, SOA counters) are kept as 4-byte sequences: TLC's integers are 32-bit signed
U32(q) == q
B4(n) == <<0, (n \div 65536) % 256, (n \div 256) % 256, n % 256>>      \* for values below 2^24
Rep(x, n) == [i \in 1..n |-> x]
RECURSIVE Flat(_)
Flat(ss) == IF ss = <<>> THEN <<>> ELSE Head(ss) \o Flat(Tail(ss))
Vec8(b)  == U8(Len(b)) \o b
Vec16(b) == U16(Len(b)) \o b

\* record types
tA == 1  tNS == 2  tCNAME == 5  tSOA == 6  tPTR == 12  tMX == 15  tTXT == 16  tAAAA == 28  tSRV == 33  tOPT == 41  tSVCB == 64  tHTTPS == 65
NameTypes == {tNS, tCNAME, tPTR}

\* ------------------------------------------------------------------ plain encoder
EncLabel(l) == U8(Len(l)) \o l
EncName(nm) == Flat([i \in 1..Len(nm) |-> EncLabel(nm[i])]) \o <<0>>

\* (d.pre / d.post: parameters this package has no field for - "mandatory" (key 0, sorts first), keys above ipv6hint - as
\*  another encoder may send them: a decoder skips them)
EncParams(ps) == Flat([i \in 1..Len(ps) |-> U16(ps[i].key) \o Vec16(ps[i].val)])
EncHttps(d) ==
  U16(d.prio) \o EncName(d.target) \o EncParams(d.pre)
  \o (IF d.alpn # <<>> THEN U16(1) \o Vec16(Flat([i \in 1..Len(d.alpn) |-> Vec8(d.alpn[i])])) ELSE <<>>)
  \o (IF d.nodef THEN U16(2) \o U16(0) ELSE <<>>)
  \o (IF d.port > 0 THEN U16(3) \o Vec16(U16(d.port)) ELSE <<>>)
  \o (IF d.v4 # <<>> THEN U16(4) \o Vec16(Flat(d.v4)) ELSE <<>>)
  \o (IF d.ech # <<>> THEN U16(5) \o Vec16(d.ech) ELSE <<>>)
  \o (IF d.v6 # <<>> THEN U16(6) \o Vec16(Flat(d.v6)) ELSE <<>>)
  \o EncParams(d.post)

EncData(r) ==
  LET d == r.data IN
  CASE r.type \in {tA, tAAAA} -> d.ip
    [] r.type \in NameTypes -> EncName(d.name)
    [] r.type = tMX -> U16(d.pref) \o EncName(d.name)
    [] r.type = tTXT -> Flat([i \in 1..Len(d.txt) |-> Vec8(d.txt[i])])
    [] r.type = tSRV -> U16(d.prio) \o U16(d.weight) \o U16(d.port) \o EncName(d.name)
    [] r.type = tSOA -> EncName(d.mname) \o EncName(d.rname) \o U32(d.serial) \o U32(d.refresh) \o U32(d.retry) \o U32(d.expire) \o U32(d.minimum)
    [] r.type = tOPT -> Flat([i \in 1..Len(d.opts) |-> U16(d.opts[i].code) \o Vec16(d.opts[i].data)])
    [] r.type = tSVCB -> U16(d.prio) \o EncName(d.target) \o Flat([i \in 1..Len(d.params) |-> U16(d.params[i].key) \o Vec16(d.params[i].val)])
    [] r.type = tHTTPS -> EncHttps(d)
    [] OTHER -> d.raw

EncRR(r) == EncName(r.name) \o U16(r.type) \o U16(r.class) \o U32(r.ttl) \o Vec16(EncData(r))
EncQ(q) == EncName(q.name) \o U16(q.type) \o U16(q.class)
\* m.z: the three header bits between RA and RCODE (Z, AD, CD - RFC 1035 4.1.1, RFC 4035): set by other encoders (every
\* validating resolver sets AD), not modelled by this package's Message, and no part of the RCODE
FlagWord(m) == m.qr * 32768 + m.opcode * 2048 + m.aa * 1024 + m.tc * 512 + m.rd * 256 + m.ra * 128 + m.z * 16 + m.rcode
Header(m) == U16(m.id) \o U16(FlagWord(m)) \o U16(Len(m.question)) \o U16(Len(m.answer)) \o U16(Len(m.authority)) \o U16(Len(m.additional))
AllRR(m) == m.answer \o m.authority \o m.additional
EncMsg(m) == Header(m) \o Flat([i \in 1..Len(m.question) |-> EncQ(m.question[i])]) \o Flat([i \in 1..Len(AllRR(m)) |-> EncRR(AllRR(m)[i])])

\* ------------------------------------------------------------------ compressing encoder
\* dict: set of [s |-> suffix (Seq of labels), off |-> offset of its first occurrence]
Ptr(off) == <<192 + off \div 256, off % 256>>
RECURSIVE EncNameC(_, _, _)
EncNameC(nm, off, dict) ==
  IF nm = <<>> THEN [b |-> <<0>>, d |-> dict]
  ELSE IF \E e \in dict : e.s = nm
       THEN LET o == CHOOSE x \in {e.off : e \in {f \in dict : f.s = nm}} : \A y \in {e.off : e \in {f \in dict : f.s = nm}} : x <= y
            IN [b |-> Ptr(o), d |-> dict]
       ELSE LET rest == EncNameC(Tail(nm), off + 1 + Len(Head(nm)), IF off < 16384 THEN dict \cup {[s |-> nm, off |-> off]} ELSE dict)
            IN [b |-> EncLabel(Head(nm)) \o rest.b, d |-> rest.d]

\* one RR appended at offset off; names inside NS/CNAME/PTR/MX RDATA are compressed too (RFC 1035 4.1.4), SVCB/HTTPS targets never (RFC 9460 2.2)
EncRRC(r, off, dict) ==
  LET own == EncNameC(r.name, off, dict)
      roff == off + Len(own.b) + 10
      rd == IF r.type \in NameTypes THEN LET x == EncNameC(r.data.name, roff, own.d) IN [b |-> x.b, d |-> x.d]
            ELSE IF r.type = tMX THEN LET x == EncNameC(r.data.name, roff + 2, own.d) IN [b |-> U16(r.data.pref) \o x.b, d |-> x.d]
            ELSE [b |-> EncData(r), d |-> own.d]
  IN [b |-> own.b \o U16(r.type) \o U16(r.class) \o U32(r.ttl) \o Vec16(rd.b), d |-> rd.d]

RECURSIVE EncQsC(_, _, _)
EncQsC(qs, off, dict) == IF qs = <<>> THEN [b |-> <<>>, d |-> dict]
                         ELSE LET n == EncNameC(Head(qs).name, off, dict)
                                  one == n.b \o U16(Head(qs).type) \o U16(Head(qs).class)
                                  rest == EncQsC(Tail(qs), off + Len(one), n.d)
                              IN [b |-> one \o rest.b, d |-> rest.d]
RECURSIVE EncRRsC(_, _, _)
EncRRsC(rs, off, dict) == IF rs = <<>> THEN [b |-> <<>>, d |-> dict]
                          ELSE LET one == EncRRC(Head(rs), off, dict)
                                   rest == EncRRsC(Tail(rs), off + Len(one.b), one.d)
                               IN [b |-> one.b \o rest.b, d |-> rest.d]
EncMsgC(m) == LET q == EncQsC(m.question, 12, {})
                  r == EncRRsC(AllRR(m), 12 + Len(q.b), q.d)
              IN Header(m) \o q.b \o r.b

\* ------------------------------------------------------------------ decoder (framing and names)
Err == [ok |-> FALSE]
\* positions are 0-based offsets into b
At(b, p) == b[p + 1]
\* read a name starting at offset p; seg = start of the current label run; ret = offset after the name in the stream the
\* caller is reading (-1 until the first pointer or the terminating zero fixes it)
RECURSIVE RdName(_, _, _, _, _, _)
RdName(b, p, seg, acc, ret, fuel) ==
  IF fuel = 0 \/ p >= Len(b) THEN Err
  ELSE LET c == At(b, p) IN
    IF c = 0 THEN [ok |-> TRUE, v |-> acc, p |-> IF ret < 0 THEN p + 1 ELSE ret]
    ELSE IF c >= 192 THEN
      IF p + 1 >= Len(b) THEN Err
      ELSE LET t == (c - 192) * 256 + At(b, p + 1) IN
           IF t >= seg THEN Err                                   \* must point strictly before the current label run
           ELSE RdName(b, t, t, acc, IF ret < 0 THEN p + 2 ELSE ret, fuel - 1)
    ELSE IF c >= 64 THEN Err
    ELSE IF p + 1 + c > Len(b) THEN Err
    ELSE RdName(b, p + 1 + c, seg, Append(acc, SubSeq(b, p + 2, p + 1 + c)), ret, fuel - 1)
Name(b, p) == RdName(b, p, p, <<>>, -1, 2 * Len(b) + 2)

Rd16(b, p) == IF p + 2 > Len(b) THEN Err ELSE [ok |-> TRUE, v |-> At(b, p) * 256 + At(b, p + 1), p |-> p + 2]
Rd32(b, p) == IF p + 4 > Len(b) THEN Err ELSE [ok |-> TRUE, v |-> SubSeq(b, p + 1, p + 4), p |-> p + 4]

DecQ(b, p) ==
  LET n == Name(b, p) IN IF ~n.ok THEN Err ELSE
  LET t == Rd16(b, n.p) IN IF ~t.ok THEN Err ELSE
  LET c == Rd16(b, t.p) IN IF ~c.ok THEN Err ELSE
  [ok |-> TRUE, v |-> [name |-> n.v, type |-> t.v, class |-> c.v], p |-> c.p]

\* RDATA: names are decoded (with pointers into the whole message) for the name-bearing types, everything else stays bytes
DecRR(b, p) ==
  LET n == Name(b, p) IN IF ~n.ok THEN Err ELSE
  LET t == Rd16(b, n.p) IN IF ~t.ok THEN Err ELSE
  LET c == Rd16(b, t.p) IN IF ~c.ok THEN Err ELSE
  LET ttl == Rd32(b, c.p) IN IF ~ttl.ok THEN Err ELSE
  LET l == Rd16(b, ttl.p) IN IF ~l.ok \/ l.p + l.v > Len(b) THEN Err ELSE
  LET rdStart == l.p  rdEnd == l.p + l.v
      bb == SubSeq(b, 1, rdEnd)                                     \* RDATA parsing never reads past its declared end
      data == IF t.v \in NameTypes THEN LET x == Name(bb, rdStart) IN IF ~x.ok \/ x.p # rdEnd THEN Err ELSE [ok |-> TRUE, v |-> [name |-> x.v]]
              ELSE IF t.v = tMX THEN LET pr == Rd16(bb, rdStart) IN IF ~pr.ok THEN Err ELSE
                                     LET x == Name(bb, pr.p) IN IF ~x.ok \/ x.p # rdEnd THEN Err ELSE [ok |-> TRUE, v |-> [pref |-> pr.v, name |-> x.v]]
              ELSE [ok |-> TRUE, v |-> [raw |-> SubSeq(b, rdStart + 1, rdEnd)]]
  IN IF ~data.ok THEN Err ELSE
     [ok |-> TRUE, v |-> [name |-> n.v, type |-> t.v, class |-> c.v, ttl |-> ttl.v, data |-> data.v], p |-> rdEnd]

RECURSIVE DecMany(_, _, _, _, _)
DecMany(b, p, n, isq, acc) ==
  IF n = 0 THEN [ok |-> TRUE, v |-> acc, p |-> p]
  ELSE LET x == IF isq THEN DecQ(b, p) ELSE DecRR(b, p) IN
       IF ~x.ok THEN Err ELSE DecMany(b, x.p, n - 1, isq, Append(acc, x.v))

DecMsg(b) ==
  IF Len(b) < 12 THEN Err ELSE
  LET id == Rd16(b, 0)  fl == Rd16(b, 2)  qd == Rd16(b, 4)  an == Rd16(b, 6)  ns == Rd16(b, 8)  ar == Rd16(b, 10)
      q == DecMany(b, 12, qd.v, TRUE, <<>>) IN IF ~q.ok THEN Err ELSE
  LET a == DecMany(b, q.p, an.v, FALSE, <<>>) IN IF ~a.ok THEN Err ELSE
  LET n == DecMany(b, a.p, ns.v, FALSE, <<>>) IN IF ~n.ok THEN Err ELSE
  LET r == DecMany(b, n.p, ar.v, FALSE, <<>>) IN IF ~r.ok \/ r.p # Len(b) THEN Err ELSE
  [ok |-> TRUE, v |-> [id |-> id.v, qr |-> fl.v \div 32768, opcode |-> (fl.v \div 2048) % 16, aa |-> (fl.v \div 1024) % 2, tc |-> (fl.v \div 512) % 2,
                       rd |-> (fl.v \div 256) % 2, ra |-> (fl.v \div 128) % 2, z |-> 0, rcode |-> fl.v % 16,
                       question |-> q.v, answer |-> a.v, authority |-> n.v, additional |-> r.v]]

\* the message as DecMsg sees it: RDATA of the types it does not take apart stays as (plain-encoded) bytes
SemiRR(r) == [name |-> r.name, type |-> r.type, class |-> r.class, ttl |-> r.ttl,
              data |-> IF r.type \in NameTypes THEN [name |-> r.data.name]
                       ELSE IF r.type = tMX THEN [pref |-> r.data.pref, name |-> r.data.name]
                       ELSE [raw |-> EncData(r)]]
Semi(m) == [m EXCEPT !.z = 0, !.answer = [i \in DOMAIN m.answer |-> SemiRR(m.answer[i])],
                     !.authority = [i \in DOMAIN m.authority |-> SemiRR(m.authority[i])],
                     !.additional = [i \in DOMAIN m.additional |-> SemiRR(m.additional[i])]]

\* ------------------------------------------------------------------ padding and extended RCODE
OptIdx(m) == IF \E i \in DOMAIN m.additional : m.additional[i].type = tOPT
             THEN CHOOSE i \in DOMAIN m.additional : m.additional[i].type = tOPT /\ \A j \in 1..(i-1) : m.additional[j].type # tOPT ELSE 0
RECURSIVE NoPadding(_)
NoPadding(os) == IF os = <<>> THEN <<>> ELSE IF Head(os).code = 12 THEN NoPadding(Tail(os)) ELSE <<Head(os)>> \o NoPadding(Tail(os))
Pad(m) ==
  LET i == OptIdx(m)
      m1 == IF i = 0 THEN [m EXCEPT !.additional = Append(m.additional, [name |-> <<>>, type |-> tOPT, class |-> 4096, ttl |-> <<0, 0, 0, 0>>, data |-> [opts |-> <<>>]])] ELSE m
      j == OptIdx(m1)
      kept == NoPadding(m1.additional[j].data.opts)
      m2 == [m1 EXCEPT !.additional[j].data.opts = kept]
      size == (128 - ((Len(EncMsg(m2)) + 4) % 128)) % 128
  IN [m2 EXCEPT !.additional[j].data.opts = kept \o <<[code |-> 12, data |-> Rep(0, size)]>>]
ExtRcode(m) == LET i == OptIdx(m) IN IF i = 0 THEN m.rcode ELSE m.rcode + 16 * m.additional[i].ttl[1]

VARIABLES m
Next == UNCHANGED m
\* ---- what TLC checks on every message of the domain
RoundTrip == LET d == DecMsg(EncMsg(m)) IN d.ok /\ d.v = Semi(m)
RoundTripCompressed == LET d == DecMsg(EncMsgC(m)) IN d.ok /\ d.v = Semi(m)
CompressionNeverLonger == Len(EncMsgC(m)) <= Len(EncMsg(m))
PaddingRule == LET p == Pad(m) IN /\ Len(EncMsg(p)) % 128 = 0
                                  /\ p.question = m.question /\ p.answer = m.answer /\ p.authority = m.authority
                                  /\ DecMsg(EncMsg(p)).ok
=============================================================================
