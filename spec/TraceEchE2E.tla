---------------------------- MODULE TraceEchE2E ----------------------------
(* Trace validation of real-stack handshakes (crypto/tls client <-> Conn <-> crypto/tls backend / public-name server)
   against EchConn: every record that crossed the Conn, in order, with its class and whether the backend received it
   byte-identical ("same") or rewritten; and the end state against EchE2E's Expect. *)
EXTENDS EchConn, Json, IOUtils

KS1 == {"K1"}
FirstAll == {"acc", "grease", "plain"}
Trace == ndJsonDeserialize(IOEnv.TRACE_FILE)
ASSUME TLCSet(1, 0)
VARIABLES l
tvars == <<vars, l>>
Ev == Trace[l]
Has == l <= Len(Trace)

TraceInit ==
  /\ l = 2
  /\ first = Trace[1].scen.first /\ keyset = "K1" /\ wDead = FALSE
  /\ accepted = (first = "acc") /\ rPass = (first # "acc") /\ wPass = (first # "acc")
  /\ retry = 0 /\ seq = (IF first = "acc" THEN 1 ELSE 0) /\ cseq = 1 /\ st = "ok" /\ hist = <<>> /\ outs = <<>>

CSymsOf(c, len) == CASE c = "CH" -> {"CH2ok", "CH2noEch"}
                     [] c = "CCS" -> {"CCS"}
                     [] c = "APP" -> IF len = 0 THEN {"ZEROAPP"} ELSE {"APP"}
                     [] c = "ALERT" -> {"ALERT"}
                     [] OTHER -> IF len = 0 THEN {"ZERO"} ELSE {"HSother"}
BSymOf(c, len) == CASE c = "SH" -> "SH" [] c = "HRR" -> "HRR" [] c = "APP" -> "APP" [] c = "CCS" -> "CCS"
                    [] OTHER -> IF len = 0 THEN "ZERO" ELSE "HSother"

ObsR == /\ Has /\ Ev.e = "r"
        /\ \E s \in CSymsOf(Ev.c, Ev.len) : Read(s)
        /\ outs'[Len(outs')] = (IF Ev.same THEN <<"fwd">> ELSE <<"inner">>)
        /\ l' = l + 1
ObsW == /\ Has /\ Ev.e = "w"
        /\ Write(BSymOf(Ev.c, Ev.len)) /\ outs'[Len(outs')] = <<"fwd">>
        /\ l' = l + 1
\* end state = EchE2E!Expect
ObsEnd ==
  /\ Has /\ Ev.e = "end"
  /\ CASE first = "acc" ->
            /\ Ev.client_ech /\ Ev.echo /\ Ev.conn_accepted /\ Ev.conn_sni_inner /\ Ev.backend_sni_inner /\ Ev.names_ok /\ Ev.conn_alpn_ok
            /\ Ev.client_err = "" /\ Ev.server_err = "" /\ ~Ev.first_same /\ Ev.fwd_ok
       [] first = "grease" ->
            /\ Ev.client_err = "ech_rejected" /\ Ev.retry_ok /\ ~Ev.conn_accepted /\ Ev.conn_sni_public /\ Ev.first_same /\ ~Ev.client_ech
       [] OTHER ->
            /\ ~Ev.client_ech /\ Ev.echo /\ ~Ev.conn_accepted /\ Ev.conn_sni_inner /\ Ev.backend_sni_inner /\ Ev.names_ok /\ Ev.conn_alpn_ok
            /\ Ev.client_err = "" /\ Ev.server_err = "" /\ Ev.first_same /\ Ev.fwd_ok
  /\ st = "ok"
  /\ l' = l + 1 /\ UNCHANGED vars
ObsReset ==
  /\ Has /\ Ev.e = "reset" /\ Trace[l-1].e = "end"
  /\ first' = Ev.scen.first /\ keyset' = "K1" /\ wDead' = FALSE
  /\ accepted' = (Ev.scen.first = "acc") /\ rPass' = (Ev.scen.first # "acc") /\ wPass' = (Ev.scen.first # "acc")
  /\ retry' = 0 /\ seq' = (IF Ev.scen.first = "acc" THEN 1 ELSE 0) /\ cseq' = 1 /\ st' = "ok" /\ hist' = <<>> /\ outs' = <<>>
  /\ l' = l + 1
TraceNext == ObsR \/ ObsW \/ ObsEnd \/ ObsReset
HighWater == TLCSet(1, IF TLCGet(1) > l THEN TLCGet(1) ELSE l)
TraceAccepted ==
  IF TLCGet(1) = Len(Trace) + 1 THEN TRUE
  ELSE Print(<<"TRACE_REJECTED_AT", TLCGet(1), IF TLCGet(1) <= Len(Trace) THEN Trace[TLCGet(1)] ELSE "eof">>, FALSE)
=============================================================================
