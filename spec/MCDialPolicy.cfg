SPECIFICATION Spec
CONSTANTS MaxN = 2
INVARIANTS TypeOK NeverWithoutECH CallerECHKept FromOwnRecord ServerNameFromCaller OneRetryExact RetryHappens
CHECK_DEADLOCK FALSE
