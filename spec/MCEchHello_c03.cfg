SPECIFICATION Spec
CONSTANTS
 OuterNames <- Outers5
 InnerNames <- AllInners
 KeyLists <- KL_one
 ClientKeys <- OneKey
 Ops <- NoneOp
 Pads <- Pad2
 Sids <- Sid2
INVARIANTS TypeOK Req_C02 Req_C02_Tamper Req_C03 Req_C04 Req_C04_NeverAccept Req_C05 Req_C09 Emit
PROPERTY Termination
CHECK_DEADLOCK FALSE
