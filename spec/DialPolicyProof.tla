------------------------ MODULE DialPolicyProof ------------------------
(* Unbounded version of DialPolicy's requirements on the history of DialFunc invocations: for EVERY number of targets
   and every per-target record, outcome script and interleaving, no invocation is made without an ECH config list when
   RequireECH is set, a list supplied by the caller is what every first invocation gets, a list taken from DNS is the
   one of the target's own record (else the bootstrap list, else none), and the TLS server name is the caller's (else
   the host named in the address). TLAPS, inductive invariant; the retry count clause (OneRetryExact, stated with
   Cardinality) stays with TLC. *)
EXTENDS DialPolicy, TLAPS

ASSUME MaxNNat == MaxN \in Nat

States == {"new", "refused", "called", "retrying", "failed", "ok"}
Shape == /\ n \in Nat /\ cech \in CallerEch /\ csn \in CallerSn /\ req \in BOOLEAN /\ pub \in PubNames
         /\ tech \in [1..n -> TargetEch] /\ script \in [1..n -> Scripts]
         /\ att \in [1..n -> Nat] /\ st \in [1..n -> States]
\* a target waiting for its second invocation got there through a rejection that came with retry configs
RetryingOK == \A i \in T : st[i] = "retrying" => RetryOfI(i, script[i][1]) # Nil
\* every recorded invocation is what the derivation prescribes
CallsOK == \A c \in calls : /\ c.i \in T /\ c.sn = SnFor(c.i)
                            /\ c.k = 1 => c.ech = EchFor(c.i) /\ ~(req /\ EchFor(c.i) = Nil)
                            /\ c.k # 1 => c.ech # Nil
Inv == Shape /\ RetryingOK /\ CallsOK

THEOREM InitInv == Init => Inv
  BY MaxNNat DEF Init, Inv, Shape, RetryingOK, CallsOK, T, States

LEMMA ScriptFacts == \A s \in Scripts : Len(s) >= 1
  BY DEF Scripts

LEMMA StepInv == Inv /\ [Next]_vars => Inv'
<1> SUFFICES ASSUME Inv, [Next]_vars PROVE Inv'
  OBVIOUS
<1> USE DEF Inv, Shape, T, States
<1>1 ASSUME NEW i \in T, Refuse(i) PROVE Inv'
  BY <1>1 DEF Refuse, scen, RetryingOK, CallsOK, RetryOfI, EchFor, BaseEch, NeedECH, SnFor
<1>2 ASSUME NEW i \in T, Invoke1(i) PROVE Inv'
  <2>1 Shape' /\ RetryingOK'
    BY <1>2 DEF Invoke1, scen, RetryingOK, RetryOfI, EchFor, BaseEch, NeedECH
  <2>2 CallsOK'
    BY <1>2 DEF Invoke1, scen, CallsOK, EchFor, BaseEch, NeedECH, SnFor
  <2> QED BY <2>1, <2>2
<1>3 ASSUME NEW i \in T, Outcome(i) PROVE Inv'
  <2>1 Shape' /\ CallsOK'
    BY <1>3 DEF Outcome, scen, CallsOK, EchFor, BaseEch, NeedECH, SnFor
  <2>2 RetryingOK'
    <3>1 CASE RetryOfI(i, OutcomeOf(i)) # Nil /\ att[i] = 1 /\ OutcomeOf(i) # "ok"
      <4>1 Len(script[i]) >= 1
        BY ScriptFacts
      <4>2 OutcomeOf(i) = script[i][1]
        BY <3>1, <4>1 DEF OutcomeOf
      <4> QED BY <1>3, <3>1, <4>2 DEF Outcome, scen, RetryingOK, RetryOfI, EchFor, BaseEch, NeedECH
    <3>2 CASE ~(RetryOfI(i, OutcomeOf(i)) # Nil /\ att[i] = 1 /\ OutcomeOf(i) # "ok")
      BY <1>3, <3>2 DEF Outcome, scen, RetryingOK, RetryOfI, EchFor, BaseEch, NeedECH
    <3> QED BY <3>1, <3>2
  <2> QED BY <2>1, <2>2
<1>4 ASSUME NEW i \in T, Invoke2(i) PROVE Inv'
  <2>1 Shape' /\ RetryingOK'
    BY <1>4 DEF Invoke2, scen, RetryingOK, RetryOfI, EchFor, BaseEch, NeedECH
  <2>2 CallsOK'
    BY <1>4 DEF Invoke2, scen, CallsOK, RetryingOK, EchFor, BaseEch, NeedECH, SnFor
  <2> QED BY <2>1, <2>2
<1>5 CASE UNCHANGED vars
  BY <1>5 DEF vars, scen, RetryingOK, CallsOK, RetryOfI, EchFor, BaseEch, NeedECH, SnFor
<1> QED BY <1>1, <1>2, <1>3, <1>4, <1>5 DEF Next

Policy == NeverWithoutECH /\ CallerECHKept /\ FromOwnRecord /\ ServerNameFromCaller
LEMMA InvPolicy == Inv => Policy
  BY DEF Inv, Shape, CallsOK, Policy, NeverWithoutECH, CallerECHKept, FromOwnRecord, ServerNameFromCaller, EchFor, BaseEch, NeedECH, SnFor,
         CallerEch, CallerSn, PubNames, TargetEch, Nil, Boot, Host, T

THEOREM PolicyAlways == Spec => []Policy
  BY InitInv, StepInv, InvPolicy, PTL DEF Spec
=============================================================================
