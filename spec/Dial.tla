---------------------------- MODULE Dial ----------------------------
EXTENDS Integers, Sequences, FiniteSets, TLC

CONSTANTS MaxN, MaxK, Delay, Timeout, Durs, CancelTimes

NoCancel == -1
Kinds == {"ok", "fail", "hang", "rerr", "stub"}
\* "rerr": a target that ends in an error without an attempt - its name does not resolve, or RequireECH is set and the target has
\* no ECH config list (dial.go: both report through the same error path and the worker goes on with the next target).
\* "stub": a DialFunc that does not look at its context and succeeds after d (later than Timeout): Dial cannot bound it,
\* but the connection it produces is still a connection - delivered, or closed if the outcome is already decided
Outcome == [kind : {"ok","fail"}, d : Durs] \cup {[kind |-> "hang", d |-> 0], [kind |-> "rerr", d |-> 0], [kind |-> "stub", d |-> Timeout + 1]}

VARIABLES n, oc, K, cancelAt,            \* scenario
          now, pcancel, done,
          fpc, fi, ftimer, tclosed,
          wpc, wt, wstart, wlive, doneAt,
          eclosed,
          mpc, errs, result,
          cstat,                        \* per-target conn status
          startedLive, startAt, orderOK, earlyFeeds, lateCancelledOK, lastFailSeen, lastFeed

scen == <<n, oc, K, cancelAt>>
vars == <<n, oc, K, cancelAt, now, pcancel, done, fpc, fi, ftimer, tclosed, wpc, wt, wstart, wlive, doneAt, eclosed, mpc, errs, result, cstat,
          startedLive, startAt, orderOK, earlyFeeds, lateCancelledOK, lastFailSeen, lastFeed>>

W == 1..MaxK
Workers == 1..K

InitRest ==
  /\ now = 0 /\ pcancel = FALSE /\ done = FALSE
  /\ fpc = "next" /\ fi = 1 /\ ftimer = 0 /\ tclosed = FALSE
  /\ wpc = [w \in W |-> IF w <= K THEN "idle" ELSE "off"]
  /\ wt = [w \in W |-> 0] /\ wstart = [w \in W |-> 0] /\ wlive = [w \in W |-> TRUE] /\ doneAt = -1
  /\ eclosed = FALSE
  /\ mpc = "select" /\ errs = 0 /\ result = "none"
  /\ cstat = [i \in 1..n |-> "none"]
  /\ startedLive = 0 /\ startAt = [i \in 1..MaxN |-> -1] /\ orderOK = TRUE /\ earlyFeeds = 0 /\ lateCancelledOK = TRUE
  /\ lastFailSeen = FALSE /\ lastFeed = -1

Init ==
  /\ n \in 0..MaxN
  /\ oc \in [1..n -> Outcome]
  /\ K \in 1..MaxK
  /\ cancelAt \in CancelTimes \cup {NoCancel}
  /\ InitRest

UNCH_SCEN == UNCHANGED scen /\ UNCHANGED <<wlive, doneAt>>
\* for the steps that end the Dial context: remember the instant
UNCH_SCEN_D == UNCHANGED scen /\ UNCHANGED wlive /\ doneAt' = (IF done THEN doneAt ELSE now)
UNCH_MON == UNCHANGED <<startedLive, startAt, orderOK, earlyFeeds, lateCancelledOK, lastFailSeen, lastFeed>>

\* ---------------- feeder ----------------
FeederNext ==
  /\ fpc = "next"
  /\ IF fi > n THEN /\ fpc' = "closed" /\ tclosed' = TRUE /\ UNCHANGED ftimer
     ELSE IF fi = 1 THEN /\ fpc' = "send" /\ UNCHANGED <<tclosed, ftimer>>
     ELSE /\ fpc' = "wait" /\ ftimer' = now + Delay /\ UNCHANGED tclosed
  /\ UNCHANGED <<now, pcancel, done, fi, wpc, wt, wstart, eclosed, mpc, errs, result, cstat>> /\ UNCH_SCEN /\ UNCH_MON

FeederWaitOver ==
  /\ fpc = "wait" /\ (done \/ now >= ftimer)
  /\ fpc' = "send"
  /\ UNCHANGED <<now, pcancel, done, fi, ftimer, tclosed, wpc, wt, wstart, eclosed, mpc, errs, result, cstat>> /\ UNCH_SCEN /\ UNCH_MON

FeedSend(w) ==
  /\ fpc = "send" /\ wpc[w] = "idle"
  /\ wpc' = [wpc EXCEPT ![w] = "got"] /\ wt' = [wt EXCEPT ![w] = fi]
  /\ fi' = fi + 1 /\ fpc' = "next"
  /\ earlyFeeds' = IF ~done /\ lastFeed >= 0 /\ now < lastFeed + Delay THEN earlyFeeds + 1 ELSE earlyFeeds
  /\ lastFeed' = now
  /\ UNCHANGED <<startedLive, startAt, orderOK, lateCancelledOK, lastFailSeen>>
  /\ UNCHANGED <<now, pcancel, done, ftimer, tclosed, wstart, eclosed, mpc, errs, result, cstat>> /\ UNCH_SCEN

\* ---------------- workers ----------------
WorkerExit(w) ==
  /\ wpc[w] = "idle" /\ tclosed
  /\ wpc' = [wpc EXCEPT ![w] = "done"]
  /\ UNCHANGED <<now, pcancel, done, fpc, fi, ftimer, tclosed, wt, wstart, eclosed, mpc, errs, result, cstat>> /\ UNCH_SCEN /\ UNCH_MON

\* the per-attempt context is derived from the Dial context (dial.go:248); it is live iff the Dial context still is.
\* (Cancellation reaches derived contexts one after the other: an attempt whose context existed before the Dial
\* context ended may still read it as live for the rest of that instant.)
WorkerCtx(w) ==
  /\ wpc[w] = "got" /\ oc[wt[w]].kind # "rerr"
  /\ wpc' = [wpc EXCEPT ![w] = "ctx"] /\ wlive' = [wlive EXCEPT ![w] = ~done]
  /\ UNCHANGED <<now, pcancel, done, fpc, fi, ftimer, tclosed, wt, wstart, eclosed, mpc, errs, result, cstat, doneAt>> /\ UNCHANGED scen /\ UNCH_MON

WorkerStart(w) ==
  /\ wpc[w] \in {"got", "ctx"}
  /\ wpc[w] = (IF oc[wt[w]].kind = "rerr" THEN "got" ELSE "ctx")
  /\ LET i == wt[w] IN
     IF oc[i].kind = "rerr"
     THEN /\ wpc' = [wpc EXCEPT ![w] = "senderr"] /\ UNCHANGED wstart /\ UNCH_MON
     ELSE /\ wpc' = [wpc EXCEPT ![w] = "dialing"] /\ wstart' = [wstart EXCEPT ![w] = now]
          \* target order: no later target may have been started at an earlier instant. (Two targets handed out at the same
          \* instant - the second one released by an earlier failure - reach their workers in order, but which worker calls
          \* its DialFunc first is a scheduling matter and is not constrained.)
          /\ orderOK' = (orderOK /\ (done \/ \A j \in (i+1)..MaxN : startAt[j] \in {-1, now}))
          /\ startAt' = [startAt EXCEPT ![i] = now]
          /\ UNCHANGED <<earlyFeeds, lastFeed, lastFailSeen>>
          /\ lateCancelledOK' = (lateCancelledOK /\ (mpc = "ret" => done))
          /\ startedLive' = startedLive
  /\ UNCHANGED <<now, pcancel, done, fpc, fi, ftimer, tclosed, wt, eclosed, mpc, errs, result, cstat>> /\ UNCH_SCEN

EndOutcome(w) ==
  /\ wpc[w] = "dialing"
  /\ LET i == wt[w] IN
     /\ oc[i].kind \in {"ok", "fail", "stub"} /\ now = wstart[w] + oc[i].d
     /\ IF oc[i].kind \in {"ok", "stub"}
        THEN /\ wpc' = [wpc EXCEPT ![w] = "sendconn"] /\ cstat' = [cstat EXCEPT ![i] = "estab"]
        ELSE /\ wpc' = [wpc EXCEPT ![w] = "senderr"] /\ UNCHANGED cstat
  /\ UNCHANGED <<now, pcancel, done, fpc, fi, ftimer, tclosed, wt, wstart, eclosed, mpc, errs, result>> /\ UNCH_SCEN /\ UNCH_MON

EndCtx(w) ==
  /\ wpc[w] = "dialing" /\ oc[wt[w]].kind # "stub" /\ (done \/ now >= wstart[w] + Timeout)
  /\ wpc' = [wpc EXCEPT ![w] = "senderr"]
  /\ UNCHANGED <<now, pcancel, done, fpc, fi, ftimer, tclosed, wt, wstart, eclosed, mpc, errs, result, cstat>> /\ UNCH_SCEN /\ UNCH_MON

SendConnDrop(w) ==
  /\ wpc[w] = "sendconn" /\ done
  /\ wpc' = [wpc EXCEPT ![w] = "idle"] /\ cstat' = [cstat EXCEPT ![wt[w]] = "closed"]
  /\ UNCHANGED <<now, pcancel, done, fpc, fi, ftimer, tclosed, wt, wstart, eclosed, mpc, errs, result>> /\ UNCH_SCEN /\ UNCH_MON

SendConnRecv(w) ==
  /\ wpc[w] = "sendconn" /\ mpc = "select"
  /\ wpc' = [wpc EXCEPT ![w] = "idle"] /\ cstat' = [cstat EXCEPT ![wt[w]] = "returned"]
  /\ mpc' = "gotconn" /\ result' = "conn"
  /\ UNCHANGED <<now, pcancel, done, fpc, fi, ftimer, tclosed, wt, wstart, eclosed, errs>> /\ UNCH_SCEN /\ UNCH_MON

\* the collector's deferred cancel() runs after the receive; other goroutines may run in between
CollectorRet ==
  /\ mpc = "gotconn"
  /\ mpc' = "ret" /\ done' = TRUE
  /\ UNCHANGED <<now, pcancel, fpc, fi, ftimer, tclosed, wpc, wt, wstart, eclosed, errs, result, cstat>> /\ UNCH_SCEN_D /\ UNCH_MON

SendErrDrop(w) ==
  /\ wpc[w] = "senderr" /\ done
  /\ wpc' = [wpc EXCEPT ![w] = "idle"]
  /\ UNCHANGED <<now, pcancel, done, fpc, fi, ftimer, tclosed, wt, wstart, eclosed, mpc, errs, result, cstat>> /\ UNCH_SCEN /\ UNCH_MON

SendErrRecv(w) ==
  /\ wpc[w] = "senderr" /\ mpc = "select"
  /\ wpc' = [wpc EXCEPT ![w] = "idle"]
  /\ mpc' = "wake" /\ errs' = errs + 1
  /\ UNCHANGED <<now, pcancel, done, fpc, fi, ftimer, tclosed, wt, wstart, eclosed, result, cstat>> /\ UNCH_SCEN /\ UNCH_MON

\* ---------------- closer / collector ----------------
Closer ==
  /\ ~eclosed /\ \A w \in Workers : wpc[w] = "done"
  /\ eclosed' = TRUE
  /\ UNCHANGED <<now, pcancel, done, fpc, fi, ftimer, tclosed, wpc, wt, wstart, mpc, errs, result, cstat>> /\ UNCH_SCEN /\ UNCH_MON

CollectorWake ==
  /\ mpc = "wake"
  /\ mpc' = "select"
  /\ fpc' \in (IF fpc = "wait" THEN {"send", "wait"} ELSE {fpc})   \* delivery of a wake is optional
  /\ UNCHANGED <<now, pcancel, done, fi, ftimer, tclosed, wpc, wt, wstart, eclosed, errs, result, cstat>> /\ UNCH_SCEN /\ UNCH_MON

CollectorCtx ==
  /\ mpc = "select" /\ pcancel
  /\ mpc' = "ret" /\ result' = "ctxerr" /\ done' = TRUE
  /\ UNCHANGED <<now, pcancel, fpc, fi, ftimer, tclosed, wpc, wt, wstart, eclosed, errs, cstat>> /\ UNCH_SCEN_D /\ UNCH_MON

CollectorClosed ==
  /\ mpc = "select" /\ eclosed
  /\ mpc' = "ret" /\ result' = (IF errs = 0 THEN "noaddr" ELSE "joined") /\ done' = TRUE
  /\ UNCHANGED <<now, pcancel, fpc, fi, ftimer, tclosed, wpc, wt, wstart, eclosed, errs, cstat>> /\ UNCH_SCEN_D /\ UNCH_MON

CallerCancel ==
  /\ cancelAt # NoCancel /\ ~pcancel /\ now = cancelAt
  /\ pcancel' = TRUE /\ done' = TRUE
  /\ UNCHANGED <<now, fpc, fi, ftimer, tclosed, wpc, wt, wstart, eclosed, mpc, errs, result, cstat>> /\ UNCH_SCEN_D /\ UNCH_MON

Immediate ==
  \/ FeederNext \/ FeederWaitOver \/ Closer \/ CollectorWake \/ CollectorCtx \/ CollectorClosed \/ CollectorRet \/ CallerCancel
  \/ \E w \in Workers : FeedSend(w) \/ WorkerExit(w) \/ WorkerCtx(w) \/ WorkerStart(w) \/ EndOutcome(w) \/ EndCtx(w)
                        \/ SendConnDrop(w) \/ SendConnRecv(w) \/ SendErrDrop(w) \/ SendErrRecv(w)

Deadlines ==
  (IF fpc = "wait" /\ ftimer > now THEN {ftimer} ELSE {})
  \cup {wstart[w] + Timeout : w \in {x \in Workers : wpc[x] = "dialing" /\ oc[wt[x]].kind # "stub" /\ wstart[x] + Timeout > now}}
  \cup {wstart[w] + oc[wt[w]].d : w \in {x \in Workers : wpc[x] = "dialing" /\ oc[wt[x]].kind \in {"ok","fail","stub"} /\ wstart[x] + oc[wt[x]].d > now}}
  \cup (IF cancelAt # NoCancel /\ ~pcancel /\ cancelAt > now THEN {cancelAt} ELSE {})

Min(S) == CHOOSE x \in S : \A y \in S : x <= y

Tick ==
  /\ ~ENABLED Immediate
  /\ Deadlines # {}
  /\ now' = Min(Deadlines)
  /\ UNCHANGED <<pcancel, done, fpc, fi, ftimer, tclosed, wpc, wt, wstart, eclosed, mpc, errs, result, cstat>> /\ UNCH_SCEN /\ UNCH_MON

Next == Immediate \/ Tick
Spec == Init /\ [][Next]_vars /\ WF_vars(Next)

\* ---------------- properties ----------------
InFlight == Cardinality({w \in Workers : wpc[w] = "dialing"})
BoundedConcurrency == InFlight <= K
OrderOK == orderOK
StaggerOK == earlyFeeds <= errs
LateCancelled == lateCancelledOK
AtMostOneReturned == Cardinality({i \in 1..n : cstat[i] = "returned"}) <= 1
Quiescent == ~ENABLED Next
AllDone == /\ fpc = "closed" /\ \A w \in Workers : wpc[w] = "done" /\ eclosed /\ mpc = "ret"
QuiescentClean == Quiescent => (AllDone /\ \A i \in 1..n : cstat[i] \in {"none", "returned", "closed"})
ErrorMeansNoSuccess == (mpc = "ret" /\ result \in {"joined", "noaddr"}) => ((\A i \in 1..n : cstat[i] \in {"none", "closed"}) /\ (~pcancel => (errs = n /\ \A i \in 1..n : cstat[i] = "none")))
ConnMeansReturned == (mpc = "ret" /\ result = "conn") => \E i \in 1..n : cstat[i] = "returned"
PromptCancel == (pcancel /\ now > cancelAt) => mpc = "ret"
Termination == <>AllDone
=====================================================================
