SPECIFICATION Spec
CONSTANTS
 OuterNames <- O12
 InnerNames <- I12
 KeyLists <- KL_c09_3
 ClientKeys <- C09Clients
 Ops <- NoneUnlisted
 Pads <- Pad1
 Sids <- Sid1
INVARIANTS TypeOK Req_C02 Req_C02_Tamper Req_C03 Req_C04 Req_C04_NeverAccept Req_C05 Req_C09 Emit
PROPERTY Termination
CHECK_DEADLOCK FALSE
