------------------------------ MODULE Resolve ------------------------------
(* C14 - Resolve follows RFC 9460 and uses only answers that belong to the name asked.
   resolve.go Resolve / resolveTarget / resolveOneNoCache, transcribed step by step (one DNS query per step) over an
   abstract universe of DNS data in which an answer section may carry records of ANY owner; the requirements are
   stated separately on the query log and the result.                                                              *)
EXTENDS Integers, Sequences, FiniteSets, TLC

CONSTANTS Inputs,        \* input forms: [id, host, port, scheme, valid, literal]
          HShapes, AShapes, A6Shapes, TShapes     \* shapes of the DNS data (see Zone)

Origin == "o"
\* a query name: the origin/alias/target name itself, or the RFC 9460 2.3 prefixed form of the origin
N(base) == [pre |-> "", base |-> base]
SvcbName(inp) == IF inp.port \notin {80, 443} THEN [pre |-> "port+scheme", base |-> Origin]
                 ELSE IF inp.scheme # "https" THEN [pre |-> "scheme", base |-> Origin]
                 ELSE N(Origin)

\* ---- DNS data. Resp(shape...) gives for a question the rcode and the answer section (records of any owner).
RR(owner, typ, data) == [owner |-> owner, typ |-> typ, data |-> data]
Svc(prio, target, ech) == [prio |-> prio, target |-> target, ech |-> ech]
OK(ans) == [rcode |-> 0, ans |-> ans]
Fail(rc) == [rcode |-> rc, ans |-> <<>>]

\* HTTPS data at name n (n = the SVCB query name or an alias target w1..w6), by shape
HttpsAt(hs, n, svcb) ==
  LET w(k) == N("w" \o ToString(k)) IN
  CASE n = svcb ->
       (CASE hs = "absent"   -> OK(<<>>)
          [] hs = "nx"       -> Fail(3)
          [] hs = "servfail" -> Fail(2)
          [] hs = "refused"  -> Fail(5)
          [] hs = "notauth"  -> Fail(9)
          [] hs = "ext16"    -> Fail(16)       \* extended RCODEs (RFC 6891): BADVERS, and values whose low bits look like "no error" / NXDOMAIN
          [] hs = "ext256"   -> Fail(256)
          [] hs = "ext259"   -> Fail(259)
          [] hs = "aliasdot" -> OK(<< RR(n, "HTTPS", Svc(0, "", "nil")) >>)
          [] hs = "svcdot"   -> OK(<< RR(n, "HTTPS", Svc(1, "", "E1")) >>)
          [] hs = "svct"     -> OK(<< RR(n, "HTTPS", Svc(1, "t", "E1")) >>)
          [] hs = "svcself"  -> OK(<< RR(n, "HTTPS", Svc(1, Origin, "E1")), RR(n, "HTTPS", Svc(2, "", "nil")) >>)   \* TargetName spelled out as the name asked (usually written ".")
          [] hs = "unsorted" -> OK(<< RR(n, "HTTPS", Svc(3, "", "E2")), RR(n, "HTTPS", Svc(1, "t", "E1")), RR(n, "HTTPS", Svc(2, "", "nil")) >>)
          [] hs = "poisoned" -> OK(<< RR(N("evil"), "HTTPS", Svc(1, "evil", "E2")), RR(n, "HTTPS", Svc(2, "", "E1")) >>)
          [] hs = "cnamed"   -> OK(<< RR(n, "CNAME", N("c")), RR(N("c"), "HTTPS", Svc(1, "", "E1")) >>)
          [] hs = "loop"     -> OK(<< RR(n, "HTTPS", Svc(0, "w1", "nil")) >>)
          [] hs \in {"chain1", "chain2", "chain3", "chain4", "chain6"} -> OK(<< RR(n, "HTTPS", Svc(0, "w1", "nil")) >>))
    [] n.pre = "" /\ n.base \in {"w1", "w2", "w3", "w4", "w5", "w6"} ->
        LET k == CHOOSE j \in 1..6 : n.base = "w" \o ToString(j)
            len == CASE hs = "chain1" -> 1 [] hs = "chain2" -> 2 [] hs = "chain3" -> 3 [] hs = "chain4" -> 4 [] hs = "chain6" -> 6 [] OTHER -> 0
        IN IF hs = "loop" THEN OK(<< RR(n, "HTTPS", Svc(0, IF k = 1 THEN "w2" ELSE "w1", "nil")) >>)
           ELSE IF k < len THEN OK(<< RR(n, "HTTPS", Svc(0, "w" \o ToString(k + 1), "nil")) >>)
           ELSE IF k = len THEN OK(<< RR(n, "HTTPS", Svc(1, "", "E1")) >>)
           ELSE OK(<<>>)
    [] OTHER -> OK(<<>>)

AddrAt(shape, n, typ, ip) ==
  CASE shape = "none"     -> OK(<<>>)
    [] shape = "addr"     -> OK(<< RR(n, typ, ip) >>)
    [] shape = "two"      -> OK(<< RR(n, typ, ip), RR(n, typ, ip \o "b") >>)
    [] shape = "cname"    -> OK(<< RR(n, "CNAME", N("c")), RR(N("c"), typ, ip \o "c") >>)
    [] shape = "foreign"  -> OK(<< RR(N("evil"), typ, "evil1"), RR(n, typ, ip), RR(N("evil"), typ, "evil2") >>)
    [] shape = "foreigncname" -> OK(<< RR(N("unrelated"), "CNAME", N("evil")), RR(N("evil"), typ, "evil1"), RR(n, typ, ip) >>)
    [] shape = "cnamebroken"  -> OK(<< RR(n, "CNAME", N("c")), RR(N("evil"), typ, "evil1") >>)
    [] shape = "nx"       -> Fail(3)
    [] shape = "servfail" -> Fail(2)
    [] shape = "notauth"  -> Fail(9)
    [] shape = "ext256"   -> Fail(256)
    [] shape = "ext3840"  -> Fail(3840)

VARIABLES inp, hs, as, a6s, ts,                 \* the case
          ztab,                                 \* an explicit DNS universe (Seq of [q, r]) - used by trace validation of random zones; <<>> = the shapes
          pc, want, seen, https, addl, tq, address, queries, result

case == <<inp, hs, as, a6s, ts, ztab>>
vars == <<case, pc, want, seen, https, addl, tq, address, queries, result>>

Svcb == SvcbName(inp)
\* the DNS universe of this case
ShapeZone(q) ==
  IF q.typ = "HTTPS" THEN HttpsAt(hs, q.name, Svcb)
  ELSE IF q.name = N("t") /\ ts = "a4fail" THEN (IF q.typ = "A" THEN Fail(2) ELSE OK(<< RR(q.name, q.typ, "t6") >>))   \* the target's A lookup fails, its AAAA lookup would succeed
  ELSE IF q.name = N("t") THEN AddrAt(ts, q.name, q.typ, IF q.typ = "A" THEN "t4" ELSE "t6")
  ELSE IF q.name = N("evil") THEN OK(<< RR(q.name, q.typ, "evil9") >>)
  \* addresses differ by owner: the origin's are o4/o6, those of any other name (alias targets) x4/x6
  ELSE IF q.typ = "A" THEN AddrAt(as, q.name, "A", IF q.name = N(Origin) THEN "o4" ELSE "x4")
  ELSE AddrAt(a6s, q.name, "AAAA", IF q.name = N(Origin) THEN "o6" ELSE "x6")

Zone(q) == IF ztab = <<>> THEN ShapeZone(q)
           ELSE LET hits == {i \in DOMAIN ztab : ztab[i].q = q} IN
                IF hits = {} THEN OK(<<>>) ELSE ztab[CHOOSE i \in hits : \A j \in hits : i <= j].r

\* resolveOneNoCache's filter: records owned by the question name or reached through the in-answer CNAME chain
RECURSIVE Filter(_, _, _, _)
Filter(ans, wantName, typ, acc) ==
  IF ans = <<>> THEN acc
  ELSE LET r == Head(ans) IN
       IF r.owner = wantName /\ r.typ = "CNAME" THEN Filter(Tail(ans), r.data, typ, acc)
       ELSE IF r.owner = wantName /\ r.typ = typ THEN Filter(Tail(ans), wantName, typ, Append(acc, r.data))
       ELSE Filter(Tail(ans), wantName, typ, acc)

Q(name, typ) == [name |-> name, typ |-> typ]
Ask(name, typ) == LET r == Zone(Q(name, typ)) IN
                  [rcode |-> r.rcode, data |-> IF r.rcode = 0 THEN Filter(r.ans, name, typ, <<>>) ELSE <<>>]
ErrOf(rc) == CASE rc = 1 -> "format_error" [] rc = 2 -> "server_failure" [] rc = 3 -> "nxdomain" [] rc = 4 -> "not_implemented"
               [] rc = 5 -> "refused" [] OTHER -> "other"

Init ==
  /\ inp \in Inputs /\ hs \in HShapes /\ as \in AShapes /\ a6s \in A6Shapes /\ ts \in TShapes /\ ztab = <<>>
  /\ pc = "parse" /\ want = N(Origin) /\ seen = {} /\ https = <<>> /\ addl = <<>> /\ tq = <<>> /\ address = <<>>
  /\ queries = <<>> /\ result = [kind |-> "none"]

Finish(r) == result' = r /\ pc' = "done"

\* resolve.go:285-353: input forms, literals, name validation
StepParse ==
  /\ pc = "parse"
  /\ IF inp.literal # "" THEN Finish([kind |-> "ok", address |-> <<inp.literal>>, https |-> <<>>, addl |-> <<>>, port |-> inp.port]) /\ UNCHANGED want
     ELSE IF ~inp.valid THEN Finish([kind |-> "err", class |-> "invalid_name"]) /\ UNCHANGED want
     ELSE pc' = "alias" /\ want' = Svcb /\ UNCHANGED result
  /\ UNCHANGED <<case, seen, https, addl, tq, address, queries>>

RECURSIVE InsertSorted(_, _)
InsertSorted(s, x) == IF s = <<>> THEN <<x>> ELSE IF x.prio < Head(s).prio THEN <<x>> \o s ELSE <<Head(s)>> \o InsertSorted(Tail(s), x)
RECURSIVE SortByPrio(_)
SortByPrio(s) == IF s = <<>> THEN <<>> ELSE InsertSorted(SortByPrio(SubSeq(s, 1, Len(s) - 1)), s[Len(s)])

\* resolve.go:354-394: one HTTPS query per step
StepAlias ==
  /\ pc = "alias"
  /\ IF want \in seen \/ Cardinality(seen) >= 4
     THEN /\ want' = N(Origin) /\ pc' = "targets" /\ https' = <<>> /\ UNCHANGED <<seen, queries, result>>     \* loop / chain too long: fall back to the origin
     ELSE LET a == Ask(want, "HTTPS") IN
       /\ queries' = Append(queries, Q(want, "HTTPS")) /\ seen' = seen \cup {want}
       /\ IF a.rcode # 0 /\ a.rcode # 3 THEN Finish([kind |-> "err", class |-> ErrOf(a.rcode)]) /\ UNCHANGED <<want, https>>
          ELSE IF a.data # <<>> /\ a.data[1].prio = 0 /\ a.data[1].target = ""
               THEN https' = <<>> /\ pc' = "targets" /\ UNCHANGED <<want, result>>
          ELSE IF a.data # <<>> /\ a.data[1].prio = 0
               THEN want' = N(a.data[1].target) /\ https' = <<>> /\ UNCHANGED <<pc, result>>
          ELSE https' = SortByPrio(a.data) /\ pc' = "targets" /\ UNCHANGED <<want, result>>
  /\ tq' = <<>> /\ UNCHANGED <<case, addl, address>>

\* resolve.go:395-408,427-449: targets of the service-mode records (two queries per distinct target, errors skip it)
TargetsOf(h) == LET idx == {k \in DOMAIN h : h[k].prio > 0 /\ h[k].target # ""} IN {h[k].target : k \in idx}
StepTargets ==
  /\ pc = "targets"
  /\ LET todo == TargetsOf(https) \ {addl[k].name : k \in DOMAIN addl} IN
     IF todo = {} THEN /\ pc' = "addrs" /\ want' = (IF want = Svcb THEN N(Origin) ELSE want) /\ UNCHANGED <<addl, queries>>
     ELSE LET t == CHOOSE x \in todo : TRUE
              a == Ask(N(t), "A")  b == Ask(N(t), "AAAA") IN
          /\ queries' = IF a.rcode # 0 THEN Append(queries, Q(N(t), "A")) ELSE queries \o << Q(N(t), "A"), Q(N(t), "AAAA") >>
          /\ addl' = Append(addl, [name |-> t, ips |-> IF a.rcode # 0 THEN <<>> ELSE IF b.rcode # 0 THEN a.data ELSE a.data \o b.data])
          /\ UNCHANGED <<pc, want>>
  /\ UNCHANGED <<case, seen, https, tq, address, result>>

\* resolve.go:409-424
StepAddrs ==
  /\ pc = "addrs"
  /\ LET a == Ask(want, "A") IN
     IF a.rcode # 0 THEN /\ queries' = Append(queries, Q(want, "A")) /\ Finish([kind |-> "err", class |-> ErrOf(a.rcode)]) /\ UNCHANGED address
     ELSE LET b == Ask(want, "AAAA") IN
          /\ queries' = queries \o << Q(want, "A"), Q(want, "AAAA") >>
          /\ IF b.rcode # 0 THEN Finish([kind |-> "err", class |-> ErrOf(b.rcode)]) /\ UNCHANGED address
             ELSE /\ address' = a.data \o b.data
                  /\ Finish([kind |-> "ok", address |-> a.data \o b.data, https |-> https, addl |-> addl, port |-> inp.port])
  /\ UNCHANGED <<case, want, seen, https, addl, tq>>

Next == StepParse \/ StepAlias \/ StepTargets \/ StepAddrs
Spec == Init /\ [][Next]_vars /\ WF_vars(Next)

\* ------------------------------------------------------------------ requirements
Done == pc = "done"
HttpsQueries == {k \in DOMAIN queries : queries[k].typ = "HTTPS"}
AliasNames == {N("w1"), N("w2"), N("w3"), N("w4"), N("w5"), N("w6")}
\* RFC 9460 2.3 query names, alias targets, service targets, the origin - never a name that only appears as a foreign owner
AllowedNames == {Svcb, N(Origin), N("t")} \cup AliasNames
QueriesConformant == \A k \in DOMAIN queries : queries[k].name \in AllowedNames /\ queries[k].name # N("evil")
AliasBounded == Cardinality(HttpsQueries) <= 4
QueriesBounded == Len(queries) <= 4 + 2 * 2 + 2
\* data owned by the name asked (or reached by the in-answer CNAME chain): nothing from "evil"
EvilData == {"evil1", "evil2", "evil9"}
OnlyOwned == Done /\ result.kind = "ok" =>
               /\ \A k \in DOMAIN result.address : result.address[k] \notin EvilData
               /\ \A k \in DOMAIN result.https : (result.https[k].target # "evil" /\ result.https[k].ech # "E2") \/ hs = "unsorted"
               /\ \A k \in DOMAIN result.addl : \A j \in DOMAIN result.addl[k].ips : result.addl[k].ips[j] \notin EvilData
SortedByPriority == Done /\ result.kind = "ok" => \A a, b \in DOMAIN result.https : a < b => result.https[a].prio <= result.https[b].prio
FailShapes == {"nx", "servfail", "notauth", "ext256", "ext3840"}
NxOnHttpsIsAbsence == Done /\ hs = "nx" /\ inp.valid /\ inp.literal = "" /\ as \notin FailShapes /\ a6s \notin FailShapes => result.kind = "ok" /\ result.https = <<>>
RcodeMapping == Done /\ inp.valid /\ inp.literal = "" =>
                  /\ (hs = "servfail" => result = [kind |-> "err", class |-> "server_failure"])
                  /\ (hs = "refused" => result = [kind |-> "err", class |-> "refused"])
                  /\ (hs \in {"notauth", "ext16", "ext256", "ext259"} => result = [kind |-> "err", class |-> "other"])
NameLimits == Done /\ ~inp.valid /\ inp.literal = "" => result = [kind |-> "err", class |-> "invalid_name"] /\ queries = <<>>
LoopFallsBack == Done /\ hs \in {"loop", "chain4", "chain6"} /\ result.kind = "ok" =>
                   /\ result.https = <<>>
                   /\ \A k \in DOMAIN result.address : result.address[k] \in {"o4", "o4b", "o4c", "o6", "o6b", "o6c"}    \* the queried name's own addresses
Termination == <>Done
=============================================================================
