INIT Init
NEXT Next
CONSTANTS Domain <- F_sections
INVARIANTS RoundTrip RoundTripCompressed CompressionNeverLonger Emit
CHECK_DEADLOCK FALSE
