SPECIFICATION HSpec
CONSTANTS
 Keys = {"n1", "n2"}
 G = 1
 MaxNow = 4
 MaxGen = 1
 TtlSets <- TS_full
 Evicts = FALSE
 MaxObj = 0
INVARIANTS EntryFresh Emit
CHECK_DEADLOCK FALSE
