SPECIFICATION Spec
CONSTANTS
 Urls <- UrlsAll
 RecLists <- RecPool
 MaxReqs = 3
INVARIANTS Upgrade NoPlaintext SNIIsUrlHost HostPreserved H3Rule FilterCompatible PoolKeyInjective OriginIsolation EmitPool
CHECK_DEADLOCK FALSE
