---------------------------- MODULE DialScen ----------------------------
EXTENDS Dial, Json
EmitScen == PrintT(<<"CASE", ToJson([n |-> n, oc |-> oc, K |-> K, cancelAt |-> cancelAt])>>)
Stutter == UNCHANGED vars
=====================================================================
