INIT Init
NEXT Next
CONSTANTS Domain <- F_flags
INVARIANTS RoundTrip RoundTripCompressed CompressionNeverLonger Emit
CHECK_DEADLOCK FALSE
