INIT Init
NEXT Stutter
CONSTANTS MaxN = 4
MaxK = 3
Delay = 2
Timeout = 4
Durs = {0, 1, 5}
CancelTimes = {2}
INVARIANT EmitScen
CHECK_DEADLOCK FALSE
