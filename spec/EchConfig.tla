---------------------------- MODULE EchConfig ----------------------------
(* C11 - ECH configs and config lists encode to the standard format and round-trip.
   An executable wire specification of ECHConfig / ECHConfigList (draft-ietf-tls-esni section 4) over byte sequences:
   EncCfg / EncList and a recursive-descent ParseCfg / ParseList, written from the draft - an independent second
   definition of the format.  TLC checks, for every config list of the boundary-value domain, that parsing the
   encoding gives the list back (maximum_name_length derived from the name) and that EVERY strict prefix is rejected;
   each case (configs + bytes) is emitted and compared with config.go in both directions.                           *)
EXTENDS Integers, Sequences, FiniteSets, TLC, Json

U8(n)  == <<n % 256>>
U16(n) == <<(n \div 256) % 256, n % 256>>
Vec8(b)  == U8(Len(b)) \o b
Vec16(b) == U16(Len(b)) \o b
Rep(x, n) == [i \in 1..n |-> x]
Min(a, b) == IF a < b THEN a ELSE b

RECURSIVE Flat(_)
Flat(ss) == IF ss = <<>> THEN <<>> ELSE Head(ss) \o Flat(Tail(ss))

EncSuites(cs) == Flat([i \in 1..Len(cs) |-> U16(cs[i][1]) \o U16(cs[i][2])])
EncCfg(c) == U16(65037) \o Vec16(U8(c.id) \o U16(c.kem) \o Vec16(c.pk) \o Vec16(EncSuites(c.suites))
                                 \o U8(Min(Len(c.name) + 16, 255)) \o Vec8(c.name) \o U16(0))
\* the same config with k dangling bytes after its last cipher suite (a truncated HpkeSymmetricCipherSuite), every enclosing
\* length consistent: well-framed, but not a valid ECHConfig
EncCfgDangling(c, k) == U16(65037) \o Vec16(U8(c.id) \o U16(c.kem) \o Vec16(c.pk) \o Vec16(EncSuites(c.suites) \o Rep(0, k))
                                 \o U8(Min(Len(c.name) + 16, 255)) \o Vec8(c.name) \o U16(0))
EncListDangling(cs, k) == Vec16(EncCfgDangling(cs[1], k) \o Flat([i \in 1..(Len(cs) - 1) |-> EncCfg(cs[i + 1])]))
\* the ECHConfigContents of c, and the config / one-config list whose contents are cut to their first n bytes with the
\* enclosing lengths consistent (well-framed at list and config level; the contents themselves are truncated)
Contents(c) == U8(c.id) \o U16(c.kem) \o Vec16(c.pk) \o Vec16(EncSuites(c.suites)) \o U8(Min(Len(c.name) + 16, 255)) \o Vec8(c.name) \o U16(0)
\* the same contents carrying one (unknown, non-mandatory) extension - other implementations emit such configs
ExtData == <<127, 1, 0, 3, 1, 2, 3>>
ContentsX(c) == U8(c.id) \o U16(c.kem) \o Vec16(c.pk) \o Vec16(EncSuites(c.suites)) \o U8(Min(Len(c.name) + 16, 255)) \o Vec8(c.name) \o Vec16(ExtData)
EncListCutX(c, n) == Vec16(U16(65037) \o Vec16(SubSeq(ContentsX(c), 1, n)))
EncListCut(c, n) == Vec16(U16(65037) \o Vec16(SubSeq(Contents(c), 1, n)))
EncList(cs) == Vec16(Flat([i \in 1..Len(cs) |-> EncCfg(cs[i])]))

\* --- parser: returns [ok |-> BOOLEAN, v |-> value, rest |-> remaining bytes]
Err == [ok |-> FALSE]
RdU8(b)  == IF Len(b) < 1 THEN Err ELSE [ok |-> TRUE, v |-> b[1], rest |-> SubSeq(b, 2, Len(b))]
RdU16(b) == IF Len(b) < 2 THEN Err ELSE [ok |-> TRUE, v |-> b[1] * 256 + b[2], rest |-> SubSeq(b, 3, Len(b))]
RdVec(b, n) == IF Len(b) < n THEN Err ELSE [ok |-> TRUE, v |-> SubSeq(b, 1, n), rest |-> SubSeq(b, n + 1, Len(b))]
RdVec8(b)  == LET l == RdU8(b)  IN IF ~l.ok THEN Err ELSE RdVec(l.rest, l.v)
RdVec16(b) == LET l == RdU16(b) IN IF ~l.ok THEN Err ELSE RdVec(l.rest, l.v)

RECURSIVE ParseSuites(_)
ParseSuites(b) == IF b = <<>> THEN [ok |-> TRUE, v |-> <<>>]
                  ELSE IF Len(b) < 4 THEN Err
                  ELSE LET r == ParseSuites(SubSeq(b, 5, Len(b))) IN
                       IF ~r.ok THEN Err ELSE [ok |-> TRUE, v |-> <<<<b[1]*256+b[2], b[3]*256+b[4]>>>> \o r.v]

ParseCfg(b) ==
  LET ver == RdU16(b) IN IF ~ver.ok \/ ver.v # 65037 THEN Err ELSE
  LET body == RdVec16(ver.rest) IN IF ~body.ok THEN Err ELSE
  LET id == RdU8(body.v) IN IF ~id.ok THEN Err ELSE
  LET kem == RdU16(id.rest) IN IF ~kem.ok THEN Err ELSE
  LET pk == RdVec16(kem.rest) IN IF ~pk.ok THEN Err ELSE
  LET cs == RdVec16(pk.rest) IN IF ~cs.ok THEN Err ELSE
  LET suites == ParseSuites(cs.v) IN IF ~suites.ok THEN Err ELSE
  LET ml == RdU8(cs.rest) IN IF ~ml.ok THEN Err ELSE
  LET nm == RdVec8(ml.rest) IN IF ~nm.ok THEN Err ELSE
  LET ex == RdVec16(nm.rest) IN IF ~ex.ok \/ ex.rest # <<>> THEN Err ELSE
  [ok |-> TRUE, v |-> [id |-> id.v, kem |-> kem.v, pk |-> pk.v, suites |-> suites.v, maxlen |-> ml.v, name |-> nm.v], rest |-> body.rest]

RECURSIVE ParseCfgs(_)
ParseCfgs(b) == IF b = <<>> THEN [ok |-> TRUE, v |-> <<>>]
                ELSE LET c == ParseCfg(b) IN IF ~c.ok THEN Err ELSE
                     LET r == ParseCfgs(c.rest) IN IF ~r.ok THEN Err ELSE [ok |-> TRUE, v |-> <<c.v>> \o r.v]
ParseList(b) == LET l == RdVec16(b) IN IF ~l.ok \/ l.rest # <<>> THEN Err ELSE ParseCfgs(l.v)

\* --- bounded domain
S1 == <<1, 3>>  S2 == <<1, 2>>  S3 == <<1, 1>>
SuiteLists == {<<>>, <<S1>>, <<S2>>, <<S3>>, <<S1, S2>>, <<S2, S1>>, <<S1, S2, S3>>, <<S3, S2, S1>>}
Cfgs == [id : {0, 1, 255}, kem : {32}, pk : {Rep(7, 0), Rep(7, 1), Rep(7, 32)}, suites : SuiteLists,
         name : {Rep(97, n) : n \in {0, 1, 2, 239, 240, 255, 256}}]
\* section 4: HpkePublicKey public_key<1..2^16-1>, HpkeSymmetricCipherSuite cipher_suites<4..2^16-4>, opaque public_name<1..255>.
\* A spec outside these bounds has no well-formed encoding: ConfigSpec.Bytes must refuse it (whatever it produced would be an
\* ECHConfig that is not a section 4 structure).
Encodable(c) == Len(c.pk) >= 1 /\ Len(c.suites) >= 1 /\ Len(c.name) \in 1..255

VARIABLES cs
Init == cs \in {<<>>} \cup {<<c>> : c \in Cfgs} \cup {<<c, d>> : c \in {x \in Cfgs : x.id = 1 /\ Len(x.pk) = 32 /\ Encodable(x)}, d \in {x \in Cfgs : Len(x.name) <= 2 /\ Len(x.pk) = 32 /\ Encodable(x)}}
AllEnc == \A i \in DOMAIN cs : Encodable(cs[i])
Next == UNCHANGED cs
Spec == Init /\ [][Next]_cs
Derived(c) == [id |-> c.id, kem |-> c.kem, pk |-> c.pk, suites |-> c.suites, maxlen |-> Min(Len(c.name) + 16, 255), name |-> c.name]
RoundTrip == AllEnc => LET b == EncList(cs) p == ParseList(b) IN p.ok /\ p.v = [i \in 1..Len(cs) |-> Derived(cs[i])]
TruncRejected == AllEnc => LET b == EncList(cs) IN \A n \in 0..(Len(b) - 1) : ~ParseList(SubSeq(b, 1, n)).ok
CutDomain == Len(cs) = 1 /\ Len(cs[1].name) <= 2 /\ AllEnc
ContentsCutRejected == CutDomain => \A n \in 0..(Len(Contents(cs[1])) - 1) : ~ParseList(EncListCut(cs[1], n)).ok
ContentsCutRejectedX == CutDomain => /\ \A n \in 0..(Len(ContentsX(cs[1])) - 1) : ~ParseList(EncListCutX(cs[1], n)).ok
                                      /\ LET p == ParseList(EncListCutX(cs[1], Len(ContentsX(cs[1])))) IN p.ok /\ p.v = <<Derived(cs[1])>>
DanglingRejected == (cs # <<>> /\ AllEnc) => \A k \in 1..3 : ~ParseList(EncListDangling(cs, k)).ok
Emit == PrintT(<<"CASE", ToJson([cfgs |-> cs, encodable |-> AllEnc, bytes |-> IF AllEnc THEN EncList(cs) ELSE <<>>,
                                 cuts |-> IF CutDomain THEN [n \in 1..Len(Contents(cs[1])) |-> EncListCut(cs[1], n - 1)] ELSE <<>>,
                                 xcuts |-> IF CutDomain THEN [n \in 1..(Len(ContentsX(cs[1])) + 1) |-> EncListCutX(cs[1], n - 1)] ELSE <<>>,
                                 dangling |-> IF cs = <<>> \/ ~AllEnc THEN <<>> ELSE [k \in 1..3 |-> EncListDangling(cs, k)]])>>)
==========================================================================
