SPECIFICATION Spec
CONSTANTS Times <- DefaultTimes
 MaxTime = 3
INVARIANTS TypeOK NoLateDeadline CleanAfterReturn PromptFailure StallBounded SuccessNeedsHello
PROPERTY ReturnsIfAnything
CHECK_DEADLOCK FALSE
