---------------------------- MODULE TraceResolverCache ----------------------------
(* Trace validation for ResolverCache under real concurrency: lookups of one key by up to 16 goroutines, upstream
   queries seen by the DoH server, environment steps at barriers, the ends of callers' contexts; all logged under one
   mutex. The steps inside a lookup (map access, locks, re-check, store) are not logged: TLC infers them. *)
EXTENDS ResolverCache, Json, IOUtils

Trace == ndJsonDeserialize(IOEnv.TRACE_FILE)
ASSUME TLCSet(1, 0)
VARIABLES l
tvars == <<vars, l>>
Ev == Trace[l]
Has == l <= Len(Trace)

TtlsOf(sc) == [k \in Keys |-> [g \in 0..MaxGen |-> IF k = "n1" THEN sc.ttls[g + 1] ELSE <<2>>]]
InitWith(sc) ==
  /\ now = 0 /\ up = TRUE /\ ttls = TtlsOf(sc) /\ gen = [k \in Keys |-> 0]
  /\ nobj = 0 /\ objs = [o \in {} |-> None] /\ okey = [o \in {} |-> None] /\ olock = [o \in {} |-> 0]
  /\ cache = [k \in Keys |-> 0]
  /\ pc = [g \in Gs |-> "idle"] /\ key = [g \in Gs |-> "n1"] /\ ent = [g \in Gs |-> 0] /\ got = [g \in Gs |-> None]
  /\ fetched = [g \in Gs |-> None] /\ upq = [g \in Gs |-> FALSE] /\ upqAt = [g \in Gs |-> 0] /\ hit = [g \in Gs |-> -1]
  /\ cancelled = [g \in Gs |-> FALSE] /\ last = [g \in Gs |-> None]
TraceInit == l = 2 /\ InitWith(Trace[1].scen)

\* (Evict: only in the configuration with Evicts = TRUE - rounds run with a cache of one entry, or none)
Silent == ((\E g \in Gs : Get(g) \/ Add(g) \/ FastRead(g) \/ Lock(g) \/ Recheck(g) \/ Store(g) \/ Abandon(g)) \/ (\E k \in Keys : Evict(k))) /\ UNCHANGED l
ObsStart == Has /\ Ev.e = "start" /\ Call(Ev.g, Ev.k) /\ l' = l + 1
ObsUpq == /\ Has /\ Ev.e = "upq" /\ up = Ev.up /\ gen[Ev.k] = Ev.gen
          /\ \E g \in Gs : key[g] = Ev.k /\ Fetch(g)
          /\ l' = l + 1
\* (A Resolve call is several lookups - HTTPS, A, AAAA, the targets' addresses - and the trace follows the one on the key under
\*  test. A caller whose context has ended may see its Resolve fail in any of the others after this one has finished: such an
\*  end says nothing about the data and leaves the entry as it is.)
ObsEnd == /\ Has /\ Ev.e = "end"
          /\ Return(Ev.g)
          /\ \/ got[Ev.g].kind = Ev.kind /\ (Ev.gen >= 0 => got[Ev.g].gen = Ev.gen)
             \/ Ev.kind = "timeout" /\ cancelled[Ev.g]
          /\ l' = l + 1
\* the end of a caller's context, logged before it takes effect (a lookup that has already returned is not affected)
ObsCancel == /\ Has /\ Ev.e = "cancel"
             /\ \/ Cancel(Ev.g)
                \/ (pc[Ev.g] = "idle" \/ cancelled[Ev.g]) /\ UNCHANGED vars
             /\ l' = l + 1
ObsAdvance == Has /\ Ev.e = "advance" /\ Advance /\ l' = l + 1
ObsChange == Has /\ Ev.e = "change" /\ Change(Ev.k) /\ l' = l + 1
ObsToggle == Has /\ Ev.e = "toggle" /\ Toggle /\ l' = l + 1
ObsFin == Has /\ Ev.e = "fin" /\ (\A g \in Gs : pc[g] = "idle") /\ l' = l + 1 /\ UNCHANGED vars
ObsReset ==
  /\ Has /\ Ev.e = "reset" /\ Trace[l-1].e = "fin"
  /\ now' = 0 /\ up' = TRUE /\ ttls' = TtlsOf(Ev.scen) /\ gen' = [k \in Keys |-> 0]
  /\ nobj' = 0 /\ objs' = [o \in {} |-> None] /\ okey' = [o \in {} |-> None] /\ olock' = [o \in {} |-> 0]
  /\ cache' = [k \in Keys |-> 0]
  /\ pc' = [g \in Gs |-> "idle"] /\ key' = [g \in Gs |-> "n1"] /\ ent' = [g \in Gs |-> 0] /\ got' = [g \in Gs |-> None]
  /\ fetched' = [g \in Gs |-> None] /\ upq' = [g \in Gs |-> FALSE] /\ upqAt' = [g \in Gs |-> 0] /\ hit' = [g \in Gs |-> -1]
  /\ cancelled' = [g \in Gs |-> FALSE] /\ last' = [g \in Gs |-> None]
  /\ l' = l + 1
TraceNext == Silent \/ ObsStart \/ ObsUpq \/ ObsEnd \/ ObsCancel \/ ObsAdvance \/ ObsChange \/ ObsToggle \/ ObsFin \/ ObsReset
\* unlogged (silent) steps make the search branch: stop as soon as one explanation of the whole trace is found
HighWater == /\ TLCSet(1, IF TLCGet(1) > l THEN TLCGet(1) ELSE l)
             /\ (l = Len(Trace) + 1 => TLCSet("exit", TRUE))
TraceAccepted ==
  IF TLCGet(1) = Len(Trace) + 1 THEN TRUE
  ELSE Print(<<"TRACE_REJECTED_AT", TLCGet(1), IF TLCGet(1) <= Len(Trace) THEN Trace[TLCGet(1)] ELSE "eof">>, FALSE)
=============================================================================
