INIT Init
NEXT Next
CONSTANTS Domain <- F_big
INVARIANTS RoundTrip RoundTripCompressed CompressionNeverLonger Emit
CHECK_DEADLOCK FALSE
