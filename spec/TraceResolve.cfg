INIT TraceInit
NEXT TraceNext
CONSTANTS
 Inputs = {}
 HShapes = {}
 AShapes = {}
 A6Shapes = {}
 TShapes = {}
CONSTRAINT HighWater
INVARIANTS AliasBounded SortedByPriority
POSTCONDITION TraceAccepted
CHECK_DEADLOCK FALSE
