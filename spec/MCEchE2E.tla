---------------------------- MODULE MCEchE2E ----------------------------
EXTENDS EchE2E, Json
KS1 == {"K1"}
FirstAll == {"acc", "grease", "plain"}
EmitScen == (flight = 1 /\ k = 1) => PrintT(<<"CASE", ToJson([first |-> first, hrr |-> hrr, expect |-> Expect])>>)
=============================================================================
