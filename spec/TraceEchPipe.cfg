INIT TraceInit
NEXT TraceNext
CONSTANTS MaxRec = 16640
CONSTRAINT HighWater
INVARIANTS Conserved WriteIsPrefix OneRecordWithheld CutDeliversAll NeverZeroNil BufBound ErrorIsTheCut TmoKeepsOrder
POSTCONDITION TraceAccepted
CHECK_DEADLOCK FALSE
