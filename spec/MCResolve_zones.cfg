SPECIFICATION Spec
CONSTANTS
 Inputs <- InputsCore
 HShapes <- HAll
 AShapes <- AAll
 A6Shapes <- A6All
 TShapes <- TAll
INVARIANTS QueriesConformant AliasBounded QueriesBounded OnlyOwned SortedByPriority NxOnHttpsIsAbsence RcodeMapping NameLimits LoopFallsBack Emit
PROPERTY Termination
CHECK_DEADLOCK FALSE
