------------------------------ MODULE Publish ------------------------------
(* C20 - PublishECH changes exactly the ech parameter of exactly the requested records
   (publish/cloudflare.go PublishECH / getZoneData / updateRecord).

   Remote state: one zone whose HTTPS records sit on several result pages, each with an ordered list of service
   parameters; the publisher's zone-id cache survives across calls. A call processes its targets in order; the
   environment may fail exactly one API request (zone lookup, one list page, one PATCH).  Each call is one step of the
   specification, computed by the transcribed target loop; the rules are stated on the before/after states.        *)
EXTENDS Integers, Sequences, FiniteSets, TLC

CONSTANTS RecSets,        \* possible zone contents: Seq of [name, page, params]
          TargetLists,    \* possible target lists: Seq of [zone, name]
          Cfgs,           \* config lists that may be published
          Fails,          \* failure injections: [kind, n] or NoFail
          MaxCalls

NoFail == [kind |-> "none", n |-> 0]
Ech(v) == "ech=" \o v
\* stored ech values: the base64 of a config list, of some older list, or damaged text ("C1x": the base64 of C1 followed by a
\* stray character) - equal to the published value only if it is that very text
StoredVals == Cfgs \cup {"old", "C1x"}
IsEch(p) == p \in {Ech(c) : c \in StoredVals}
ValOf(p) == CHOOSE c \in StoredVals : p = Ech(c)

VARIABLES recs,           \* remote zone "z1": Seq of [name, page, params]
          zoneIds,        \* publisher's cache: set of zone names whose id is known ("z1" -> found, "z2" -> known to be absent)
          calls,          \* history: Seq of [targets, cfg, fail, results, patches, before, after]
          ncalls
vars == <<recs, zoneIds, calls, ncalls>>

Init == /\ recs \in RecSets /\ zoneIds = {} /\ calls = <<>> /\ ncalls = 0

RECURSIVE SelectNotEch(_)
SelectNotEch(ps) == IF ps = <<>> THEN <<>> ELSE IF IsEch(Head(ps)) THEN SelectNotEch(Tail(ps)) ELSE <<Head(ps)>> \o SelectNotEch(Tail(ps))
RECURSIVE LastEch(_, _)
LastEch(ps, acc) == IF ps = <<>> THEN acc ELSE LastEch(Tail(ps), IF IsEch(Head(ps)) THEN ValOf(Head(ps)) ELSE acc)
NewParams(ps, v) == SelectNotEch(ps) \o << Ech(v) >>
IdxOf(rs, nm) == IF \E i \in DOMAIN rs : rs[i].name = nm THEN CHOOSE i \in DOMAIN rs : rs[i].name = nm ELSE 0
Pages(rs) == 3     \* the zone always holds other (unrequested) records too: three result pages

\* one target; st = [recs, known (zone ids cached), loaded (zones tried in this call), data (record names visible), results, patches, fail]
\* fail.kind: "zone" (zone lookup), "page" (n-th list request of this call), "patch" (n-th PATCH of this call)
ProcOne(t, cfg, st) ==
  LET needLoad == t.zone \notin st.loaded
      \* ---- getZoneData (cloudflare.go:207-303)
      lookupFails == needLoad /\ t.zone \notin st.known /\ st.fail.kind = "zone"
      known1 == IF needLoad /\ ~lookupFails THEN st.known \cup {t.zone} ELSE st.known
      zoneExists == t.zone \in {"z1", "z3"}       \* z3 exists too, but holds none of the requested names (one page of other records)
      np == IF t.zone = "z1" THEN Pages(st.recs) ELSE 1
      \* pages are requested in order; the n-th list request of the call may fail
      failPage == IF needLoad /\ ~lookupFails /\ zoneExists /\ st.fail.kind = "page" /\ st.fail.n \in (st.listed + 1)..(st.listed + np)
                  THEN st.fail.n - st.listed ELSE 0
      pagesSeen == IF ~needLoad \/ lookupFails \/ ~zoneExists THEN 0 ELSE IF failPage > 0 THEN failPage - 1 ELSE np
      data1 == IF needLoad /\ ~lookupFails /\ t.zone = "z1"
               THEN st.data \cup {st.recs[i].name : i \in {j \in DOMAIN st.recs : st.recs[j].page <= pagesSeen}} ELSE st.data
      listed1 == IF needLoad /\ ~lookupFails /\ zoneExists THEN st.listed + (IF failPage > 0 THEN failPage ELSE np) ELSE st.listed
      loadErr == lookupFails \/ failPage > 0
      loadNotFound == needLoad /\ ~lookupFails /\ ~zoneExists
      st1 == [st EXCEPT !.known = known1, !.loaded = st.loaded \cup {t.zone}, !.data = data1, !.listed = listed1]
  IN
  IF needLoad /\ loadErr THEN [st1 EXCEPT !.results = Append(st.results, "error")]
  ELSE IF loadNotFound THEN [st1 EXCEPT !.results = Append(st.results, "notfound")]
  ELSE IF t.zone # "z1" \/ t.name \notin data1 THEN [st1 EXCEPT !.results = Append(st.results, "notfound")]
  ELSE LET i == IdxOf(st.recs, t.name)  ps == st.recs[i].params IN
       IF LastEch(ps, "") = cfg THEN [st1 EXCEPT !.results = Append(st.results, "nochange")]
       ELSE IF st.fail.kind = "patch" /\ st.fail.n = st.npatch + 1
            THEN [st1 EXCEPT !.results = Append(st.results, "error"), !.npatch = st.npatch + 1]
            ELSE [st1 EXCEPT !.results = Append(st.results, "updated"), !.npatch = st.npatch + 1,
                             !.recs = [st.recs EXCEPT ![i].params = NewParams(ps, cfg)],
                             !.patches = Append(st.patches, t.name)]

RECURSIVE Proc(_, _, _)
Proc(ts, cfg, st) == IF ts = <<>> THEN st ELSE Proc(Tail(ts), cfg, ProcOne(Head(ts), cfg, st))

PublishCall(ts, cfg, f) ==
  /\ ncalls < MaxCalls
  /\ LET st0 == [recs |-> recs, known |-> zoneIds, loaded |-> {}, data |-> {}, listed |-> 0, results |-> <<>>, patches |-> <<>>, npatch |-> 0, fail |-> f]
         st == Proc(ts, cfg, st0) IN
     /\ recs' = st.recs /\ zoneIds' = st.known
     /\ calls' = Append(calls, [targets |-> ts, cfg |-> cfg, fail |-> f, results |-> st.results, patches |-> st.patches, before |-> recs, after |-> st.recs])
  /\ ncalls' = ncalls + 1

Next == \E ts \in TargetLists, cfg \in Cfgs, f \in Fails : PublishCall(ts, cfg, f)
Spec == Init /\ [][Next]_vars

\* ------------------------------------------------------------------ the rules, on every call of the history
Requested(c, nm) == \E k \in DOMAIN c.targets : c.targets[k].zone = "z1" /\ c.targets[k].name = nm
OneResultPerTarget == \A j \in DOMAIN calls : Len(calls[j].results) = Len(calls[j].targets)
OnlyEchChanged == \A j \in DOMAIN calls : \A i \in DOMAIN calls[j].before :
                    LET b == calls[j].before[i].params  a == calls[j].after[i].params IN
                    a # b => /\ a = NewParams(b, calls[j].cfg)
                             /\ Cardinality({k \in DOMAIN a : IsEch(a[k])}) = 1
                             /\ SelectNotEch(a) = SelectNotEch(b)
Frame == \A j \in DOMAIN calls : \A i \in DOMAIN calls[j].before :
            ~Requested(calls[j], calls[j].before[i].name) => calls[j].after[i] = calls[j].before[i]
NoWriteWhenCurrent == \A j \in DOMAIN calls : \A k \in DOMAIN calls[j].patches :
                        LET nm == calls[j].patches[k]  i == IdxOf(calls[j].before, nm) IN
                        \* each PATCH changes a value that was not current, and no record is patched twice in one call
                        /\ LastEch(calls[j].before[i].params, "") # calls[j].cfg
                        /\ \A k2 \in DOMAIN calls[j].patches : k2 # k => calls[j].patches[k2] # nm
ResultsTruthful == \A j \in DOMAIN calls : \A k \in DOMAIN calls[j].targets :
                     LET t == calls[j].targets[k]  r == calls[j].results[k]  i == IdxOf(calls[j].after, t.name) IN
                     /\ (r = "updated" => t.zone = "z1" /\ i > 0 /\ LastEch(calls[j].after[i].params, "") = calls[j].cfg)
                     /\ (r = "nochange" => t.zone = "z1" /\ i > 0 /\ LastEch(calls[j].after[i].params, "") = calls[j].cfg)
                     /\ (calls[j].fail = NoFail => (r = "notfound" <=> (t.zone # "z1" \/ IdxOf(calls[j].before, t.name) = 0)))
FailureIsolation == \A j \in DOMAIN calls : calls[j].fail = NoFail => \A k \in DOMAIN calls[j].results : calls[j].results[k] # "error"
Idempotent == \A j \in DOMAIN calls : (j > 1 /\ calls[j].targets = calls[j-1].targets /\ calls[j].cfg = calls[j-1].cfg
                                       /\ calls[j].fail = NoFail /\ calls[j-1].fail = NoFail) => calls[j].patches = <<>>
=============================================================================
