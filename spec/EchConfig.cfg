INIT Init
NEXT Next
INVARIANTS RoundTrip TruncRejected DanglingRejected Emit
CHECK_DEADLOCK FALSE
