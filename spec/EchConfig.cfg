INIT Init
NEXT Next
INVARIANTS RoundTrip TruncRejected DanglingRejected ContentsCutRejected Emit
CHECK_DEADLOCK FALSE
