INIT Init
NEXT Next
INVARIANTS RoundTrip TruncRejected DanglingRejected ContentsCutRejected ContentsCutRejectedX Emit
CHECK_DEADLOCK FALSE
