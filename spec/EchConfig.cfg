INIT Init
NEXT Next
INVARIANTS RoundTrip TruncRejected Emit
CHECK_DEADLOCK FALSE
