---------------------------- MODULE MCEchPipe ----------------------------
(* Exhaustive exploration of EchPipe over small records: every scenario (records, cut position and kind, armed or
   not), every caller buffer size from Caps, every transport chunk, every split of the backend stream. *)
EXTENDS EchPipe

CONSTANTS CTypes, BTypes, Lens, Caps, MaxC, MaxB, WChunks, Tmo

RecsC == UNION { [1..m -> [t : CTypes, len : Lens, out : {7}]] : m \in 0..MaxC }
RecsB == UNION { [1..m -> [t : BTypes, len : Lens]] : m \in 0..MaxB }
BigLast(rs) == \A i \in DOMAIN rs : rs[i].t = "BIG" => i = Len(rs)

MCInit ==
  /\ crecs \in RecsC /\ BigLast(crecs)
  /\ brecs \in RecsB /\ BigLast(brecs)
  /\ firstIn = 6 /\ firstOut \in {6, 4} /\ accepted = (firstOut = 4)
  /\ cutKind \in {"eof", "err"} /\ bigHdr \in BOOLEAN /\ (bigHdr \/ HasBig(crecs))
  /\ cutAt \in firstIn..ClientTotal
  /\ tmoAt \in {-1} \cup (IF Tmo THEN firstIn..(cutAt - 1) ELSE {})
  /\ InitState

MaxCap == CHOOSE c \in Caps : \A d \in Caps : d <= c
MCNext2 ==
  \/ \E cap \in Caps, k \in 0..MaxCap : Read(cap, k)
  \/ \E k \in WChunks : Write(k)
MCSpec == MCInit /\ [][MCNext2]_vars
\* liveness: with the reader calling Read again and again everything comes out
Fair == MCSpec /\ WF_vars(\E cap \in Caps, k \in 0..MaxCap : Read(cap, k))
EventuallyDelivered == <>(lastRead.err # "none")
=============================================================================
