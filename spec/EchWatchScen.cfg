INIT Init
NEXT Stutter
CONSTANTS Times <- DefaultTimes
 MaxTime = 3
INVARIANT EmitScen
CHECK_DEADLOCK FALSE
