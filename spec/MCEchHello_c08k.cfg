SPECIFICATION Spec
CONSTANTS
 OuterNames <- O12
 InnerNames <- I12
 KeyLists <- KL_c08
 ClientKeys <- C08Clients
 Ops <- NoneOp
 Pads <- Pad1
 Sids <- Sid1
INVARIANTS TypeOK Req_C02 Emit
PROPERTY Termination
CHECK_DEADLOCK FALSE
