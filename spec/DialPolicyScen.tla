---------------------------- MODULE DialPolicyScen ----------------------------
EXTENDS DialPolicy, Json
EmitScen == PrintT(<<"CASE", ToJson([n |-> n, cech |-> cech, csn |-> csn, req |-> req, pub |-> pub, tech |-> tech, script |-> script])>>)
Stutter == UNCHANGED vars
=============================================================================
