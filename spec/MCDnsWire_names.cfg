INIT Init
NEXT Next
CONSTANTS Domain <- F_names
INVARIANTS RoundTrip RoundTripCompressed CompressionNeverLonger Emit
CHECK_DEADLOCK FALSE
