SPECIFICATION Spec
CONSTANTS N = 5
 Rule = "safe"
INVARIANTS StepBound MeasureInv Emit
PROPERTIES Terminates SegDecreases
CHECK_DEADLOCK FALSE
