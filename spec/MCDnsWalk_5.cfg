SPECIFICATION Spec
CONSTANTS N = 5
 Rule = "safe"
INVARIANTS StepBound Emit
PROPERTIES Terminates SegDecreases
CHECK_DEADLOCK FALSE
