SPECIFICATION Spec
CONSTANTS
 Ports <- PortsAll
 AddrLists <- AddrAll
 AddLists <- AddlAll
 RecSets <- RecsQ
 Networks <- NetAll
INVARIANTS NoDupAddrPort FamilyRespected OwnTargetOwnParams AliasIgnored HintsOnlyWithoutOrigin PlainOnlyIfNoHttpsTarget Http80Upgraded RecordOrder Emit
PROPERTIES InputUnchanged Termination
CHECK_DEADLOCK FALSE
