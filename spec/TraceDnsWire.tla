---------------------------- MODULE TraceDnsWire ----------------------------
(* C13, encode direction when the code's bytes are not the plain encoding: the specification's decoder decides whether they
   are a valid encoding of the message (e.g. one that uses name compression): DecMsg(real) must be Semi(m). *)
EXTENDS DnsWire, Json, IOUtils
Cases == ndJsonDeserialize(IOEnv.TRACE_FILE)
VARIABLE i
vars2 == <<m, i>>
TInit == i = 1 /\ m = Cases[1].m
TNext == i < Len(Cases) /\ i' = i + 1 /\ m' = Cases[i + 1].m
AsSeq(x) == [k \in 1..Len(x) |-> x[k]]
ValidEncoding == LET d == DecMsg(Cases[i].real) IN
                 IF d.ok /\ d.v = Semi(m) THEN TRUE ELSE Print(<<"BAD_ENCODING", Cases[i].idx>>, FALSE)
=============================================================================
