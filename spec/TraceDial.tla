---------------------------- MODULE TraceDial ----------------------------
EXTENDS Dial, Json, IOUtils

Trace == ndJsonDeserialize(IOEnv.TRACE_FILE)
ASSUME TLCSet(1, 0)
VARIABLES l, retSeen
tvars == <<vars, l, retSeen>>

Ev == Trace[l]
Has == l <= Len(Trace)

LoadScen(sc) ==
  /\ n' = sc.n /\ oc' = sc.oc /\ K' = sc.K /\ cancelAt' = sc.cancelAt

TraceInit ==
  /\ l = 2 /\ retSeen = FALSE
  /\ LET sc == Trace[1].scen IN n = sc.n /\ oc = sc.oc /\ K = sc.K /\ cancelAt = sc.cancelAt
  /\ InitRest

Silent ==
  /\ \/ FeederNext \/ FeederWaitOver \/ Closer \/ CollectorWake \/ CollectorCtx \/ CollectorClosed \/ CollectorRet \/ CallerCancel \/ Tick
     \/ \E w \in Workers : \/ FeedSend(w) \/ WorkerExit(w) \/ WorkerCtx(w) \/ SendConnRecv(w) \/ SendErrDrop(w) \/ SendErrRecv(w)
                            \/ (wpc[w] = "got" /\ oc[wt[w]].kind = "rerr" /\ WorkerStart(w))
  /\ UNCHANGED <<l, retSeen>>

ObsStart ==
  /\ Has /\ Ev.e = "start" /\ now = Ev.t
  /\ \E w \in Workers : /\ wpc[w] = "ctx" /\ wt[w] = Ev.i /\ WorkerStart(w)
                        \* ctx.Err() sampled under the log mutex: a context created after the Dial context ended is dead at once;
                        \* one created before it may lag behind for the rest of the instant in which the Dial context ended
                        /\ (Ev.c => done)
                        /\ (~Ev.c => (~done \/ (wlive[w] /\ doneAt = now)))
  /\ l' = l + 1 /\ UNCHANGED retSeen

ObsEnd ==
  /\ Has /\ Ev.e = "end" /\ now = Ev.t
  /\ \E w \in Workers : /\ wt[w] = Ev.i
                        /\ IF Ev.r = "ctx" THEN EndCtx(w) ELSE (EndOutcome(w) /\ oc[Ev.i].kind = Ev.r)
  /\ l' = l + 1 /\ UNCHANGED retSeen

ObsClose ==
  /\ Has /\ Ev.e = "close" /\ now = Ev.t
  /\ \E w \in Workers : wt[w] = Ev.i /\ SendConnDrop(w)
  /\ l' = l + 1 /\ UNCHANGED retSeen

ObsRet ==
  /\ Has /\ Ev.e = "ret" /\ now = Ev.t /\ ~retSeen
  /\ mpc = "ret" /\ result = Ev.r
  /\ (Ev.r = "conn" => cstat[Ev.i] = "returned")
  /\ (Ev.r = "joined" => errs = Ev.nerr)
  /\ retSeen' = TRUE /\ l' = l + 1 /\ UNCHANGED vars

ObsCancel ==
  /\ Has /\ Ev.e = "cancel"
  /\ l' = l + 1 /\ UNCHANGED <<vars, retSeen>>

ObsQuiesce ==
  /\ Has /\ Ev.e = "quiesce" /\ retSeen
  /\ AllDone /\ Ev.g = 0 /\ \A i \in 1..n : cstat[i] \in {"none", "returned", "closed"}
  /\ l' = l + 1 /\ UNCHANGED <<vars, retSeen>>

\* next trace in the batch: only after the previous one was fully consumed (its last event is quiesce)
ObsReset ==
  /\ Has /\ Ev.e = "reset" /\ Trace[l-1].e = "quiesce"
  /\ LET sc == Ev.scen IN
       /\ n' = sc.n /\ oc' = sc.oc /\ K' = sc.K /\ cancelAt' = sc.cancelAt
       /\ now' = 0 /\ pcancel' = FALSE /\ done' = FALSE
       /\ fpc' = "next" /\ fi' = 1 /\ ftimer' = 0 /\ tclosed' = FALSE
       /\ wpc' = [w \in W |-> IF w <= sc.K THEN "idle" ELSE "off"]
       /\ wt' = [w \in W |-> 0] /\ wstart' = [w \in W |-> 0] /\ wlive' = [w \in W |-> TRUE] /\ doneAt' = -1
       /\ eclosed' = FALSE /\ mpc' = "select" /\ errs' = 0 /\ result' = "none"
       /\ cstat' = [i \in 1..sc.n |-> "none"]
       /\ startedLive' = 0 /\ startAt' = [i \in 1..MaxN |-> -1] /\ orderOK' = TRUE /\ earlyFeeds' = 0 /\ lateCancelledOK' = TRUE
       /\ lastFailSeen' = FALSE /\ lastFeed' = -1
  /\ retSeen' = FALSE /\ l' = l + 1

TraceNext == Silent \/ ObsStart \/ ObsEnd \/ ObsClose \/ ObsRet \/ ObsCancel \/ ObsQuiesce \/ ObsReset
TraceSpec == TraceInit /\ [][TraceNext]_tvars

\* the whole file explained: stop (the search is depth-first, so this is reached without visiting the other interleavings
\* of the unlogged steps; a rejected file is still explored exhaustively)
HighWater == /\ TLCSet(1, IF TLCGet(1) > l THEN TLCGet(1) ELSE l)
             /\ (l = Len(Trace) + 1 => TLCSet("exit", TRUE))
TraceAccepted ==
  IF TLCGet(1) = Len(Trace) + 1 THEN TRUE
  ELSE Print(<<"TRACE_REJECTED_AT", TLCGet(1), IF TLCGet(1) <= Len(Trace) THEN Trace[TLCGet(1)] ELSE "eof">>, FALSE)
==========================================================================
