INIT TInit
NEXT TNext
INVARIANT ValidEncoding
CHECK_DEADLOCK FALSE
