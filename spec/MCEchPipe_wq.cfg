SPECIFICATION MCSpec
CONSTANTS
 MaxRec = 3
 CTypes = {"HS"}
 BTypes = {"SH", "HRR", "APP", "BAD", "BIG"}
 Lens = {0, 2}
 Caps = {100}
 MaxC = 0
 MaxB = 2
 WChunks = {1, 2, 5, 6, 7, 8, 13, 14, 21}
 Tmo = FALSE
INVARIANTS TypeOK Conserved WriteIsPrefix OneRecordWithheld CutDeliversAll NeverZeroNil BufBound
CHECK_DEADLOCK FALSE
