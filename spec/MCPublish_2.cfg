SPECIFICATION Spec
CONSTANTS
 RecSets <- RecSetsSmall
 TargetLists <- TLSmall
 Cfgs <- CfgAll
 Fails <- FailSmall
 MaxCalls = 2
INVARIANTS OneResultPerTarget OnlyEchChanged Frame NoWriteWhenCurrent ResultsTruthful FailureIsolation Idempotent Emit
CHECK_DEADLOCK FALSE
