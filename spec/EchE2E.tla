------------------------------- MODULE EchE2E -------------------------------
(* C01 - a split-mode handshake completes end to end and routes on the inner hello.
   EchConn composed with CONFORMING endpoints: a TLS 1.3 client (first hello consumed by NewConn; after a
   HelloRetryRequest: change_cipher_spec, second hello sealed with the same HPKE context; then protected records) and a
   TLS 1.3 backend that holds no ECH key (ServerHello or HelloRetryRequest, change_cipher_spec, protected records).
   Flights alternate; inside the application-data phase both directions interleave freely.                          *)
EXTENDS EchConn

VARIABLES hrr,          \* scenario: the backend answers the first hello with a HelloRetryRequest
          flight, k,    \* current flight and position in it
          appR, appW    \* application records exchanged in the final phase

evars == <<vars, hrr, flight, k, appR, appW>>

\* the flights after the first hello; each is <<direction, records>>
Flights ==
  IF hrr THEN << <<"w", <<"HRR", "CCS">> >>, <<"r", <<"CCS", IF first = "acc" THEN "CH2ok" ELSE "CH2noEch">> >>,
                 <<"w", <<"SH", "APP", "APP">> >>, <<"r", <<"APP">> >> >>
         ELSE << <<"w", <<"SH", "CCS", "APP", "APP">> >>, <<"r", <<"CCS", "APP">> >> >>

E2EInit == Init /\ hrr \in BOOLEAN /\ flight = 1 /\ k = 1 /\ appR = 0 /\ appW = 0

Step ==
  /\ flight <= Len(Flights)
  /\ LET f == Flights[flight]  s == f[2][k] IN
     /\ IF f[1] = "r" THEN Read(s) ELSE Write(s)
     /\ IF k = Len(f[2]) THEN flight' = flight + 1 /\ k' = 1 ELSE k' = k + 1 /\ UNCHANGED flight
  /\ UNCHANGED <<hrr, appR, appW>>

AppPhase ==
  /\ flight > Len(Flights)
  /\ \/ appR < 2 /\ Read("APP") /\ appR' = appR + 1 /\ UNCHANGED appW
     \/ appW < 2 /\ Write("APP") /\ appW' = appW + 1 /\ UNCHANGED appR
  /\ UNCHANGED <<hrr, flight, k>>

E2ENext == Step \/ AppPhase
E2ESpec == E2EInit /\ [][E2ENext]_evars /\ WF_evars(E2ENext)

Done == flight > Len(Flights) /\ appR = 2 /\ appW = 2
\* ---- properties
E2E_NoAbort == st = "ok" /\ \A i \in DOMAIN outs : outs[i] # <<"werr">>
\* the backend receives the reconstructed inner hello of the retried flight iff the first one was accepted
E2E_Retry == \A i \in DOMAIN hist : hist[i] = <<"r", "CH2ok">> => outs[i] = <<"inner">>
E2E_Stale == first # "acc" => \A i \in DOMAIN outs : outs[i] = <<"fwd">>
E2E_OnlyHellosRewritten == \A i \in DOMAIN outs : outs[i] = <<"inner">> => hist[i] = <<"r", "CH2ok">>
E2E_Done == <>Done
\* what the endpoints must observe at the end (compared with the real stacks by the harness)
Expect == [client_ech_accepted |-> first = "acc", routed_on |-> IF first = "acc" THEN "inner" ELSE "outer",
           retry_configs |-> first = "grease", hello_retry |-> hrr]
=============================================================================
