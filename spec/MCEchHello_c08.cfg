SPECIFICATION Spec
CONSTANTS
 OuterNames <- AllOuters
 InnerNames <- AllInners
 KeyLists <- KL_one
 ClientKeys <- OneKey
 Ops <- StructOps
 Pads <- Pad1
 Sids <- Sid1
INVARIANTS TypeOK Req_C02 Emit
PROPERTY Termination
CHECK_DEADLOCK FALSE
