---------------------------- MODULE TraceEchWatch ----------------------------
(* Trace validation for EchWatch: SetDeadline calls seen by the transport, NewConn's return, the caller's cancel and
   a post-return I/O probe, all logged under one mutex in virtual time (testing/synctest). *)
EXTENDS EchWatch, Json, IOUtils, Sequences

Trace == ndJsonDeserialize(IOEnv.TRACE_FILE)
ASSUME TLCSet(1, 0)
VARIABLES l
tvars == <<vars, l>>
Ev == Trace[l]
Has == l <= Len(Trace)

TraceInit ==
  /\ l = 2
  /\ LET sc == Trace[1].scen IN Deadline = sc.deadline /\ HelloAt = sc.helloAt /\ CancelAt = sc.cancelAt
  /\ ctxEndAt = -1 /\ now = 0 /\ ctxDone = FALSE /\ cancelled = FALSE /\ hello = (HelloAt = 0)
  /\ mpc = "reading" /\ wpc = "select" /\ done = FALSE /\ expired = FALSE /\ connDl = "none"
  /\ readFailed = FALSE /\ returned = "no" /\ retAt = -1 /\ lateSet = FALSE

Silent == /\ (CtxExpire \/ HelloArrives \/ MainRead \/ MainReadFails \/ MainCloseDone \/ MainJoin \/ WatchDone \/ Tick)
          /\ UNCHANGED <<scen, l>>

ObsSetDl == /\ Has /\ Ev.e = "setdl" /\ now = Ev.t
            /\ IF Ev.v = "past" THEN WatchFire ELSE MainClear
            /\ UNCHANGED scen /\ l' = l + 1
ObsRet == /\ Has /\ Ev.e = "ret" /\ now = Ev.t /\ MainReturn /\ returned' = Ev.r /\ UNCHANGED scen /\ l' = l + 1
ObsCancel == /\ Has /\ Ev.e = "cancel" /\ now = Ev.t /\ (CallerCancel \/ LateCancel) /\ UNCHANGED scen /\ l' = l + 1
\* after a successful return the connection must be usable
ObsIO == /\ Has /\ Ev.e = "io" /\ returned # "no"
         /\ (returned = "ok" => (Ev.ok <=> connDl = "none"))
         /\ UNCHANGED vars /\ l' = l + 1
ObsEnd == /\ Has /\ Ev.e = "end" /\ returned # "no" /\ UNCHANGED vars /\ l' = l + 1
ObsReset ==
  /\ Has /\ Ev.e = "reset" /\ Trace[l-1].e = "end"
  /\ LET sc == Ev.scen IN
     /\ Deadline' = sc.deadline /\ HelloAt' = sc.helloAt /\ CancelAt' = sc.cancelAt
     /\ hello' = (sc.helloAt = 0)
  /\ ctxEndAt' = -1 /\ now' = 0 /\ ctxDone' = FALSE /\ cancelled' = FALSE
  /\ mpc' = "reading" /\ wpc' = "select" /\ done' = FALSE /\ expired' = FALSE /\ connDl' = "none"
  /\ readFailed' = FALSE /\ returned' = "no" /\ retAt' = -1 /\ lateSet' = FALSE
  /\ l' = l + 1

TraceNext == Silent \/ ObsSetDl \/ ObsRet \/ ObsCancel \/ ObsIO \/ ObsEnd \/ ObsReset
HighWater == TLCSet(1, IF TLCGet(1) > l THEN TLCGet(1) ELSE l)
TraceAccepted ==
  IF TLCGet(1) = Len(Trace) + 1 THEN TRUE
  ELSE Print(<<"TRACE_REJECTED_AT", TLCGet(1), IF TLCGet(1) <= Len(Trace) THEN Trace[TLCGet(1)] ELSE "eof">>, FALSE)
=============================================================================
