INIT Init
NEXT Next
CONSTANTS Domain <- F_pad
INVARIANTS PaddingRule EmitPad
CHECK_DEADLOCK FALSE
