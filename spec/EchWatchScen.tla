---------------------------- MODULE EchWatchScen ----------------------------
EXTENDS EchWatch, Json
EmitScen == PrintT(<<"CASE", ToJson([deadline |-> Deadline, helloAt |-> HelloAt, cancelAt |-> CancelAt])>>)
Stutter == UNCHANGED vars
=============================================================================
