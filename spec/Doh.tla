------------------------------- MODULE Doh -------------------------------
(* One RFC 8484 exchange as dns.DoH performs it (POST, one response), at the granularity of the code's own steps:
   send the request, read the status line, read the length, read the body, decode.  The environment (the DoH server,
   possibly hostile: it is the source of every DNS byte the resolver trusts) chooses status, framing and body.

   The module states (a) what the code does (Next) and (b) what is *required* of any implementation (Admissible):
   the latter is deliberately wider wherever no listed property speaks (e.g. a response without Content-Length may be
   refused - the code does - or decoded), so that a property-preserving change is never reported. *)
EXTENDS Naturals, Sequences, FiniteSets, TLC

CONSTANTS Statuses,   \* HTTP status codes
          Framings,   \* how the body is delimited
          Bodies,     \* what the body bytes are
          MaxRetry    \* the HTTP layer repeats a failed exchange at most this many times (4)

VARIABLES st, fr, bd,   \* the server's choice
          pc, res,      \* the client's progress and its result
          steps,        \* the code's steps taken, in order
          sent,         \* requests that reached the server
          ctx           \* the caller's context: "live" | "done"

vars == <<st, fr, bd, pc, res, steps, sent, ctx>>

\* exchanges the HTTP layer repeats (after a pause) instead of handing them to DoH: server-side failures, too-many-requests,
\* a connection closed without a response, a response whose header cannot be parsed
Retryable(s, f) == s \in {429, 500, 502, 503} \/ f \in {"badlen", "reset"}

Decodable(b) == b \in {"answer", "padded", "big"}      \* an independent decoder accepts the whole body
\* the bytes the client is entitled to see, as a class
Seen(f, b) == CASE f = "exact"   -> IF b = "empty" THEN "nothing" ELSE "whole"
                [] f \in {"chunked", "closedelim"} -> IF b = "empty" THEN "nothing" ELSE "whole"   \* no Content-Length: chunked, or delimited by the close
                [] f = "short"   -> "prefix"          \* Content-Length smaller than the message
                [] f = "long"    -> "cutoff"          \* Content-Length larger than what is sent before the close
                [] f = "zero"    -> "nothing"
                [] f = "over"    -> "whole"           \* Content-Length 65536 .. 70000 with that many bytes
                [] f = "huge"    -> "cutoff"          \* Content-Length 2^40, a few bytes, then silence
                [] f = "endless" -> "cutoff"          \* no Content-Length and a body that never ends (chunk after chunk)
                [] f = "badlen"  -> "unframed"        \* Content-Length that is not a number
                [] f = "reset"   -> "nothing"         \* the connection is closed before any response
                [] OTHER -> "nothing"

\* ---- requirement: the set of admissible outcomes ("msg" = exactly the message the server sent; "err" = an error)
Admissible(s, f, b) ==
    IF s # 200 \/ Retryable(s, f) THEN {"err"}                                           \* never a message from a failed exchange
    ELSE CASE Seen(f, b) = "whole" /\ Decodable(b) /\ f = "exact" -> {"msg"}       \* the normal case must work
           [] Seen(f, b) = "whole" /\ Decodable(b)                 -> {"msg", "err"} \* unframed / oversize: may be refused
           [] OTHER                                                -> {"err"}

\* ---- what the code does
Init == /\ st \in Statuses /\ fr \in Framings /\ bd \in Bodies
        /\ (fr \in {"over"} => bd = "big") /\ (bd = "big" => fr \in {"exact", "over", "chunked", "closedelim"})
        /\ (fr = "endless" => st = 200 /\ bd = "answer")
        /\ (Retryable(st, fr) => bd = "answer" /\ (fr \in {"badlen", "reset"} => st = 200) /\ (st # 200 => fr = "exact"))
        /\ pc = "send" /\ res = "none" /\ steps = <<>> /\ sent = 0 /\ ctx = "live"

Step(name, npc, nres) == pc' = npc /\ res' = nres /\ steps' = Append(steps, name) /\ UNCHANGED <<st, fr, bd, ctx>>

Send == pc = "send" /\ (IF ctx = "live" THEN sent' = sent + 1 /\ Step("send", "status", "none")
                                        ELSE UNCHANGED sent /\ Step("refuse", "done", "err"))
ReadStatus == pc = "status" /\ UNCHANGED sent /\
    IF Retryable(st, fr) THEN (IF sent <= MaxRetry /\ ctx = "live" THEN Step("status", "pause", "none") ELSE Step("status", "done", "err"))
    ELSE IF st # 200 THEN Step("status", "done", "err") ELSE Step("status", "length", "none")
\* the pause ends by itself, or the caller's context ends it
Resume == pc = "pause" /\ UNCHANGED sent /\ (IF ctx = "live" THEN Step("resume", "send", "none") ELSE Step("resume", "done", "err"))
CtxDone == ctx = "live" /\ pc # "done" /\ Retryable(st, fr) /\ ctx' = "done" /\ UNCHANGED <<st, fr, bd, pc, res, steps, sent>>
ReadLength == pc = "length" /\ UNCHANGED sent /\
    IF fr \in {"chunked", "closedelim", "over", "huge", "endless"} THEN Step("length", "done", "err")    \* no length, or more than 65535: refused before any allocation
    ELSE Step("length", "body", "none")
ReadBody == pc = "body" /\ UNCHANGED sent /\
    IF Seen(fr, bd) = "cutoff" THEN Step("body", "done", "err")      \* short read
    ELSE Step("body", "decode", "none")
Decode == pc = "decode" /\ UNCHANGED sent /\
    IF Seen(fr, bd) = "whole" /\ Decodable(bd) THEN Step("decode", "done", "msg") ELSE Step("decode", "done", "err")
Done == pc = "done"
Next == Send \/ ReadStatus \/ Resume \/ CtxDone \/ ReadLength \/ ReadBody \/ Decode \/ (Done /\ UNCHANGED vars)
Spec == Init /\ [][Next]_vars /\ WF_vars(Next)

\* ---- checked on the model
Conforms == Done => res \in Admissible(st, fr, bd)
SentOnce == Done /\ ~Retryable(st, fr) => sent = 1
SentBounded == sent <= MaxRetry + 1
NoSendAfterCtx == [][ctx = "done" => sent' = sent]_vars
NoAllocBeforeLength == \A i \in 1..Len(steps) : steps[i] = "body" => \E j \in 1..(i-1) : steps[j] = "length"
Termination == <>Done
=============================================================================
