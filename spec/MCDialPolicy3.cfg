SPECIFICATION Spec
CONSTANTS MaxN = 3
INVARIANTS TypeOK NeverWithoutECH CallerECHKept FromOwnRecord ServerNameFromCaller OneRetryExact RetryHappens
CHECK_DEADLOCK FALSE
