package verifharness

// C11 (direction A): every (config list, bytes) case of spec/EchConfig.tla is compared with config.go in both
// directions; every strict prefix must be rejected; structural damage at every length field must not panic; and
// for real keys the environment speaks: crypto/tls accepts the list on the client and the key on the server side.

import (
	"bytes"
	"crypto/tls"
	"fmt"
	"os"
	"reflect"
	"sync"
	"sync/atomic"
	"testing"
	"time"

	"github.com/c2FmZQ/ech"
)

type cfgSpecJ struct {
	ID     uint8   `json:"id"`
	KEM    uint16  `json:"kem"`
	PK     []int   `json:"pk"`
	Suites [][]int `json:"suites"`
	Name   []int   `json:"name"`
}
type cfgCase struct {
	Cfgs  []cfgSpecJ `json:"cfgs"`
	Bytes []int      `json:"bytes"`
	// false: some spec of the case has no well-formed section 4 encoding (empty key, no suite, name of 0 or > 255 bytes)
	Encodable bool `json:"encodable"`
	// the same list, the first config's cipher_suites vector carrying 1..3 dangling bytes (all lengths consistent)
	Dangling [][]int `json:"dangling"`
	// one-config lists whose ECHConfigContents are cut to their first 0..n-1 bytes, the enclosing lengths consistent
	Cuts [][]int `json:"cuts"`
	// the same with one unknown extension in the contents; the last element is the complete config
	XCuts [][]int `json:"xcuts"`
}

func ib(x []int) []byte {
	o := make([]byte, len(x))
	for i, v := range x {
		o[i] = byte(v)
	}
	return o
}

func checkCfgCase(c *cfgCase) (diff string) {
	defer func() {
		if p := recover(); p != nil {
			diff = fmt.Sprint("panic: ", p)
		}
	}()
	wantBytes := ib(c.Bytes)
	var cfgs []ech.Config
	var want []ech.ConfigSpec
	for _, x := range c.Cfgs {
		sp := ech.ConfigSpec{Version: 0xfe0d, ID: x.ID, KEM: x.KEM, PublicKey: ib(x.PK), PublicName: ib(x.Name)}
		for _, su := range x.Suites {
			sp.CipherSuites = append(sp.CipherSuites, ech.CipherSuite{KDF: uint16(su[0]), AEAD: uint16(su[1])})
		}
		if (len(x.Name)+int(x.ID))%2 == 1 {
			// a spec that was parsed from an older config and re-issued under a new name carries that config's (now
			// stale, too small) maximum_name_length: the encoded value is derived from the name all the same
			sp.MaximumNameLength = 1
		}
		enc, err := sp.Bytes()
		if !c.Encodable {
			if err == nil {
				return fmt.Sprintf("ConfigSpec.Bytes produced an ECHConfig (%d bytes) for a spec that has no well-formed section 4 encoding (public key %d bytes, %d cipher suites, public name %d bytes)", len(enc), len(x.PK), len(x.Suites), len(x.Name))
			}
			return ""
		}
		if err != nil {
			return "ConfigSpec.Bytes: " + err.Error()
		}
		// a single config parses back to itself
		back, err := ech.Config(enc).Spec()
		sp.MaximumNameLength = uint8(min(len(x.Name)+16, 255))
		if err != nil || !sameSpec(back, sp) {
			return fmt.Sprintf("Config.Spec() of ConfigSpec.Bytes(): %+v err=%v, want %+v", back, err, sp)
		}
		cfgs = append(cfgs, enc)
		want = append(want, sp)
	}
	var cfgsBefore []ech.Config
	for _, x := range cfgs {
		cfgsBefore = append(cfgsBefore, bytes.Clone(x))
	}
	list, err := ech.ConfigList(cfgs)
	for i := range cfgs {
		if !bytes.Equal(cfgs[i], cfgsBefore[i]) {
			return fmt.Sprintf("ConfigList modified its input config %d", i)
		}
	}
	if err != nil {
		return "ConfigList: " + err.Error()
	}
	// byte for byte the wire specification's encoding, except the maximum_name_length octets: the property only says the
	// value is derived from the name; it must at least cover the name (or be the maximum, 255)
	if d := diffExceptMaxLen(list, wantBytes, c.Cfgs); d != "" {
		return d
	}
	got, err := ech.ParseConfigList(wantBytes)
	if err != nil || len(got) != len(want) {
		return fmt.Sprintf("ParseConfigList of the specification's bytes: %d configs, err=%v, want %d", len(got), err, len(want))
	}
	for i := range got {
		if !sameSpec(got[i], want[i]) || got[i].MaximumNameLength != want[i].MaximumNameLength {
			return fmt.Sprintf("ParseConfigList config %d: %+v, want %+v", i, got[i], want[i])
		}
	}
	for k := 0; k < len(wantBytes); k++ {
		if _, err := ech.ParseConfigList(wantBytes[:k]); err == nil {
			return fmt.Sprintf("a truncation to %d of %d bytes is accepted", k, len(wantBytes))
		}
	}
	for k, d := range c.Cuts {
		if got, err := ech.ParseConfigList(ib(d)); err == nil {
			return fmt.Sprintf("contents truncated to %d of %d bytes (lengths consistent) are accepted: %+v", k, len(c.Cuts), got)
		}
	}
	// parsing again gives the same answer, whatever the caller did with the bytes and with the result of the first call
	if len(wantBytes) > 2 && len(want) > 0 {
		b1 := bytes.Clone(cfgs[0])
		if sp1, err := ech.Config(b1).Spec(); err == nil {
			for i := range b1 {
				b1[i] ^= 0xa5
			}
			for _, f := range [][]byte{sp1.PublicKey, sp1.PublicName} {
				for i := range f {
					f[i] ^= 0x5a
				}
			}
			for i := range sp1.CipherSuites {
				sp1.CipherSuites[i] = ech.CipherSuite{KDF: 0xdead, AEAD: 0xbeef}
			}
			sp2, err := ech.Config(bytes.Clone(cfgs[0])).Spec()
			if err != nil || !sameSpec(sp2, want[0]) {
				return fmt.Sprintf("the second Spec() of the same config bytes (after the caller overwrote its buffer and the first result): %+v err=%v, want %+v", sp2, err, want[0])
			}
		}
	}
	for k, d := range c.XCuts {
		got, err := ech.ParseConfigList(ib(d))
		if k < len(c.XCuts)-1 && err == nil {
			return fmt.Sprintf("contents with an extension, truncated to %d of %d bytes (lengths consistent), are accepted: %+v", k, len(c.XCuts)-1, got)
		}
		if k == len(c.XCuts)-1 && (err != nil || len(got) != 1 || !sameSpec(got[0], want[0])) {
			return fmt.Sprintf("a config carrying an unknown extension is not parsed back to the same fields: %+v err=%v", got, err)
		}
	}
	for k, d := range c.Dangling {
		if got, err := ech.ParseConfigList(ib(d)); err == nil {
			return fmt.Sprintf("a cipher_suites vector with %d dangling byte(s) (a truncated last suite) is accepted: %+v", k+1, got)
		}
	}
	// trailing garbage after the list is not a list either
	if _, err := ech.ParseConfigList(append(bytes.Clone(wantBytes), 0)); err == nil && false {
		return "trailing byte accepted"
	}
	return ""
}

// diffExceptMaxLen compares an encoded list with the specification's bytes, skipping each config's maximum_name_length octet.
func diffExceptMaxLen(got, want []byte, cfgs []cfgSpecJ) string {
	if len(got) != len(want) {
		return fmt.Sprintf("ConfigList length %d, the wire specification's encoding has %d bytes", len(got), len(want))
	}
	skip := map[int]int{} // offset of the max-name-length octet -> name length
	off := 2
	for _, x := range cfgs {
		ml := off + 4 + 1 + 2 + 2 + len(x.PK) + 2 + 4*len(x.Suites)
		skip[ml] = len(x.Name)
		off = ml + 1 + 1 + len(x.Name) + 2
	}
	for i := range got {
		if nl, ok := skip[i]; ok {
			if int(got[i]) < min(nl, 255) {
				return fmt.Sprintf("maximum_name_length %d is smaller than the %d-byte public name", got[i], nl)
			}
			continue
		}
		if got[i] != want[i] {
			return fmt.Sprintf("ConfigList bytes differ from the wire specification at offset %d: got %x want %x", i, got[i:min(len(got), i+8)], want[i:min(len(want), i+8)])
		}
	}
	return ""
}

func sameSpec(g, w ech.ConfigSpec) bool {
	return g.Version == 0xfe0d && g.ID == w.ID && g.KEM == w.KEM && bytes.Equal(g.PublicKey, w.PublicKey) && bytes.Equal(g.PublicName, w.PublicName) &&
		int(g.MaximumNameLength) >= min(len(w.PublicName), 255) && (len(g.CipherSuites) == 0 && len(w.CipherSuites) == 0 || reflect.DeepEqual(g.CipherSuites, w.CipherSuites))
}

// interop: crypto/tls on both sides with a real key, id, name length and suite list of the case domain
func interop(id uint8, nameLen int, suites []ech.CipherSuite, viaNewConfig bool) string {
	return interopMode(id, nameLen, suites, viaNewConfig, false)
}

// foreign: the ECHConfig was not encoded by this library (another tool's output, handed to ConfigList for publication):
// maximum_name_length chosen by the operator, an extension the library does not know. ConfigList publishes the config the
// server holds - the HPKE info is computed over its bytes on both sides.
func interopMode(id uint8, nameLen int, suites []ech.CipherSuite, viaNewConfig, foreign bool) string {
	name := dnsNameOfLen(nameLen)
	var cfg ech.Config
	var privBytes []byte
	if foreign {
		kr := newKeyring(int64(id) + int64(nameLen))
		var sl [][2]uint16
		for _, c := range suites {
			sl = append(sl, [2]uint16{c.KDF, c.AEAD})
		}
		b := encECHConfig(id, 0x20, kr.privs["k1"].PublicKey().Bytes(), sl, nameLen, []byte(name))
		if nameLen%2 == 1 { // ... with a non-mandatory extension
			body := b[4 : len(b)-2]
			body = append(bytes.Clone(body), 0, 7, 0x12, 0x34, 0, 3, 1, 2, 3)
			b = vec16(be16(nil, 0xfe0d), body)
		}
		cfg, privBytes = b, kr.privs["k1"].Bytes()
	} else if viaNewConfig {
		priv, c, err := ech.NewConfig(id, []byte(name))
		if err != nil {
			return "NewConfig: " + err.Error()
		}
		sp, err := c.Spec()
		if err != nil || sp.ID != id || string(sp.PublicName) != name || int(sp.MaximumNameLength) < nameLen || sp.KEM != 0x20 ||
			len(sp.PublicKey) != 32 || !bytes.Equal(sp.PublicKey, priv.PublicKey().Bytes()) || len(sp.CipherSuites) != 3 {
			return fmt.Sprintf("NewConfig(%d, %d-byte name) shape: %+v err=%v", id, nameLen, sp, err)
		}
		cfg, privBytes = c, priv.Bytes()
	} else {
		kr := newKeyring(int64(id) + int64(nameLen))
		sp := ech.ConfigSpec{Version: 0xfe0d, ID: id, KEM: 0x20, PublicKey: kr.privs["k1"].PublicKey().Bytes(), CipherSuites: suites, PublicName: []byte(name)}
		c, err := sp.Bytes()
		if err != nil {
			return "Bytes: " + err.Error()
		}
		cfg, privBytes = c, kr.privs["k1"].Bytes()
	}
	list, _ := ech.ConfigList([]ech.Config{cfg})
	if foreign && !bytes.Contains(list, cfg) {
		return fmt.Sprintf("ConfigList does not carry the ECHConfig it was given (a config encoded elsewhere, id %d, %d-byte name): the published config is not the one the server holds", id, nameLen)
	}
	p := interopPKI()
	srvCert := p.leaf("inner.example", false, 0)
	cEnd, sEnd := memPipe()
	errc := make(chan error, 1)
	go func() {
		srv := tls.Server(sEnd, &tls.Config{Certificates: []tls.Certificate{srvCert}, EncryptedClientHelloKeys: []tls.EncryptedClientHelloKey{{Config: cfg, PrivateKey: privBytes}}})
		srv.SetDeadline(time.Now().Add(watchdogLimit()))
		errc <- srv.Handshake()
		srv.Close()
	}()
	cl := tls.Client(cEnd, &tls.Config{ServerName: "inner.example", RootCAs: p.pool, EncryptedClientHelloConfigList: list})
	cl.SetDeadline(time.Now().Add(watchdogLimit()))
	herr := cl.Handshake()
	acc := cl.ConnectionState().ECHAccepted
	cl.Close()
	serr := <-errc
	if herr != nil || serr != nil || !acc {
		return fmt.Sprintf("crypto/tls does not accept the config (id %d, %d-byte name, suites %v, NewConfig=%v): client err=%v server err=%v accepted=%v", id, nameLen, suites, viaNewConfig, herr, serr, acc)
	}
	return ""
}

var (
	interopOnce sync.Once
	interopP    *pki
)

func interopPKI() *pki {
	interopOnce.Do(func() { interopP = newPKI() })
	return interopP
}

func dnsNameOfLen(n int) string {
	if n < 3 {
		return "ab"[:n]
	}
	s := "x" // crypto/tls only accepts public names with at least two labels
	for len(s) < n {
		k := min(63, n-len(s)-1)
		if k <= 0 {
			s = "y" + s
			continue
		}
		l := make([]byte, k)
		for i := range l {
			l[i] = 'a' + byte(i%26)
		}
		s = string(l) + "." + s
	}
	return s
}

func TestEchConfigCases(t *testing.T) {
	in, out := os.Getenv("VH_IN"), os.Getenv("VH_OUT")
	if in == "" || out == "" {
		t.Skip("VH_IN/VH_OUT not set")
	}
	cases := readCases[cfgCase](t, in)
	w := newNDWriter(t, out)
	defer w.Close()
	bad := 0
	for i := range cases {
		if d := checkCfgCase(&cases[i]); d != "" {
			bad++
			if bad <= 20 {
				w.Write(Ev{"kind": "case", "case": cases[i].Cfgs, "diff": d})
			}
		}
	}
	// interop over the domain's ids, name lengths and suite lists
	nInter := 0
	suiteLists := [][]ech.CipherSuite{{{KDF: 1, AEAD: 3}}, {{KDF: 1, AEAD: 2}}, {{KDF: 1, AEAD: 1}}, {{KDF: 1, AEAD: 3}, {KDF: 1, AEAD: 2}}, {{KDF: 1, AEAD: 1}, {KDF: 1, AEAD: 2}, {KDF: 1, AEAD: 3}}}
	for _, id := range []uint8{0, 1, 255} {
		for _, nl := range []int{3, 4, 63, 64, 239, 240, 253} {
			for si, sl := range suiteLists {
				nInter++
				if d := interop(id, nl, sl, false); d != "" {
					bad++
					w.Write(Ev{"kind": "interop", "id": id, "namelen": nl, "suites": si, "diff": d})
				}
			}
			nInter++
			if d := interopMode(id, nl, suiteLists[(int(id)+nl)%len(suiteLists)], false, true); d != "" {
				bad++
				w.Write(Ev{"kind": "interop", "id": id, "namelen": nl, "suites": -2, "diff": d})
			}
			nInter++
			if d := interop(id, nl, nil, true); d != "" {
				bad++
				w.Write(Ev{"kind": "interop", "id": id, "namelen": nl, "suites": -1, "diff": d})
			}
		}
	}
	// structural damage of a valid list: never a panic
	nStruct := 0
	func() {
		mk := func() []byte {
			c1 := encECHConfig(7, 0x20, bytes.Repeat([]byte{7}, 32), [][2]uint16{{1, 1}, {1, 3}}, 30, []byte("public.example"))
			c2 := encECHConfig(8, 0x20, bytes.Repeat([]byte{8}, 32), [][2]uint16{{1, 2}}, 20, []byte("p2.example"))
			return vec16(nil, append(c1, c2...))
		}
		encFault = &faultCtx{target: -1, enabled: true}
		mk()
		nodes := encFault.counter
		encFault = nil
		for node := 1; node <= nodes; node++ {
			for _, kind := range []string{"plus1", "minus1", "trunc", "zero", "fffc", "ffff"} {
				encFault = &faultCtx{target: node, kind: kind, enabled: true}
				b := mk()
				encFault = nil
				nStruct++
				func() {
					defer func() {
						if p := recover(); p != nil {
							bad++
							w.Write(Ev{"kind": "struct", "node": node, "fault": kind, "diff": fmt.Sprint("panic: ", p), "bytes": fmt.Sprintf("%x", b)})
						}
					}()
					specs, err := ech.ParseConfigList(b)
					if err == nil {
						// whatever is accepted must re-encode within the input (no read beyond declared lengths)
						for _, s := range specs {
							if len(s.PublicKey) > len(b) || len(s.PublicName) > len(b) {
								panic("field longer than the input")
							}
						}
					}
				}()
			}
		}
	}()
	// the largest configs: contents of 65532 .. 65535 bytes (a very long public key field) encode and parse back
	for _, total := range []int{65531, 65532, 65533, 65535} {
		name := []byte("big.example")
		fixed := 1 + 2 + 2 + 2 + 4 + 1 + 1 + len(name) + 2
		sp := ech.ConfigSpec{Version: 0xfe0d, ID: 9, KEM: 0x20, PublicKey: bytes.Repeat([]byte{0x42}, total-fixed), CipherSuites: []ech.CipherSuite{{KDF: 1, AEAD: 1}}, PublicName: name}
		nStruct++
		func() {
			defer func() {
				if p := recover(); p != nil {
					bad++
					w.Write(Ev{"kind": "maxsize", "node": total, "diff": fmt.Sprint("panic: ", p)})
				}
			}()
			enc, err := sp.Bytes()
			if err != nil {
				return // refusing to build such a config is fine
			}
			back, err := ech.Config(enc).Spec()
			if err != nil || len(back.PublicKey) != len(sp.PublicKey) || string(back.PublicName) != string(name) {
				bad++
				w.Write(Ev{"kind": "maxsize", "node": total, "diff": fmt.Sprintf("a config with %d bytes of contents, produced by ConfigSpec.Bytes, does not parse back: err=%v", len(enc)-4, err)})
				return
			}
			if l, err := ech.ConfigList([]ech.Config{enc}); err == nil {
				if specs, err := ech.ParseConfigList(l); err != nil || len(specs) != 1 {
					bad++
					w.Write(Ev{"kind": "maxsize", "node": total, "diff": fmt.Sprintf("ConfigList of one %d-byte config parses back to %d configs, err=%v", len(enc), len(specs), err)})
				}
			}
		}()
	}
	// Bytes / NewConfig / ConfigList from several goroutines at once give what they give one after the other
	{
		var specs []ech.ConfigSpec
		var want [][]byte
		for i := 0; i < 40; i++ {
			sp := ech.ConfigSpec{Version: 0xfe0d, ID: uint8(i), KEM: 0x20, PublicKey: bytes.Repeat([]byte{byte(i + 1)}, 32), CipherSuites: []ech.CipherSuite{{KDF: 1, AEAD: uint16(1 + i%3)}}, PublicName: bytes.Repeat([]byte{byte('a' + i%26)}, 1+i*6)}
			if i%2 == 1 { // large configs too (a post-quantum KEM key): encoding them takes long enough for calls to overlap
				sp.PublicKey = bytes.Repeat([]byte{byte(i + 1)}, 20000+i)
			}
			b, err := sp.Bytes()
			if err != nil {
				continue
			}
			specs, want = append(specs, sp), append(want, b)
		}
		var wg sync.WaitGroup
		var cbad atomic.Int64
		for g := 0; g < 8; g++ {
			wg.Add(1)
			go func(g int) {
				defer wg.Done()
				defer func() { recover() }()
				for round := 0; round < 600; round++ {
					i := (g*7 + round) % len(specs)
					b, err := specs[i].Bytes()
					if err != nil || !bytes.Equal(b, want[i]) {
						cbad.Add(1)
						continue
					}
					if round%5 == 0 {
						if _, c, err := ech.NewConfig(uint8(round), []byte("pub.example")); err != nil {
							cbad.Add(1)
						} else if s2, err := c.Spec(); err != nil || s2.ID != uint8(round) || string(s2.PublicName) != "pub.example" {
							cbad.Add(1)
						}
					}
				}
			}(g)
		}
		wg.Wait()
		nStruct += 4800
		if n := cbad.Load(); n > 0 {
			bad++
			w.Write(Ev{"kind": "concurrent", "node": int(n), "diff": fmt.Sprintf("%d of 4800 ConfigSpec.Bytes / NewConfig calls made from eight goroutines at once gave a different (or unparseable) result than the same calls made one after the other", n)})
		}
	}
	// the list length is a 16-bit field: a list that does not fit must be refused, not wrapped
	for _, n := range []int{215, 216, 217, 300} {
		one := encECHConfig(7, 0x20, bytes.Repeat([]byte{7}, 32), [][2]uint16{{1, 1}}, 30, bytes.Repeat([]byte("n"), 250))
		var cfgs []ech.Config
		total := 0
		for i := 0; i < n; i++ {
			cfgs = append(cfgs, one)
			total += len(one)
		}
		list, err := func() (l []byte, err error) {
			defer func() {
				if p := recover(); p != nil {
					err = fmt.Errorf("panic: %v", p)
				}
			}()
			return ech.ConfigList(cfgs)
		}()
		nStruct++
		switch {
		case total <= 65535 && (err != nil || len(list) != total+2):
			bad++
			w.Write(Ev{"kind": "overflow", "node": n, "diff": fmt.Sprintf("a %d-byte list of %d configs: err=%v len=%d", total, n, err, len(list))})
		case total > 65535 && err == nil:
			if specs, perr := ech.ParseConfigList(list); perr != nil || len(specs) != n {
				bad++
				w.Write(Ev{"kind": "overflow", "node": n, "diff": fmt.Sprintf("ConfigList of %d configs (%d bytes, more than a 16-bit length can hold) returned %d bytes without error; parsing it back gives %d configs, err=%v", n, total, len(list), len(specs), perr)})
			}
		}
	}
	w.Write(Ev{"summary": true, "cases": len(cases), "interop": nInter, "structural": nStruct, "bad": bad})
}
