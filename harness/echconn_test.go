package verifharness

// C06 (and the Conn-level clauses of C05 / C09): every history enumerated by TLC from spec/EchConn.tla is replayed on
// a real Conn. Records are concretised with the independent encoder; all CH2* variants are sealed with the client's
// single crypto/hpke sender so that HPKE sequence numbers are real.

import (
	"bytes"
	"context"
	"fmt"
	"net"
	"os"
	"sync"
	"sync/atomic"
	"testing"
	"time"

	"github.com/c2FmZQ/ech"
)

type connCase struct {
	First string     `json:"first"`
	Keys  string     `json:"keys"`
	Hist  [][]string `json:"hist"`
	Outs  [][]string `json:"outs"`
}

// chunkConn: the client-side transport. Read returns one queued chunk per call.
type chunkConn struct {
	mu      sync.Mutex
	cond    *sync.Cond
	q       [][]byte
	w       bytes.Buffer
	closed  bool
	block   bool // an empty queue blocks the reader (parked-read mode) instead of failing
	waiting int  // readers currently parked
	// hold: the next Write delivers its bytes and then returns only when released (a kernel socket whose writer is
	// descheduled: the peer already has the bytes, the caller does not know yet)
	hold    bool
	release chan struct{}
}

func (c *chunkConn) push(b []byte) {
	c.mu.Lock()
	c.q = append(c.q, b)
	if c.cond != nil {
		c.cond.Broadcast()
	}
	c.mu.Unlock()
}
func (c *chunkConn) Read(p []byte) (int, error) {
	c.mu.Lock()
	defer c.mu.Unlock()
	for len(c.q) == 0 && c.block && !c.closed {
		c.waiting++
		c.cond.Wait()
		c.waiting--
	}
	if len(c.q) == 0 {
		return 0, net.ErrClosed
	}
	n := copy(p, c.q[0])
	if n == len(c.q[0]) {
		c.q = c.q[1:]
	} else {
		c.q[0] = c.q[0][n:]
	}
	return n, nil
}
func (c *chunkConn) Write(p []byte) (int, error) {
	c.mu.Lock()
	if c.closed {
		c.mu.Unlock()
		return 0, net.ErrClosed
	}
	n, err := c.w.Write(p)
	if c.hold {
		c.hold = false
		rel := c.release
		c.mu.Unlock()
		<-rel
		return n, err
	}
	c.mu.Unlock()
	return n, err
}
func (c *chunkConn) written() []byte {
	c.mu.Lock()
	defer c.mu.Unlock()
	return bytes.Clone(c.w.Bytes())
}
func (c *chunkConn) isClosed() bool { c.mu.Lock(); defer c.mu.Unlock(); return c.closed }
func (c *chunkConn) Close() error {
	c.mu.Lock()
	c.closed = true
	if c.cond != nil {
		c.cond.Broadcast()
	}
	c.mu.Unlock()
	return nil
}
func (c *chunkConn) parked() bool                       { c.mu.Lock(); defer c.mu.Unlock(); return c.waiting > 0 }
func (c *chunkConn) LocalAddr() net.Addr                { return &net.TCPAddr{} }
func (c *chunkConn) RemoteAddr() net.Addr               { return &net.TCPAddr{} }
func (c *chunkConn) SetDeadline(t time.Time) error      { return nil }
func (c *chunkConn) SetReadDeadline(t time.Time) error  { return nil }
func (c *chunkConn) SetWriteDeadline(t time.Time) error { return nil }

var (
	stdOuter = []aExt{{"sni", "pub"}, {"sg", "g"}, {"ks", "k"}, {"sv", "13"}, {"ech", "E"}}
	stdInner = []aExt{{"sni", "priv"}, {"sg", "gi"}, {"ks", "ki"}, {"alpn", "ai"}, {"sv", "13"}, {"ech", "I"}}
)

func cloneExts(x []aExt) []aExt { return append([]aExt{}, x...) }
func setExt(x []aExt, t, v string) []aExt {
	x = cloneExts(x)
	for i := range x {
		if x[i].T == t {
			x[i].V = v
		}
	}
	return x
}
func dropExt(x []aExt, t string) []aExt {
	var out []aExt
	for _, e := range x {
		if e.T != t {
			out = append(out, e)
		}
	}
	return out
}

// sealedHello builds an outer hello whose payload is the given inner, sealed under (kid k1, enc e1, suite s1, cfg c1).
func sealedHello(outerExts, innerExts []aExt, enc aEnc, cid int, suite string, ok bool) *aHello {
	inner := &aHello{Sid: "", Exts: innerExts, Ech: aEch{Type: "inner"}, Pad: "zeros"}
	mk := func(ct *aCt) *aHello {
		return &aHello{Sid: "s1", Exts: outerExts, Pad: "none", Ech: aEch{Type: "outer", Cid: cid, Suite: suite, Enc: &enc, Ct: ct}}
	}
	aad := mk(&aCt{Zero: true})
	return mk(&aCt{Ok: ok, Kid: "k1", Enc: "e1", Suite: "s1", Info: "c1", Aad: aad, Pt: inner})
}

// replayConnCase replays one history. parked: a Read that follows a Write in the history is already blocked in the
// transport when the Write happens (a proxy with one goroutine per direction), the record arriving afterwards.
func replayConnCase(kr *keyring, c *connCase, parked, byref bool) (diff string) {
	return replayConnCaseMode(kr, c, parked, byref, false)
}

// latewrite: the transport Write that carries the HelloRetryRequest has delivered its bytes but has not returned yet when
// the client's answer is read (two goroutines, one per direction).
func replayConnCaseMode(kr *keyring, c *connCase, parked, byref, latewrite bool) (diff string) {
	defer func() {
		if r := recover(); r != nil {
			diff = fmt.Sprint("panic: ", r)
		}
	}()
	s := newSealer(kr)
	eo := encOpts{padLen: 9}
	// layout of every hello of this connection: inner extensions inline, or supported_groups and ALPN carried by
	// reference (ech_outer_extensions) as real clients do - the retry rules are about the *reconstructed* hello
	stdOuter, stdInner, stdInnerFull, innerEoe := stdOuter, stdInner, stdInner, []string(nil)
	if byref {
		stdOuter = []aExt{{"sni", "pub"}, {"sg", "g"}, {"ks", "k"}, {"alpn", "ai"}, {"sv", "13"}, {"ech", "E"}}
		stdInner = []aExt{{"sni", "priv"}, {"eoe", "E"}, {"ks", "ki"}, {"sv", "13"}, {"ech", "I"}}
		stdInnerFull = []aExt{{"sni", "priv"}, {"sg", "g"}, {"alpn", "ai"}, {"ks", "ki"}, {"sv", "13"}, {"ech", "I"}}
		innerEoe = []string{"sg", "alpn"}
	}
	sealedHello := func(outerExts, innerExts []aExt, enc aEnc, cid int, suite string, ok bool) *aHello {
		h := sealedHello(outerExts, innerExts, enc, cid, suite, ok)
		h.Ech.Ct.Pt.Eoe = innerEoe
		return h
	}
	keyNames := map[string][]string{"K1": {"K1"}, "K3K1": {"K3", "K1"}, "K2K1": {"K2", "K1"}, "K2K6K3K1": {"K2", "K6", "K3", "K1"}, "KXK2K1": {"KX", "K2", "K1"}, "K4K1": {"K4", "K1"}, "K2K4K1": {"K2", "K4", "K1"}}[c.Keys]
	first := aEnc{To: "k1", Id: "e1"}
	var ch1 *aHello
	switch c.First {
	case "acc":
		ch1 = sealedHello(stdOuter, stdInner, first, 7, "s1", true)
	case "grease":
		ch1 = sealedHello(stdOuter, stdInner, first, 7, "s1", false)
	default:
		ch1 = &aHello{Sid: "s1", Exts: dropExt(stdOuter, "ech"), Pad: "none", Ech: aEch{Type: "none"}}
	}
	ch1rec := handshakeRecord(s.helloBody(ch1, outerRandom, eo, "", -1))
	tr := &chunkConn{}
	tr.cond = sync.NewCond(&tr.mu)
	tr.push(ch1rec)
	conn, err := ech.NewConn(context.Background(), tr, keyOptions(kr.serverKeys(keyNames))...)
	if err != nil {
		return "NewConn: " + err.Error()
	}
	scribbledALPN(conn) // a caller that edits the list it was handed must not change what a retried hello is compared with
	if conn.ECHAccepted() != (c.First == "acc") {
		return fmt.Sprintf("first flight: accepted=%v, scenario %s", conn.ECHAccepted(), c.First)
	}
	buf := make([]byte, 70000)
	n, err := conn.Read(buf)
	if err != nil {
		return "reading the first hello: " + err.Error()
	}
	wantFirst := ch1rec
	innerRec := expectedInnerRecord(kr, &aInner{Sid: "s1", Exts: stdInnerFull}, eo)
	if c.First == "acc" {
		wantFirst = innerRec
	}
	if !sameRecord(wantFirst, buf[:n]) {
		return "first hello delivered to the backend is not the expected one"
	}
	empty := aEnc{To: "empty", Id: "e0"}
	innerRec2 := innerRec
	if byref {
		// the second ClientHelloOuter of a real client differs from the first (key_share, cookie ...): what the retried inner
		// hello takes by reference is taken from the SECOND outer hello
		stdOuter = setExt(stdOuter, "sg", "g2")
		innerRec2 = expectedInnerRecord(kr, &aInner{Sid: "s1", Exts: setExt(stdInnerFull, "sg", "g2")}, eo)
	}
	mkCH2 := func(sym string) []byte {
		var h *aHello
		switch sym {
		case "CH2ok", "CH2again":
			h = sealedHello(stdOuter, stdInner, empty, 7, "s1", true)
		case "CH2noEch":
			h = &aHello{Sid: "s1", Exts: dropExt(stdOuter, "ech"), Pad: "none", Ech: aEch{Type: "none"}}
		case "CH2cid":
			h = sealedHello(stdOuter, stdInner, empty, 8, "s1", true)
		case "CH2suite":
			h = sealedHello(stdOuter, stdInner, empty, 7, "s3", true)
		case "CH2enc":
			h = sealedHello(stdOuter, stdInner, first, 7, "s1", true)
		case "CH2undec":
			h = sealedHello(stdOuter, stdInner, empty, 7, "s1", false)
		case "CH2sni":
			h = sealedHello(stdOuter, setExt(stdInner, "sni", "other"), empty, 7, "s1", true)
		case "CH2sniKelvin":
			h = sealedHello(stdOuter, setExt(stdInner, "sni", "privKelvin"), empty, 7, "s1", true)
		case "CH2alpn":
			if byref { // the referenced outer ALPN changed: the reconstructed inner hello no longer has the first one's list
				h = sealedHello(setExt(stdOuter, "alpn", "ao"), stdInner, empty, 7, "s1", true)
			} else {
				h = sealedHello(stdOuter, setExt(stdInner, "alpn", "ao"), empty, 7, "s1", true)
			}
		case "CH2outerSni":
			h = sealedHello(setExt(stdOuter, "sni", "other"), stdInner, empty, 7, "s1", true)
		case "CH2noEchNo13":
			h = &aHello{Sid: "s1", Exts: setExt(dropExt(stdOuter, "ech"), "sv", "12"), Pad: "none", Ech: aEch{Type: "none"}}
		case "CH2no13":
			h = sealedHello(setExt(stdOuter, "sv", "12"), stdInner, empty, 7, "s1", true)
		case "CH2innerType":
			h = &aHello{Sid: "s1", Exts: stdOuter, Pad: "none", Ech: aEch{Type: "inner"}}
		}
		return handshakeRecord(s.helloBody(h, outerRandom, eo, "", -1))
	}
	fixed := map[string][]byte{
		"CCS":     {20, 3, 3, 0, 1, 1},
		"HSother": {22, 3, 3, 0, 5, 11, 0, 0, 1, 0},
		"ALERT":   {21, 3, 3, 0, 2, 1, 0},
		"ALERTF":  {21, 3, 3, 0, 2, 2, 40}, // fatal alert: level 2 is also the ServerHello message type
		"APP":     append([]byte{23, 3, 3, 0, 19}, bytes.Repeat([]byte{0xEE}, 19)...),
		"ZERO":    {22, 3, 3, 0, 0},
		"ZEROAPP": {23, 3, 3, 0, 0},
		"SHbad":   {22, 3, 3, 0, 5, 2, 0, 0, 1, 0},
		// a TLS 1.2 ServerHello: version, random, 32-byte session id, cipher suite, compression - and no extensions block
		"SH12": append(append([]byte{22, 3, 3, 0, 74, 2, 0, 0, 70, 3, 3}, bytes.Repeat([]byte{0x21}, 32)...), append(append([]byte{32}, bytes.Repeat([]byte{0x22}, 32)...), 0xc0, 0x2f, 0)...),
	}
	serverHello := func(hrr bool) []byte {
		b := []byte{3, 3}
		if hrr {
			b = append(b, 0xCF, 0x21, 0xAD, 0x74, 0xE5, 0x9A, 0x61, 0x11, 0xBE, 0x1D, 0x8C, 0x02, 0x1E, 0x65, 0xB8, 0x91,
				0xC2, 0xA2, 0x11, 0x16, 0x7A, 0xBB, 0x8C, 0x5E, 0x07, 0x9E, 0x09, 0xE2, 0xC8, 0xA8, 0x33, 0x9C)
		} else {
			b = append(b, bytes.Repeat([]byte{0x42}, 32)...)
		}
		b = vec8(b, sidBytes("s1"))
		b = append(b, 0x13, 0x01, 0)
		b = vec16(b, []byte{0, 43, 0, 2, 3, 4})
		hs := append([]byte{2, 0, 0, byte(len(b))}, b...)
		return append(be16([]byte{22, 3, 3}, len(hs)), hs...)
	}
	type readRes struct {
		n   int
		err error
	}
	var pending chan readRes // a Read started before the preceding Write
	var lateW chan error     // a Write(HRR) whose transport call has not returned yet
	var lateRel chan struct{}
	defer func() {
		if lateRel != nil {
			close(lateRel)
		}
	}()
	tr.mu.Lock()
	tr.block = parked
	tr.mu.Unlock()
	for i, step := range c.Hist {
		dir, sym := step[0], step[1]
		want := c.Outs[i]
		if parked && dir == "w" && i+1 < len(c.Hist) && c.Hist[i+1][0] == "r" && pending == nil {
			ch := make(chan readRes, 1)
			go func() {
				n, err := conn.Read(buf)
				ch <- readRes{n, err}
			}()
			for k := 0; k < 2000 && !tr.parked(); k++ {
				time.Sleep(50 * time.Microsecond)
			}
			if !tr.parked() {
				return fmt.Sprintf("step %d: a Read with no client data available did not block in the transport", i+2)
			}
			pending = ch
		}
		if dir == "r" {
			rec, ok := fixed[sym]
			if !ok {
				rec = mkCH2(sym)
			}
			before := len(tr.written())
			tr.push(rec)
			var n int
			var err error
			if pending != nil {
				select {
				case r := <-pending:
					n, err = r.n, r.err
				case <-time.After(watchdogLimit()):
					noteHang()
					return fmt.Sprintf("step %d read %s: the parked Read did not return after the record arrived", i+1, sym)
				}
				pending = nil
			} else {
				n, err = conn.Read(buf)
			}
			if sym == "ZERO" && err != nil && n == 0 {
				return "" // a zero-length handshake record is not legal TLS: refusing it is admissible; the history ends here
			}
			switch want[0] {
			case "fwd":
				if err != nil || !bytes.Equal(buf[:n], rec) {
					return fmt.Sprintf("step %d read %s: spec says forwarded verbatim; code returned %d bytes, err=%v, equal=%v", i+1, sym, n, err, bytes.Equal(buf[:n], rec))
				}
			case "inner":
				if err != nil || !sameRecord(innerRec2, buf[:n]) {
					return fmt.Sprintf("step %d read %s: spec says replaced by the reconstructed inner hello; code returned %d bytes, err=%v", i+1, sym, n, err)
				}
			case "abort":
				if err == nil {
					return fmt.Sprintf("step %d read %s: spec says abort %s; code returned %d bytes without error", i+1, sym, want[1], n)
				}
				if errClass(err) != want[1] {
					return fmt.Sprintf("step %d read %s: spec says alert %s; code returned %s (%v)", i+1, sym, want[1], errClass(err), err)
				}
				wantAlert := []byte{0x15, 3, 3, 0, 2, 2, alertCode[want[1]]}
				if got := tr.written()[before:]; !bytes.Equal(got, wantAlert) {
					return fmt.Sprintf("step %d read %s: alert bytes on the client side: want %x got %x", i+1, sym, wantAlert, got)
				}
				if !tr.isClosed() {
					return fmt.Sprintf("step %d read %s: aborted but the client connection is not closed", i+1, sym)
				}
				if n != 0 {
					return fmt.Sprintf("step %d read %s: aborted but %d bytes were delivered", i+1, sym, n)
				}
			}
			if want[0] != "abort" && len(tr.written()) != before {
				return fmt.Sprintf("step %d read %s: unexpected bytes written to the client", i+1, sym)
			}
			if lateW != nil { // now the transport Write returns
				close(lateRel)
				lateRel = nil
				select {
				case werr := <-lateW:
					if werr != nil {
						return fmt.Sprintf("step %d: the Write of the HelloRetryRequest failed: %v", i, werr)
					}
				case <-time.After(watchdogLimit()):
					noteHang()
					return fmt.Sprintf("step %d: the Write of the HelloRetryRequest did not return", i)
				}
				lateW = nil
			}
		} else {
			rec, ok := fixed[sym]
			if !ok {
				rec = serverHello(sym == "HRR")
			}
			if latewrite && sym == "HRR" && want[0] == "fwd" && i+1 < len(c.Hist) && c.Hist[i+1][0] == "r" && lateW == nil {
				before := len(tr.written())
				tr.mu.Lock()
				tr.hold, tr.release = true, make(chan struct{})
				rel := tr.release
				tr.mu.Unlock()
				ch := make(chan error, 1)
				go func() {
					defer func() {
						if p := recover(); p != nil {
							ch <- fmt.Errorf("panic in Conn.Write: %v", p)
						}
					}()
					_, err := conn.Write(rec)
					ch <- err
				}()
				for k := 0; k < 4000 && len(tr.written()) < before+len(rec); k++ {
					time.Sleep(50 * time.Microsecond)
				}
				if !bytes.Equal(tr.written()[before:], rec) {
					close(rel)
					return fmt.Sprintf("step %d write HRR: not forwarded", i+1)
				}
				lateW, lateRel = ch, rel
				continue
			}
			before := len(tr.written())
			var n int
			var err error
			if byref && len(rec) > 6 {
				// the relay's way (io.Copy with one buffer): the record arrives in two pieces, written from the same reused buffer
				relay := make([]byte, len(rec))
				h := 3 + len(rec)/3
				copy(relay, rec[:h])
				n, err = conn.Write(relay[:h])
				if err == nil {
					for k := range relay {
						relay[k] = 0xA5
					}
					copy(relay, rec[h:])
					var n2 int
					n2, err = conn.Write(relay[:len(rec)-h])
					n += n2
					for k := range relay {
						relay[k] = 0x5A
					}
				}
			} else {
				n, err = conn.Write(rec)
			}
			got := tr.written()[before:]
			if sym == "ZERO" && err != nil && len(got) == 0 {
				return "" // refusing a zero-length handshake record from the backend is admissible
			}
			switch want[0] {
			case "fwd":
				if err != nil || n != len(rec) || !bytes.Equal(got, rec) {
					return fmt.Sprintf("step %d write %s: spec says forwarded; code n=%d err=%v forwarded=%x", i+1, sym, n, err, got)
				}
			case "any": // unspecified: refused or forwarded
			case "werr":
				if err == nil || len(got) != 0 {
					return fmt.Sprintf("step %d write %s: spec says rejected and not forwarded; code err=%v forwarded %d bytes", i+1, sym, err, len(got))
				}
			}
		}
	}
	scribbledALPN(conn) // a caller that edits the list it was handed must not change what a retried hello is compared with
	if conn.ECHAccepted() != (c.First == "acc") {
		return "ECHAccepted changed during the history"
	}
	if c.First == "acc" {
		if got := conn.ALPNProtos(); fmt.Sprint(got) != fmt.Sprint(alpnList["ai"]) || conn.ServerName() != sniName["priv"] {
			return fmt.Sprintf("after the history the Conn reports ServerName %q ALPN %v; the inner hello carries %q %v (in the client's order)", conn.ServerName(), got, sniName["priv"], alpnList["ai"])
		}
	}
	return ""
}

// parkedMode: histories worth replaying with the reader already blocked: a backend write directly followed by a client record
func parkedMode(c *connCase) bool {
	for i := 0; i+1 < len(c.Hist); i++ {
		if c.Hist[i][0] == "w" && c.Hist[i][1] == "HRR" && c.Hist[i+1][0] == "r" {
			return true
		}
	}
	return false
}

func hasCH2(c *connCase) bool {
	for _, st := range c.Hist {
		if len(st[1]) > 3 && st[1][:3] == "CH2" {
			return true
		}
	}
	return false
}

func TestEchConnHistories(t *testing.T) {
	in, out := os.Getenv("VH_IN"), os.Getenv("VH_OUT")
	if in == "" || out == "" {
		t.Skip("VH_IN/VH_OUT not set")
	}
	kr := newKeyring(seed())
	cases := readCases[connCase](t, in)
	w := newNDWriter(t, out)
	defer w.Close()
	// replay in parallel: cases are independent
	type res struct {
		i    int
		diff string
	}
	results := make([]string, len(cases))
	var wg sync.WaitGroup
	var hung atomic.Int64
	sem := make(chan struct{}, 16)
	for i := range cases {
		wg.Add(1)
		sem <- struct{}{}
		go func(i int) {
			defer wg.Done()
			defer func() { <-sem }()
			// every replay under a real-time watchdog: the scripted transport never blocks for good, so a replay that does not
			// finish means a Conn call is spinning or deadlocked (it cannot be stopped: the driver reports and exits at the end)
			guard := func(f func() string) string {
				ch := make(chan string, 1)
				go func() { ch <- f() }()
				select {
				case d := <-ch:
					return d
				case <-time.After(3 * watchdogLimit()):
					hung.Add(1)
					noteHang()
					return "the replay does not finish: a Conn call neither returns nor waits for the transport (spinning or deadlocked)"
				}
			}
			results[i] = guard(func() string { return replayConnCase(kr, &cases[i], false, false) })
			if results[i] == "" && parkedMode(&cases[i]) {
				if d := guard(func() string { return replayConnCase(kr, &cases[i], true, false) }); d != "" {
					results[i] = "(Read parked before the Write) " + d
				}
			}
			if results[i] == "" && parkedMode(&cases[i]) {
				if d := guard(func() string { return replayConnCaseMode(kr, &cases[i], false, false, true) }); d != "" {
					results[i] = "(the transport Write of the HelloRetryRequest returns after the client's answer was read) " + d
				}
			}
			if results[i] == "" && cases[i].First == "acc" && hasCH2(&cases[i]) {
				if d := guard(func() string { return replayConnCase(kr, &cases[i], false, true) }); d != "" {
					results[i] = "(supported_groups and ALPN by ech_outer_extensions reference) " + d
				}
			}
		}(i)
		if hung.Load() > 0 {
			break
		}
	}
	wg.Wait()
	bad := 0
	for i, d := range results {
		if d != "" {
			bad++
			if bad <= 50 {
				w.Write(Ev{"case": cases[i], "diff": d})
			}
		}
	}
	w.Write(Ev{"summary": true, "cases": len(cases), "bad": bad})
	if hung.Load() > 0 { // spinning goroutines cannot be stopped
		w.Close()
		exitNow()
	}
}
