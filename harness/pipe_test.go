package verifharness

// C07 (direction B): seeded random record streams at REAL sizes are pushed through a real Conn with random transport
// fragmentation, caller buffer sizes, write split points and a transport cut (EOF or error) at a random byte offset.
// Every Read/Write call is logged with its return values; TLC validates the log against spec/TraceEchPipe.tla.

import (
	"bytes"
	"context"
	"errors"
	"fmt"
	"io"
	"math/rand"
	"net"
	"os"
	"strconv"
	"sync"
	"testing"
	"time"

	"github.com/c2FmZQ/ech"
)

var errCut = errors.New("transport failure (scripted)")

// cutConn serves the client byte stream in random chunks and ends at cutAt with EOF or an error.
type cutConn struct {
	mu         sync.Mutex
	r          *rand.Rand
	data       []byte
	pos        int
	cutAt      int
	kind       string
	w          bytes.Buffer
	closed     bool
	oneAtATime bool
	withErr    bool // the transport returns its last bytes together with the error / EOF
	tmoAt      int  // -1, or the stream position at which one read deadline expires (no bytes; the next call goes on)
	tmoDone    bool
}

// errTmo is what a transport returns when its read deadline has passed.
type tmoError struct{}

func (tmoError) Error() string   { return "i/o timeout (scripted)" }
func (tmoError) Timeout() bool   { return true }
func (tmoError) Temporary() bool { return true }

var errTmo error = tmoError{}

func (c *cutConn) Read(p []byte) (int, error) {
	c.mu.Lock()
	defer c.mu.Unlock()
	if c.pos >= c.cutAt {
		if c.kind == "eof" {
			return 0, io.EOF
		}
		return 0, errCut
	}
	if !c.tmoDone && c.tmoAt == c.pos {
		c.tmoDone = true
		return 0, errTmo
	}
	max := min(len(p), c.cutAt-c.pos)
	if !c.tmoDone && c.tmoAt > c.pos {
		max = min(max, c.tmoAt-c.pos)
	}
	if max == 0 {
		return 0, nil
	}
	n := max
	switch {
	case c.oneAtATime:
		n = 1
	case c.r.Intn(3) == 0:
		n = 1 + c.r.Intn(max)
	case c.r.Intn(3) == 0:
		n = 1 + c.r.Intn(min(max, 7))
	}
	copy(p, c.data[c.pos:c.pos+n])
	c.pos += n
	if c.pos >= c.cutAt && c.withErr {
		// io.Reader allows the last bytes and the error to come from the same call
		if c.kind == "eof" {
			return n, io.EOF
		}
		return n, errCut
	}
	return n, nil
}
func (c *cutConn) Write(p []byte) (int, error) {
	c.mu.Lock()
	defer c.mu.Unlock()
	if c.closed {
		return 0, net.ErrClosed
	}
	return c.w.Write(p)
}
func (c *cutConn) written() []byte                    { c.mu.Lock(); defer c.mu.Unlock(); return bytes.Clone(c.w.Bytes()) }
func (c *cutConn) Close() error                       { c.mu.Lock(); c.closed = true; c.mu.Unlock(); return nil }
func (c *cutConn) LocalAddr() net.Addr                { return &net.TCPAddr{} }
func (c *cutConn) RemoteAddr() net.Addr               { return &net.TCPAddr{} }
func (c *cutConn) SetDeadline(t time.Time) error      { return nil }
func (c *cutConn) SetReadDeadline(t time.Time) error  { return nil }
func (c *cutConn) SetWriteDeadline(t time.Time) error { return nil }

type pipeRec struct {
	T   string `json:"t"`
	Len int    `json:"len"`
	Out int    `json:"out"`
}
type pipeBRec struct {
	T   string `json:"t"`
	Len int    `json:"len"`
}
type pipeScen struct {
	Crecs    []pipeRec  `json:"crecs"`
	Brecs    []pipeBRec `json:"brecs"`
	CutAt    int        `json:"cutAt"`
	CutKind  string     `json:"cutKind"`
	TmoAt    int        `json:"tmoAt"`
	FirstIn  int        `json:"firstIn"`
	FirstOut int        `json:"firstOut"`
	Accepted bool       `json:"accepted"`
}

func hrrRecord(hrr bool, pad int) []byte {
	b := []byte{3, 3}
	if hrr {
		b = append(b, 0xCF, 0x21, 0xAD, 0x74, 0xE5, 0x9A, 0x61, 0x11, 0xBE, 0x1D, 0x8C, 0x02, 0x1E, 0x65, 0xB8, 0x91,
			0xC2, 0xA2, 0x11, 0x16, 0x7A, 0xBB, 0x8C, 0x5E, 0x07, 0x9E, 0x09, 0xE2, 0xC8, 0xA8, 0x33, 0x9C)
	} else {
		b = append(b, bytes.Repeat([]byte{0x42}, 32)...)
	}
	b = vec8(b, sidBytes("s1"))
	b = append(b, 0x13, 0x01, 0)
	ext := []byte{0, 43, 0, 2, 3, 4}
	if pad > 0 {
		ext = append(ext, 0x12, 0x34)
		ext = vec16(ext, make([]byte, pad))
	}
	b = vec16(b, ext)
	hs := append([]byte{2, byte(len(b) >> 16), byte(len(b) >> 8), byte(len(b))}, b...)
	return append(be16([]byte{22, 3, 3}, len(hs)), hs...)
}

func rawRecord(r *rand.Rand, typ byte, first byte, l int) []byte {
	rec := append([]byte{typ, 3, 3, byte(l >> 8), byte(l)}, randBytes(r, l)...)
	if l > 0 {
		rec[5] = first
	}
	return rec
}

var pipeLens = []int{0, 1, 2, 5, 100, 4000, 16379, 16384, 16385, 16401, 16635, 16636, 16639, 16640}

func runPipeScenario(r *rand.Rand, kr *keyring, w *ndWriter, idx int) {
	s := newSealer(kr)
	eo := encOpts{padLen: 9, stretch: []int{0, 0, 200, 2000}[r.Intn(4)]}
	accepted := r.Intn(5) != 0
	var ch1 *aHello
	if accepted {
		ch1 = sealedHello(stdOuter, stdInner, aEnc{To: "k1", Id: "e1"}, 7, "s1", true)
	} else {
		ch1 = &aHello{Sid: "s1", Exts: dropExt(stdOuter, "ech"), Pad: "none", Ech: aEch{Type: "none"}}
	}
	ch1rec := handshakeRecord(s.helloBody(ch1, outerRandom, eo, "", -1))
	innerRec := expectedInnerRecord(kr, &aInner{Sid: "s1", Exts: stdInner}, eo)
	sc := pipeScen{Accepted: accepted, FirstIn: len(ch1rec), FirstOut: len(ch1rec)}
	if accepted {
		sc.FirstOut = len(innerRec)
	}
	// client records
	var cstream = bytes.Clone(ch1rec)
	var outRaw, outRepl []byte
	if accepted {
		outRaw, outRepl = bytes.Clone(innerRec), bytes.Clone(innerRec)
	} else {
		outRaw, outRepl = bytes.Clone(ch1rec), bytes.Clone(ch1rec)
	}
	// the first record's version bytes may be normalised
	usedCH := false
	chEndIn := -1
	nC := r.Intn(6)
	for i := 0; i < nC; i++ {
		var rec []byte
		var pr pipeRec
		switch k := r.Intn(10); {
		case k < 3:
			l := pipeLens[r.Intn(len(pipeLens))]
			rec = rawRecord(r, 23, 0x77, l)
			pr = pipeRec{T: "APP", Len: l}
		case k < 5:
			l := max(1, pipeLens[r.Intn(len(pipeLens))]) // only application data may have an empty fragment (RFC 8446 5.1)
			rec = rawRecord(r, 22, 11, l)
			pr = pipeRec{T: "HS", Len: l}
		case k < 7:
			l := []int{1, 2, 300}[r.Intn(3)]
			rec = rawRecord(r, []byte{20, 21}[r.Intn(2)], 1, l)
			pr = pipeRec{T: "OTHER", Len: l}
		case k < 9 && !usedCH && accepted:
			usedCH = true
			h := sealedHello(stdOuter, stdInner, aEnc{To: "empty", Id: "e0"}, 7, "s1", true)
			rec = handshakeRecord(s.helloBody(h, outerRandom, eo, "", -1))
			pr = pipeRec{T: "CH", Len: len(rec) - 5, Out: len(innerRec)}
		case i == nC-1:
			l := 16641 + r.Intn(1000)
			rec = []byte{[]byte{22, 23}[r.Intn(2)], 3, 3, byte(l >> 8), byte(l)}
			pr = pipeRec{T: "BIG", Len: l}
		default:
			rec = rawRecord(r, 23, 0x55, 3)
			pr = pipeRec{T: "APP", Len: 3}
		}
		cstream = append(cstream, rec...)
		outRaw = append(outRaw, rec...)
		if pr.T == "CH" {
			ir := bytes.Clone(innerRec)
			ir[1], ir[2] = 3, 3 // the record-layer version of a rewritten hello is the hello's legacy_version
			outRepl = append(outRepl, ir...)
			chEndIn = len(cstream)
		} else {
			outRepl = append(outRepl, rec...)
		}
		sc.Crecs = append(sc.Crecs, pr)
	}
	if sc.Crecs == nil {
		sc.Crecs = []pipeRec{}
	}
	// cut
	sc.CutAt = sc.FirstIn + r.Intn(len(cstream)-sc.FirstIn+1)
	if r.Intn(3) == 0 {
		sc.CutAt = len(cstream)
	}
	sc.CutKind = []string{"eof", "err"}[r.Intn(2)]
	// one scenario in three: a read deadline expires once somewhere before the cut (an idle timeout the proxy extends)
	sc.TmoAt = -1
	if sc.CutAt > sc.FirstIn && r.Intn(3) == 0 {
		sc.TmoAt = sc.FirstIn + r.Intn(sc.CutAt-sc.FirstIn)
		if r.Intn(4) == 0 { // ... exactly at a record boundary
			pos := sc.FirstIn
			for _, pr := range sc.Crecs {
				if pr.T == "BIG" || pos >= sc.CutAt || r.Intn(2) == 0 {
					break
				}
				pos += 5 + pr.Len
			}
			if pos < sc.CutAt {
				sc.TmoAt = pos
			}
		}
	}
	// expected output streams, truncated at the cut
	shrink := sc.FirstIn - sc.FirstOut
	outRawCut := outRaw[:sc.CutAt-shrink]
	var outReplCut []byte
	if chEndIn >= 0 && sc.CutAt >= chEndIn {
		// input position p >= chEndIn maps to output position p - shrink - (chlen - innerlen)
		var chIn int
		for _, pr := range sc.Crecs {
			if pr.T == "CH" {
				chIn = pr.Len + 5
			}
		}
		outReplCut = outRepl[:sc.CutAt-shrink-(chIn-len(innerRec))]
	}
	// backend records
	var bstream []byte
	nB := r.Intn(6)
	for i := 0; i < nB; i++ {
		var rec []byte
		var br pipeBRec
		switch k := r.Intn(10); {
		case k < 2:
			rec = hrrRecord(false, []int{0, 0, 3000}[r.Intn(3)])
			if r.Intn(3) == 0 {
				// a backend that puts further handshake messages into the record of its ServerHello (a TLS 1.2 flight:
				// ServerHello, Certificate, ServerHelloDone): still one record, still a ServerHello that is no HelloRetryRequest
				more := append([]byte{11, 0, 0, 7, 0, 0, 4, 0, 0, 1, 0x30}, 14, 0, 0, 0)
				rec = append(rec, more...)
				rec[3], rec[4] = byte((len(rec)-5)>>8), byte(len(rec)-5)
			}
			br = pipeBRec{T: "SH", Len: len(rec) - 5}
		case k < 4:
			rec = hrrRecord(true, []int{0, 0, 3000}[r.Intn(3)])
			br = pipeBRec{T: "HRR", Len: len(rec) - 5}
		case k < 7:
			l := pipeLens[r.Intn(len(pipeLens))]
			rec = rawRecord(r, 23, 0x33, l)
			br = pipeBRec{T: "APP", Len: l}
		case k < 9:
			l := max(1, pipeLens[r.Intn(len(pipeLens))])
			typ, fb := []byte{22, 20, 21}[r.Intn(3)], byte(8)
			if typ != 22 { // not a handshake record: its first byte means nothing to the Conn (a fatal alert starts with 2)
				fb = []byte{1, 2, 2, 8}[r.Intn(4)]
			}
			rec = rawRecord(r, typ, fb, l)
			br = pipeBRec{T: "HS", Len: l}
		case i == nB-1 && r.Intn(2) == 0:
			rec = []byte{22, 3, 3, 0, 5, 2, 0, 0, 1, 0}
			br = pipeBRec{T: "BAD", Len: 5}
		case i == nB-1:
			l := 16641 + r.Intn(40000)
			rec = []byte{23, 3, 3, byte(l >> 8), byte(l)}
			br = pipeBRec{T: "BIG", Len: l}
		default:
			rec = rawRecord(r, 23, 0x33, 1)
			br = pipeBRec{T: "APP", Len: 1}
		}
		bstream = append(bstream, rec...)
		sc.Brecs = append(sc.Brecs, br)
	}
	if sc.Brecs == nil {
		sc.Brecs = []pipeBRec{}
	}
	w.Write(Ev{"e": "reset", "scen": sc, "idx": idx})

	tr := &cutConn{r: rand.New(rand.NewSource(r.Int63())), data: cstream, cutAt: sc.CutAt, kind: sc.CutKind, oneAtATime: r.Intn(6) == 0, withErr: r.Intn(2) == 0, tmoAt: sc.TmoAt}
	var opts []ech.Option
	opts = append(opts, ech.WithKeys(kr.serverKeys([]string{"K1"})))
	crash := ""
	func() {
		defer func() {
			if p := recover(); p != nil {
				crash = fmt.Sprint(p)
			}
		}()
		conn, err := ech.NewConn(context.Background(), tr, opts...)
		if err != nil {
			crash = "NewConn: " + err.Error()
			return
		}
		var got []byte
		readDone, writeDone := false, false
		tmoSeen := 0
		wpos := 0
		for !readDone || !writeDone {
			doRead := !readDone && (writeDone || r.Intn(2) == 0)
			if doRead {
				capn := []int{1, 2, 5, 6, 100, 1500, 16389, 70000}[r.Intn(8)]
				buf := make([]byte, capn)
				if r.Intn(3) == 0 {
					otherConnection(kr, ch1rec) // the process serves other connections between this connection's calls
				}
				n, err := guarded(w, "Read", func() (int, error) { return conn.Read(buf) })
				got = append(got, buf[:n]...)
				cmp := bytes.Clone(got)
				if len(cmp) >= 3 { // record-layer version of the first record may be normalised
					cmp[1], cmp[2] = outRaw[1], outRaw[2]
				}
				isRaw := bytes.HasPrefix(outRawCut, cmp)
				isRepl := outReplCut != nil && bytes.HasPrefix(outReplCut, cmp)
				m := "bad"
				switch {
				case isRaw && isRepl:
					m = "both"
				case isRaw && outReplCut == nil:
					m = "both"
				case isRaw:
					m = "raw"
				case isRepl:
					m = "repl"
				}
				es := "none"
				switch {
				case err == nil:
				case errors.Is(err, io.EOF):
					es = "eof"
				case errors.Is(err, errCut):
					es = "err"
				case errors.Is(err, errTmo):
					es = "tmo"
				case errors.Is(err, ech.ErrDecodeError):
					es = "decode"
				default:
					es = "other:" + err.Error()
				}
				w.Write(Ev{"e": "read", "cap": capn, "n": n, "err": es, "m": m})
				if es == "tmo" {
					// the caller extends its deadline and reads again (three times at most if the error stays)
					if tmoSeen++; tmoSeen >= 3 {
						readDone = true
					}
				} else if err != nil {
					readDone = true
				}
			} else {
				if wpos >= len(bstream) {
					writeDone = true
					continue
				}
				rem := len(bstream) - wpos
				k := rem
				switch r.Intn(4) {
				case 0:
					k = 1 + r.Intn(rem)
				case 1:
					k = 1 + r.Intn(min(rem, 9))
				case 2:
					k = min(rem, 1+r.Intn(20000))
				}
				// like io.CopyBuffer: the chunk lives in a buffer the caller reuses as soon as Write has returned
				chunk := append([]byte{}, bstream[wpos:wpos+k]...)
				n, err := guarded(w, "Write", func() (int, error) { return conn.Write(chunk) })
				for i := range chunk {
					chunk[i] = 0xA5
				}
				fw := tr.written()
				es := "none"
				if err != nil {
					es = "other:" + err.Error()
					if errors.Is(err, ech.ErrDecodeError) {
						es = "decode"
					}
				}
				w.Write(Ev{"e": "write", "k": k, "n": n, "err": es, "fwd": len(fw), "wok": bytes.HasPrefix(bstream, fw)})
				wpos += k
				if err != nil {
					writeDone = true
				}
			}
		}
	}()
	if crash != "" {
		w.Write(Ev{"e": "crash", "msg": crash})
	}
	w.Write(Ev{"e": "end"})
}

// guarded runs one call on the Conn under a real-time watchdog: the transports of this driver never block, so a call that
// does not come back is spinning or deadlocked. It cannot be stopped from outside: the finding is recorded and the driver ends.
func guarded(w *ndWriter, what string, f func() (int, error)) (int, error) {
	type res struct {
		n   int
		err error
		p   any
	}
	ch := make(chan res, 1)
	go func() {
		var r res
		defer func() { r.p = recover(); ch <- r }()
		r.n, r.err = f()
	}()
	select {
	case r := <-ch:
		if r.p != nil {
			panic(r.p) // in the caller's goroutine, where the scenario records it
		}
		return r.n, r.err
	case <-time.After(watchdogLimit()):
		w.Write(Ev{"e": "crash", "msg": fmt.Sprintf("Conn.%s does not return (%v on a transport that never blocks: spinning or deadlocked)", what, watchdogLimit())})
		w.Write(Ev{"e": "end"})
		w.Close()
		exitNow()
	}
	return 0, nil
}

func TestPipeScenarios(t *testing.T) {
	out := os.Getenv("VH_OUT")
	if out == "" {
		t.Skip("VH_OUT not set")
	}
	n, _ := strconv.Atoi(envOr("VH_N", "200"))
	r := rand.New(rand.NewSource(seed()))
	kr := newKeyring(seed())
	w := newNDWriter(t, out)
	defer w.Close()
	for i := 0; i < n; i++ {
		runPipeScenario(r, kr, w, i)
	}
}
