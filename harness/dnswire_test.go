package verifharness

// C13 (and the framing part of C12), direction A: every message of spec/MCDnsWire.tla's domain, with the bytes the
// executable wire specification produces for it (plain and compressed), is compared with dns/message.go in both
// directions: Message.Bytes() must equal the plain bytes; DecodeMessage of the plain and of the compressed bytes must
// give the message back, field by field; ResponseCode must be the RFC 6891 extended RCODE; AddPadding must obey the
// padding rule.

import (
	"bytes"
	"fmt"
	"net"
	"os"
	"reflect"
	"strings"
	"testing"
	"time"

	"github.com/c2FmZQ/ech/dns"
)

type wQ struct {
	Name  [][]int `json:"name"`
	Type  int     `json:"type"`
	Class int     `json:"class"`
}
type wOpt struct {
	Code int   `json:"code"`
	Data []int `json:"data"`
}
type wParam struct {
	Key int   `json:"key"`
	Val []int `json:"val"`
}
type wData struct {
	Ip      []int    `json:"ip"`
	Name    [][]int  `json:"name"`
	Pref    int      `json:"pref"`
	Txt     [][]int  `json:"txt"`
	Prio    int      `json:"prio"`
	Weight  int      `json:"weight"`
	Port    int      `json:"port"`
	Target  [][]int  `json:"target"`
	Opts    []wOpt   `json:"opts"`
	Params  []wParam `json:"params"`
	Alpn    [][]int  `json:"alpn"`
	Nodef   bool     `json:"nodef"`
	V4      [][]int  `json:"v4"`
	V6      [][]int  `json:"v6"`
	Pre     []wParam `json:"pre"`
	Post    []wParam `json:"post"`
	Ech     []int    `json:"ech"`
	Raw     []int    `json:"raw"`
	Mname   [][]int  `json:"mname"`
	Rname   [][]int  `json:"rname"`
	Serial  []int    `json:"serial"`
	Refresh []int    `json:"refresh"`
	Retry   []int    `json:"retry"`
	Expire  []int    `json:"expire"`
	Minimum []int    `json:"minimum"`
}
type wRRj struct {
	Name  [][]int `json:"name"`
	Type  int     `json:"type"`
	Class int     `json:"class"`
	TTL   []int   `json:"ttl"`
	Data  wData   `json:"data"`
}
type wMsg struct {
	ID         int    `json:"id"`
	QR         int    `json:"qr"`
	OpCode     int    `json:"opcode"`
	AA         int    `json:"aa"`
	TC         int    `json:"tc"`
	RD         int    `json:"rd"`
	RA         int    `json:"ra"`
	RCode      int    `json:"rcode"`
	Question   []wQ   `json:"question"`
	Answer     []wRRj `json:"answer"`
	Authority  []wRRj `json:"authority"`
	Additional []wRRj `json:"additional"`
}
type wireCase struct {
	M      wMsg  `json:"m"`
	Bytes  []int `json:"bytes"`
	Cbytes []int `json:"cbytes"`
	Ext    int   `json:"ext"`
	Padded *wMsg `json:"padded"`
	Plen   int   `json:"plen"`

	real        []byte
	realDiffers string
}

func nameStr(n [][]int) string {
	var ls []string
	for _, l := range n {
		ls = append(ls, string(ib(l)))
	}
	return strings.Join(ls, ".")
}
func u32of(b []int) uint32 {
	return uint32(b[0])<<24 | uint32(b[1])<<16 | uint32(b[2])<<8 | uint32(b[3])
}

var encodable = map[int]bool{1: true, 28: true, 2: true, 5: true, 12: true, 41: true, 65: true}

// realData builds the Go value dns.RR.Data has for this record (what the decoder must return).
func realData(r *wRRj) any {
	d := r.Data
	switch r.Type {
	case 1, 28:
		return net.IP(ib(d.Ip))
	case 2, 5, 12:
		return nameStr(d.Name)
	case 15:
		return dns.MX{Preference: uint16(d.Pref), Exchange: nameStr(d.Name)}
	case 16:
		var t dns.TXT
		for _, s := range d.Txt {
			t = append(t, string(ib(s)))
		}
		return t
	case 33:
		return dns.SRV{Priority: uint16(d.Prio), Weight: uint16(d.Weight), Port: uint16(d.Port), Target: nameStr(d.Name)}
	case 6:
		return dns.SOA{MName: nameStr(d.Mname), RName: nameStr(d.Rname), Serial: u32of(d.Serial), Refresh: u32of(d.Refresh), Retry: u32of(d.Retry), Expire: u32of(d.Expire), Minimum: u32of(d.Minimum)}
	case 41:
		var o []dns.Option
		for _, x := range d.Opts {
			o = append(o, dns.Option{Code: uint16(x.Code), Data: ib(x.Data)})
		}
		return o
	case 64:
		s := dns.SVCB{Priority: uint16(d.Prio), Target: nameStr(d.Target)}
		for _, p := range d.Params {
			s.Params = append(s.Params, dns.SVCBParam{Key: uint16(p.Key), Value: ib(p.Val)})
		}
		return s
	case 65:
		h := dns.HTTPS{Priority: uint16(d.Prio), Target: nameStr(d.Target), NoDefaultALPN: d.Nodef, Port: uint16(d.Port), ECH: ib(d.Ech)}
		for _, a := range d.Alpn {
			h.ALPN = append(h.ALPN, string(ib(a)))
		}
		for _, ip := range d.V4 {
			h.IPv4Hint = append(h.IPv4Hint, net.IP(ib(ip)))
		}
		for _, ip := range d.V6 {
			h.IPv6Hint = append(h.IPv6Hint, net.IP(ib(ip)))
		}
		return h
	}
	return ib(d.Raw)
}

func buildMsg(m *wMsg) (*dns.Message, bool) {
	out := &dns.Message{ID: uint16(m.ID), QR: uint8(m.QR), OpCode: uint8(m.OpCode), AA: uint8(m.AA), TC: uint8(m.TC), RD: uint8(m.RD), RA: uint8(m.RA), RCode: uint8(m.RCode)}
	for _, q := range m.Question {
		out.Question = append(out.Question, dns.Question{Name: nameStr(q.Name), Type: uint16(q.Type), Class: uint16(q.Class)})
	}
	ok := true
	conv := func(rs []wRRj) []dns.RR {
		var o []dns.RR
		for i := range rs {
			r := &rs[i]
			if !encodable[r.Type] || len(r.Data.Pre) > 0 || len(r.Data.Post) > 0 { // (parameters the package has no field for: decode only)
				ok = false
			}
			o = append(o, dns.RR{Name: nameStr(r.Name), Type: uint16(r.Type), Class: uint16(r.Class), TTL: u32of(r.TTL), Data: realData(r)})
		}
		return o
	}
	out.Answer, out.Authority, out.Additional = conv(m.Answer), conv(m.Authority), conv(m.Additional)
	return out, ok
}

// normalise so that nil and empty slices compare equal
func normData(v any) string {
	switch d := v.(type) {
	case net.IP:
		return fmt.Sprintf("ip:%x", []byte(d))
	case []byte:
		return fmt.Sprintf("raw:%x", d)
	case []dns.Option:
		s := "opt:"
		for _, o := range d {
			s += fmt.Sprintf("[%d:%x]", o.Code, o.Data)
		}
		return s
	case dns.HTTPS:
		s := fmt.Sprintf("https:%d|%s|%q|%v|%d|%x|", d.Priority, d.Target, d.ALPN, d.NoDefaultALPN, d.Port, d.ECH)
		for _, ip := range d.IPv4Hint {
			s += fmt.Sprintf("%x,", []byte(ip))
		}
		s += "|"
		for _, ip := range d.IPv6Hint {
			s += fmt.Sprintf("%x,", []byte(ip))
		}
		return s
	case dns.SVCB:
		s := fmt.Sprintf("svcb:%d|%s|", d.Priority, d.Target)
		for _, p := range d.Params {
			s += fmt.Sprintf("[%d:%x]", p.Key, p.Value)
		}
		return s
	case dns.TXT:
		return fmt.Sprintf("txt:%q", []string(d))
	}
	return fmt.Sprintf("%T:%+v", v, v)
}

func sameMsg(got *dns.Message, want *dns.Message) string {
	if got.ID != want.ID || got.QR != want.QR || got.OpCode != want.OpCode || got.AA != want.AA || got.TC != want.TC || got.RD != want.RD || got.RA != want.RA || got.RCode != want.RCode {
		return fmt.Sprintf("header: got %+v", *got)
	}
	if len(got.Question) != len(want.Question) {
		return "question count"
	}
	for i := range got.Question {
		if got.Question[i] != want.Question[i] {
			return fmt.Sprintf("question %d: got %+v want %+v", i, got.Question[i], want.Question[i])
		}
	}
	secs := [][2][]dns.RR{{got.Answer, want.Answer}, {got.Authority, want.Authority}, {got.Additional, want.Additional}}
	for si, s := range secs {
		if len(s[0]) != len(s[1]) {
			return fmt.Sprintf("section %d: %d records, want %d", si, len(s[0]), len(s[1]))
		}
		for i := range s[0] {
			g, w := s[0][i], s[1][i]
			if g.Name != w.Name || g.Type != w.Type || g.Class != w.Class || g.TTL != w.TTL {
				return fmt.Sprintf("section %d record %d: got %q/%d/%d/%d want %q/%d/%d/%d", si, i, g.Name, g.Type, g.Class, g.TTL, w.Name, w.Type, w.Class, w.TTL)
			}
			if reflect.TypeOf(g.Data) != reflect.TypeOf(w.Data) {
				return fmt.Sprintf("section %d record %d (type %d): Data has Go type %T, want %T", si, i, g.Type, g.Data, w.Data)
			}
			if normData(g.Data) != normData(w.Data) {
				return fmt.Sprintf("section %d record %d (type %d): data %s, want %s", si, i, g.Type, normData(g.Data), normData(w.Data))
			}
		}
	}
	return ""
}

// fqdnMsg: the same message with its question names spelled fully qualified ("a.bc." and "." for the root), the
// spelling the resolver itself may be handed. (Owner names of records are not varied: the decoder never produces a
// trailing dot there and nothing in the property speaks about that spelling.)
func fqdnMsg(m *dns.Message) *dns.Message {
	o := *m
	o.Question = append([]dns.Question{}, m.Question...)
	for i := range o.Question {
		o.Question[i].Name += "."
	}
	return &o
}

func checkWireCase(c *wireCase) (diff string) {
	defer func() {
		if p := recover(); p != nil {
			diff = fmt.Sprint("panic: ", p)
		}
	}()
	want, canEncode := buildMsg(&c.M)
	spec := ib(c.Bytes)
	if canEncode {
		if a, b := want.Bytes(), fqdnMsg(want).Bytes(); !bytes.Equal(a, b) {
			return fmt.Sprintf("the same message with its question names spelled fully qualified (trailing dot, \".\" for the root) encodes differently: %x vs %x", b[:min(len(b), 40)], a[:min(len(a), 40)])
		}
		if got := want.Bytes(); !bytes.Equal(got, spec) {
			// not the plain encoding: it may still be a valid one (e.g. with name compression). The specification's
			// decoder decides: the bytes are handed back to TLC (DecMsg(real) = Semi(m)), see bin/props/c13.py
			k := 0
			for k < len(got) && k < len(spec) && got[k] == spec[k] {
				k++
			}
			c.realDiffers = fmt.Sprintf("Message.Bytes() differs from the plain RFC encoding at offset %d: got %x, plain %x", k, got[k:min(len(got), k+12)], spec[k:min(len(spec), k+12)])
			c.real = got
		}
	}
	for which, b := range map[string][]byte{"plain": spec, "compressed": ib(c.Cbytes)} {
		got, err, status := decodeWithWatchdog(b, 2*time.Second)
		if status != "" {
			return which + " encoding: " + status
		}
		if err != nil {
			return fmt.Sprintf("DecodeMessage of the %s RFC encoding failed: %v", which, err)
		}
		if d := sameMsg(got, want); d != "" {
			return fmt.Sprintf("DecodeMessage of the %s RFC encoding: %s", which, d)
		}
		if int(got.ResponseCode()) != c.Ext {
			return fmt.Sprintf("ResponseCode() = %d, RFC 6891 extended RCODE is %d", got.ResponseCode(), c.Ext)
		}
	}
	return ""
}

func checkPadCase(c *wireCase) (diff string) {
	defer func() {
		if p := recover(); p != nil {
			diff = fmt.Sprint("panic: ", p)
		}
	}()
	msg, ok := buildMsg(&c.M)
	if !ok {
		return "padding case with a record type the encoder does not support (harness)"
	}
	before, _ := buildMsg(&c.M)
	{
		fq := fqdnMsg(before)
		fq.AddPadding()
		fb := fq.Bytes()
		if len(fb)%128 != 0 {
			return fmt.Sprintf("padded message (names spelled fully qualified) is %d bytes, not a multiple of 128", len(fb))
		}
		if g2, err := dns.DecodeMessage(fb); err != nil || len(g2.Question) != len(before.Question) || (len(g2.Question) > 0 && (strings.TrimSuffix(g2.Question[0].Name, ".") != before.Question[0].Name || g2.Question[0].Type != before.Question[0].Type)) {
			return fmt.Sprintf("padded message (names spelled fully qualified) does not decode to the same question: %v", err)
		}
	}
	msg.AddPadding()
	b := msg.Bytes()
	if len(b)%128 != 0 {
		return fmt.Sprintf("padded message is %d bytes, not a multiple of 128", len(b))
	}
	got, err := dns.DecodeMessage(b)
	if err != nil {
		return "padded message does not decode: " + err.Error()
	}
	if !reflect.DeepEqual(got.Question, before.Question) {
		return fmt.Sprintf("question changed by padding: %+v", got.Question)
	}
	if len(got.Answer) != len(before.Answer) || len(got.Authority) != len(before.Authority) {
		return "records changed by padding"
	}
	// every non-padding option survives, in order; exactly one padding option, all zero
	var wantOpts, gotOpts []string
	for _, r := range before.Additional {
		if o, ok := r.Data.([]dns.Option); ok {
			for _, x := range o {
				if x.Code != 12 {
					wantOpts = append(wantOpts, fmt.Sprintf("%d:%x", x.Code, x.Data))
				}
			}
		}
	}
	npad := 0
	for _, r := range got.Additional {
		if o, ok := r.Data.([]dns.Option); ok {
			for _, x := range o {
				if x.Code == 12 {
					npad++
					for _, z := range x.Data {
						if z != 0 {
							return "padding bytes are not zero"
						}
					}
				} else {
					gotOpts = append(gotOpts, fmt.Sprintf("%d:%x", x.Code, x.Data))
				}
			}
		}
	}
	if npad != 1 || fmt.Sprint(gotOpts) != fmt.Sprint(wantOpts) {
		return fmt.Sprintf("options after padding: %d padding options, others %v (want %v)", npad, gotOpts, wantOpts)
	}
	if c.Plen != 0 && len(b) != c.Plen {
		return fmt.Sprintf("padded length %d, the minimal multiple of 128 is %d", len(b), c.Plen)
	}
	return ""
}

func TestDnsWireCases(t *testing.T) {
	in, out := os.Getenv("VH_IN"), os.Getenv("VH_OUT")
	if in == "" || out == "" {
		t.Skip("VH_IN/VH_OUT not set")
	}
	cases := readCases[wireCase](t, in)
	w := newNDWriter(t, out)
	defer w.Close()
	bad := 0
	for i := range cases {
		c := &cases[i]
		var d string
		if c.Padded != nil {
			d = checkPadCase(c)
		} else {
			d = checkWireCase(c)
		}
		if d != "" {
			bad++
			if bad <= 40 {
				w.Write(Ev{"idx": i, "diff": d, "m": c.M, "bytes": fmt.Sprintf("%x", ib(c.Bytes))})
			}
		} else if c.real != nil {
			ints := make([]int, len(c.real))
			for k, b := range c.real {
				ints[k] = int(b)
			}
			w.Write(Ev{"idx": i, "redecode": true, "note": c.realDiffers, "real": ints})
		}
	}
	// compression as another implementation may produce it: a pointer whose target is itself a pointer (strictly backwards)
	if len(cases) > 0 {
		m := []byte{0x12, 0x34, 0x81, 0x80, 0, 1, 0, 3, 0, 0, 0, 0}
		m = append(m, 1, 'a', 2, 'b', 'c', 0, 0, 1, 0, 1)                            // question a.bc A IN, name at offset 12
		m = append(m, 0xc0, 12, 0, 1, 0, 1, 0, 0, 0, 60, 0, 4, 192, 0, 2, 1)         // owner -> 12 (this pointer sits at offset 22)
		m = append(m, 0xc0, 22, 0, 1, 0, 1, 0, 0, 0, 60, 0, 4, 192, 0, 2, 2)         // owner -> 22 -> 12 (at offset 38)
		m = append(m, 1, 'x', 0xc0, 38, 0, 1, 0, 1, 0, 0, 0, 60, 0, 4, 192, 0, 2, 3) // x + (-> 38 -> 22 -> 12)
		got, err, status := decodeWithWatchdog(m, 2*time.Second)
		d := ""
		switch {
		case status != "":
			d = status
		case err != nil:
			d = "a chain of compression pointers, each pointing strictly backwards to another pointer, is refused: " + err.Error()
		case len(got.Answer) != 3 || got.Answer[0].Name != "a.bc" || got.Answer[1].Name != "a.bc" || got.Answer[2].Name != "x.a.bc":
			d = fmt.Sprintf("pointer-to-pointer names decoded as %+v", got.Answer)
		}
		if d != "" {
			bad++
			w.Write(Ev{"idx": -1, "diff": d, "m": Ev{"note": "pointer chain"}, "bytes": fmt.Sprintf("%x", m)})
		}
	}
	w.Write(Ev{"summary": true, "cases": len(cases), "bad": bad})
}
