package verifharness

// An independent, minimal RFC 1035 / RFC 9460 wire encoder and a local DoH server used as the *environment* of the
// resolver, dialer and transport checks. It deliberately does not use the package's own dns encoder.

import (
	"encoding/binary"
	"io"
	"net"
	"net/http"
	"net/http/httptest"
	"strconv"
	"strings"
	"sync"
	"sync/atomic"
	"time"
)

const (
	tA     = 1
	tNS    = 2
	tCNAME = 5
	tAAAA  = 28
	tOPT   = 41
	tHTTPS = 65
)

func wName(name string) []byte {
	var b []byte
	name = strings.TrimSuffix(name, ".")
	if name != "" {
		for _, l := range strings.Split(name, ".") {
			b = append(b, byte(len(l)))
			b = append(b, l...)
		}
	}
	return append(b, 0)
}

func u16(v int) []byte { return []byte{byte(v >> 8), byte(v)} }
func u32(v uint32) []byte {
	b := make([]byte, 4)
	binary.BigEndian.PutUint32(b, v)
	return b
}

// wRR is one resource record of the environment zone.
type wRR struct {
	Owner string
	Type  int
	TTL   uint32
	Data  []byte // RDATA
}

func (r wRR) bytes() []byte {
	b := wName(r.Owner)
	b = append(b, u16(r.Type)...)
	b = append(b, u16(1)...)
	b = append(b, u32(r.TTL)...)
	b = append(b, u16(len(r.Data))...)
	return append(b, r.Data...)
}

func rrA(owner string, ttl uint32, ip string) wRR {
	return wRR{owner, tA, ttl, net.ParseIP(ip).To4()}
}
func rrAAAA(owner string, ttl uint32, ip string) wRR {
	return wRR{owner, tAAAA, ttl, net.ParseIP(ip).To16()}
}
func rrCNAME(owner string, ttl uint32, target string) wRR {
	return wRR{owner, tCNAME, ttl, wName(target)}
}

type svcParams struct {
	ALPN      []string
	NoDefault bool
	Port      int
	V4Hint    []string
	ECH       []byte
	V6Hint    []string
}

func rrHTTPS(owner string, ttl uint32, prio int, target string, p svcParams) wRR {
	b := u16(prio)
	b = append(b, wName(target)...)
	add := func(key int, val []byte) {
		b = append(b, u16(key)...)
		b = append(b, u16(len(val))...)
		b = append(b, val...)
	}
	if len(p.ALPN) > 0 {
		var v []byte
		for _, a := range p.ALPN {
			v = append(v, byte(len(a)))
			v = append(v, a...)
		}
		add(1, v)
	}
	if p.NoDefault {
		add(2, nil)
	}
	if p.Port > 0 {
		add(3, u16(p.Port))
	}
	if len(p.V4Hint) > 0 {
		var v []byte
		for _, ip := range p.V4Hint {
			v = append(v, net.ParseIP(ip).To4()...)
		}
		add(4, v)
	}
	if p.ECH != nil {
		add(5, p.ECH)
	}
	if len(p.V6Hint) > 0 {
		var v []byte
		for _, ip := range p.V6Hint {
			v = append(v, net.ParseIP(ip).To16()...)
		}
		add(6, v)
	}
	return wRR{owner, tHTTPS, ttl, b}
}

// wResponse builds a response message for the query (id, qname, qtype).
// An RCODE above 15 is an RFC 6891 extended RCODE: its upper eight bits travel in the TTL field of an OPT record, which
// is the only additional record, or (every other time) the second one.
var optToggle atomic.Int64

func wResponse(id int, qname string, qtype int, rcode int, answers []wRR) []byte {
	b := u16(id)
	b = append(b, u16(0x8180|rcode&0xf)...) // QR RD RA
	b = append(b, u16(1)...)
	b = append(b, u16(len(answers))...)
	b = append(b, u16(0)...)
	var additional []wRR
	if rcode > 15 {
		if optToggle.Add(1)%2 == 0 {
			additional = append(additional, rrA("glue.example", 60, "192.0.2.200"))
		}
		additional = append(additional, wRR{Owner: "", Type: tOPT, TTL: uint32(rcode>>4) << 24, Data: nil})
	}
	b = append(b, u16(len(additional))...)
	b = append(b, wName(qname)...)
	b = append(b, u16(qtype)...)
	b = append(b, u16(1)...)
	for _, a := range append(answers, additional...) {
		b = append(b, a.bytes()...)
	}
	return b
}

// wParseQuery extracts (id, qname, qtype) from an uncompressed query.
func wParseQuery(m []byte) (id int, name string, qtype int, ok bool) {
	if len(m) < 12 {
		return
	}
	id = int(m[0])<<8 | int(m[1])
	p := 12
	var labels []string
	for {
		if p >= len(m) {
			return
		}
		l := int(m[p])
		p++
		if l == 0 {
			break
		}
		if l&0xc0 != 0 || p+l > len(m) {
			return
		}
		labels = append(labels, string(m[p:p+l]))
		p += l
	}
	if p+4 > len(m) {
		return
	}
	return id, strings.Join(labels, "."), int(m[p])<<8 | int(m[p+1]), true
}

type dohQuery struct {
	Name string `json:"name"`
	Type int    `json:"type"`
	Len  int    `json:"len"`
}

// dohServer is a local DoH endpoint whose answers come from a callback.
type dohServer struct {
	*httptest.Server
	mu      sync.Mutex
	queries []dohQuery
	// answer returns the response body, or an HTTP status != 200 to fail.
	answer func(id int, name string, qtype int) (body []byte, status int)
}

func newDoHServer(answer func(id int, name string, qtype int) ([]byte, int)) *dohServer {
	s := &dohServer{answer: answer}
	s.Server = httptest.NewUnstartedServer(http.HandlerFunc(func(w http.ResponseWriter, req *http.Request) {
		body, _ := io.ReadAll(req.Body)
		req.Body.Close()
		id, name, qtype, ok := wParseQuery(body)
		if !ok {
			http.Error(w, "bad query", 400)
			return
		}
		s.mu.Lock()
		s.queries = append(s.queries, dohQuery{name, qtype, len(body)})
		s.mu.Unlock()
		resp, status := s.answer(id, name, qtype)
		if status != 0 && status != 200 {
			http.Error(w, "scripted failure", status)
			return
		}
		w.Header().Set("content-type", "application/dns-message")
		w.Header().Set("content-length", strconv.Itoa(len(resp))) // (net/http switches to chunked encoding for larger bodies otherwise, which the library refuses)
		w.Write(resp)
	}))
	// the library makes a new HTTP client (and TCP connection) for every DNS query and leaves it idle: close idle
	// connections quickly, or long runs exhaust file descriptors / ephemeral ports (an environment problem, not a finding)
	s.Server.Config.IdleTimeout = 30 * time.Millisecond
	// ... and close them with a reset, so that no TIME_WAIT entry stays behind (10^5 lookups per run would otherwise use up
	// every local port for a minute, for this and any other process on the machine)
	s.Server.Listener = resetListener{s.Server.Listener}
	s.Server.Start()
	return s
}

// resetListener: accepted connections are closed with RST (SO_LINGER 0). The test servers only close a connection that
// has been idle (response delivered) or whose client is gone, so no data is lost by it.
type resetListener struct{ net.Listener }

func (l resetListener) Accept() (net.Conn, error) {
	c, err := l.Listener.Accept()
	if tc, ok := c.(*net.TCPConn); ok && err == nil {
		tc.SetLinger(0)
	}
	return c, err
}

func (s *dohServer) url() string { return s.URL + "/dns-query" }

func (s *dohServer) takeQueries() []dohQuery {
	s.mu.Lock()
	defer s.mu.Unlock()
	q := s.queries
	s.queries = nil
	return q
}

// zoneAnswer serves a static zone: all records whose owner is the query name or is reached from it through CNAMEs
// and whose type matches (plus the CNAMEs themselves). Unknown names give an empty NOERROR answer.
func zoneAnswer(zone []wRR) func(id int, name string, qtype int) ([]byte, int) {
	return func(id int, name string, qtype int) ([]byte, int) {
		var ans []wRR
		want := name
		for hop := 0; hop < 8; hop++ {
			next := ""
			for _, r := range zone {
				if r.Owner != want {
					continue
				}
				if r.Type == tCNAME && qtype != tCNAME {
					ans = append(ans, r)
					next = decodeWName(r.Data)
				} else if r.Type == qtype {
					ans = append(ans, r)
				}
			}
			if next == "" {
				break
			}
			want = next
		}
		return wResponse(id, name, qtype, 0, ans), 200
	}
}

func decodeWName(b []byte) string {
	var labels []string
	p := 0
	for p < len(b) && b[p] != 0 {
		l := int(b[p])
		labels = append(labels, string(b[p+1:p+1+l]))
		p += 1 + l
	}
	return strings.Join(labels, ".")
}

// envText: the same for a message (panics of the test servers: no local port to listen on)
func envText(m string) bool {
	for _, k := range []string{"failed to listen on a port", "address already in use", "too many open files", "cannot assign requested address", "service url must use https"} {
		if strings.Contains(m, k) {
			return true
		}
	}
	return false
}

// envError: failures of the test environment itself (descriptor / port exhaustion, overload), never findings.
func envError(err error) bool {
	if err == nil {
		return false
	}
	m := err.Error()
	for _, k := range []string{"too many open files", "cannot assign requested address", "connection refused", "connection reset", "giving up after", "i/o timeout", "context deadline exceeded", "no such host", "EOF"} {
		if strings.Contains(m, k) {
			return true
		}
	}
	return false
}
