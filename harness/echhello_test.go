package verifharness

// C02 C03 C04 C05 C09 (direction A): every terminal state of spec/EchHello.tla is one case; the abstract hello is
// concretised (independent encoder + crypto/hpke), fed to the real NewConn with real keys, and what the code did is
// projected back and compared with what the specification says.

import (
	"bytes"
	"context"
	"errors"
	"fmt"
	"io"
	"net"
	"os"
	"reflect"
	"sync"
	"sync/atomic"
	"testing"
	"time"

	"github.com/c2FmZQ/ech"
)

type echCase struct {
	Onm     string   `json:"onm"`
	Inm     string   `json:"inm"`
	Run     []int    `json:"run"`
	Pad     string   `json:"pad"`
	Sid     string   `json:"sid"`
	Ck      string   `json:"ck"`
	Suite   string   `json:"suite"`
	Op      string   `json:"op"`
	Keys    []string `json:"keys"`
	Hello   aHello   `json:"hello"`
	Res     aRes     `json:"res"`
	Holds   bool     `json:"holds"`
	Classes []string `json:"classes"` // admissible alert classes when the specification admits more than one
}

func (c *echCase) key() string {
	return fmt.Sprintf("%s/%s/%v/%s/%s/%s/%s/%s/%v", c.Op, c.Onm+c.Inm, c.Run, c.Pad, c.Sid, c.Ck, c.Suite, "k", c.Keys)
}

// scriptConn is the client-side transport: it serves a fixed byte string and records what the Conn does to it.
type scriptConn struct {
	mu        sync.Mutex
	r         *bytes.Reader
	w         bytes.Buffer
	closed    bool
	deadlines []time.Time
	// failWrites: the peer is gone for writing (the alert cannot be delivered); the connection must be closed all the same
	failWrites bool
	// onDrain runs once, inside the Read call that hands out the last scripted byte
	onDrain func()
}

func newScriptConn(in []byte) *scriptConn { return &scriptConn{r: bytes.NewReader(in)} }

func (b *scriptConn) Read(p []byte) (int, error) {
	b.mu.Lock()
	closed := b.closed
	b.mu.Unlock()
	if closed {
		return 0, net.ErrClosed
	}
	n, err := b.r.Read(p)
	if b.r.Len() == 0 && b.onDrain != nil {
		f := b.onDrain
		b.onDrain = nil
		f()
	}
	return n, err
}
func (b *scriptConn) Write(p []byte) (int, error) {
	b.mu.Lock()
	defer b.mu.Unlock()
	if b.closed {
		return 0, net.ErrClosed
	}
	if b.failWrites {
		return 0, errors.New("scripted write failure")
	}
	return b.w.Write(p)
}
func (b *scriptConn) Close() error         { b.mu.Lock(); b.closed = true; b.mu.Unlock(); return nil }
func (b *scriptConn) LocalAddr() net.Addr  { return &net.TCPAddr{} }
func (b *scriptConn) RemoteAddr() net.Addr { return &net.TCPAddr{} }
func (b *scriptConn) SetDeadline(t time.Time) error {
	b.mu.Lock()
	b.deadlines = append(b.deadlines, t)
	b.mu.Unlock()
	return nil
}
func (b *scriptConn) SetReadDeadline(t time.Time) error  { return nil }
func (b *scriptConn) SetWriteDeadline(t time.Time) error { return nil }

var alertCode = map[string]byte{"unexpected_message": 10, "illegal_parameter": 47, "decode_error": 50, "decrypt_error": 51, "missing_extension": 109, "handshake_failure": 40}

func errClass(err error) string {
	switch {
	case err == nil:
		return "none"
	case errors.Is(err, ech.ErrUnexpectedMessage):
		return "unexpected_message"
	case errors.Is(err, ech.ErrIllegalParameter):
		return "illegal_parameter"
	case errors.Is(err, ech.ErrDecodeError):
		return "decode_error"
	case errors.Is(err, ech.ErrDecryptError):
		return "decrypt_error"
	case errors.Is(err, ech.ErrMissingExtension):
		return "missing_extension"
	}
	return "other"
}

// obsNewConn is the projection of one NewConn run.
type obsNewConn struct {
	Kind     string   `json:"kind"` // accept / pass / abort / panic
	Class    string   `json:"class,omitempty"`
	Err      string   `json:"err,omitempty"`
	Sni      string   `json:"sni"`
	Alpn     []string `json:"alpn"`
	First    []byte   `json:"-"`
	Alert    []byte   `json:"-"`
	AlertHex string   `json:"alert,omitempty"`
	Closed   bool     `json:"closed"`
	Leaked   int      `json:"leaked,omitempty"` // bytes readable from the Conn after an abort
	Panic    string   `json:"panic,omitempty"`
}

// runNewConn runs NewConn (+ the first Read) under a watchdog: a call that does not return is reported as "hang".
func runNewConn(record []byte, keys []ech.Key) obsNewConn {
	ch := make(chan obsNewConn, 1)
	go func() { ch <- runNewConnInner(record, keys) }()
	select {
	case o := <-ch:
		return o
	case <-time.After(watchdogLimit()):
		noteHang()
		return obsNewConn{Kind: "panic", Panic: "hang: NewConn/Read did not return within the watchdog limit (20 s)"}
	}
}

// scribbledALPN returns what the Conn reports after a caller has overwritten a previously returned list: the report is
// the Conn's own state, not the caller's.
func scribbledALPN(c *ech.Conn) []string {
	first := append([]string{}, c.ALPNProtos()...)
	if a := c.ALPNProtos(); len(a) > 0 {
		for i := range a {
			a[i] = "overwritten-by-caller"
		}
	}
	again := c.ALPNProtos()
	if len(first) == 0 && len(again) == 0 {
		return again
	}
	return append([]string{}, again...)
}

func cloneKeys(keys []ech.Key) []ech.Key {
	if keys == nil {
		return nil
	}
	out := make([]ech.Key, len(keys))
	for i, k := range keys {
		out[i] = ech.Key{Config: bytes.Clone(k.Config), PrivateKey: bytes.Clone(k.PrivateKey), SendAsRetry: k.SendAsRetry}
	}
	return out
}

// interleavedFirst: connection A's first record read as header + rest, connection B opened and read in between; the
// bytes A delivers must be what it delivers on its own.
func interleavedFirst(recA []byte, keysA []ech.Key, recB []byte, keysB []ech.Key, alone []byte) (diff string) {
	defer func() {
		if p := recover(); p != nil {
			diff = fmt.Sprint("panic (interleaved connections): ", p)
		}
	}()
	a, err := ech.NewConn(context.Background(), newScriptConn(recA), keyOptions(keysA)...)
	if err != nil {
		return ""
	}
	hdr := make([]byte, 5)
	if _, err := io.ReadFull(a, hdr); err != nil {
		return ""
	}
	if b, err := ech.NewConn(context.Background(), newScriptConn(recB), keyOptions(keysB)...); err == nil {
		buf := make([]byte, 70000)
		io.ReadAtLeast(b, buf, 5)
	}
	rest := make([]byte, 70000)
	n, _ := io.ReadAtLeast(a, rest, 1)
	got := append(hdr, rest[:n]...)
	if len(alone) >= 5 && !bytes.Equal(got[3:], alone[3:]) {
		k := 0
		for k < len(got) && k < len(alone) && got[k] == alone[k] {
			k++
		}
		return fmt.Sprintf("first record read as header + rest with another connection opened in between differs at offset %d from what the connection delivers on its own", k)
	}
	return ""
}

var ctxCycle atomic.Int64

func runNewConnInner(record []byte, keys []ech.Key) (o obsNewConn) {
	sc := newScriptConn(record)
	keysBefore := cloneKeys(keys)
	defer func() {
		if r := recover(); r != nil {
			o.Kind, o.Panic = "panic", fmt.Sprint(r)
		}
		if o.Kind != "panic" && !reflect.DeepEqual(keysBefore, cloneKeys(keys)) {
			o.Kind, o.Panic = "panic", "NewConn / Read modified the key list the caller passed to WithKeys"
		}
		if d := checkKeyArrays(); o.Kind != "panic" && d != "" {
			o.Kind, o.Panic = "panic", d
		}
	}()
	var opts []ech.Option
	opts = append(opts, keyOptions(keys)...)
	// NewConn's context governs the wait for the first record only. Every third connection's context ends inside the transport
	// call that delivers the record's last byte: what NewConn does with the record must not depend on it.
	ctx := context.Background()
	if ctxCycle.Add(1)%3 == 0 {
		var cancel context.CancelFunc
		ctx, cancel = context.WithCancel(ctx)
		defer cancel()
		sc.onDrain = cancel
	}
	c, err := ech.NewConn(ctx, sc, opts...)
	sc.mu.Lock()
	o.Alert = bytes.Clone(sc.w.Bytes())
	o.Closed = sc.closed
	sc.mu.Unlock()
	o.AlertHex = fmt.Sprintf("%x", o.Alert)
	if err != nil {
		o.Kind, o.Class, o.Err = "abort", errClass(err), err.Error()
		if c != nil {
			buf := make([]byte, 70000)
			n, _ := c.Read(buf)
			o.Leaked = n
		}
		return o
	}
	o.Sni, o.Alpn = c.ServerName(), scribbledALPN(c)
	if c.ECHAccepted() {
		o.Kind = "accept"
	} else {
		o.Kind = "pass"
	}
	buf := make([]byte, 70000)
	n, _ := io.ReadAtLeast(c, buf, 5)
	o.First = buf[:n]
	return o
}

// sameRecord compares two records ignoring the record-layer legacy version (bytes 1..2).
func sameRecord(a, b []byte) bool {
	if len(a) != len(b) || len(a) < 5 {
		return false
	}
	return a[0] == b[0] && bytes.Equal(a[3:], b[3:])
}

// compareWithSpec returns "" when the observation is what the specification prescribes.
func compareWithSpec(kr *keyring, c *echCase, sent []byte, o obsNewConn, eo encOpts) string {
	if o.Kind == "panic" {
		return "panic: " + o.Panic
	}
	want := c.Res
	if o.Kind != want.Kind {
		return fmt.Sprintf("spec says %s, code did %s (%s %s)", want.Kind, o.Kind, o.Class, o.Err)
	}
	switch want.Kind {
	case "accept":
		exp := expectedInnerRecord(kr, want.Inner, eo)
		if !sameRecord(exp, o.First) {
			return fmt.Sprintf("reconstructed inner hello differs from the committed one: want %x got %x", exp, o.First)
		}
		if o.Sni != sniName[want.Sni] || !reflect.DeepEqual(append([]string{}, o.Alpn...), append([]string{}, alpnList[want.Alpn]...)) {
			return fmt.Sprintf("ServerName/ALPN: want %q %v got %q %v", sniName[want.Sni], alpnList[want.Alpn], o.Sni, o.Alpn)
		}
		if len(o.Alert) != 0 || o.Closed {
			return "accepted but alert/close on the client side"
		}
	case "pass":
		if !sameRecord(sent, o.First) {
			return fmt.Sprintf("passed-through hello differs from the client's: sent %x got %x", sent, o.First)
		}
		if o.Sni != sniName[want.Sni] || !reflect.DeepEqual(append([]string{}, o.Alpn...), append([]string{}, alpnList[want.Alpn]...)) {
			return fmt.Sprintf("ServerName/ALPN: want %q %v got %q %v", sniName[want.Sni], alpnList[want.Alpn], o.Sni, o.Alpn)
		}
		if len(o.Alert) != 0 || o.Closed {
			return "passed through but alert/close on the client side"
		}
	case "abort":
		okClass := o.Class == want.Class
		for _, cl := range c.Classes {
			okClass = okClass || o.Class == cl
		}
		if !okClass {
			return fmt.Sprintf("alert class: spec says %s %v, code returned %s (%s)", want.Class, c.Classes, o.Class, o.Err)
		}
		wantAlert := []byte{0x15, 3, 3, 0, 2, 2, alertCode[o.Class]}
		if !bytes.Equal(o.Alert, wantAlert) {
			return fmt.Sprintf("alert bytes: want %x got %x", wantAlert, o.Alert)
		}
		if !o.Closed {
			return "aborted but the client connection was not closed"
		}
		if o.Leaked != 0 {
			return fmt.Sprintf("aborted but %d bytes are readable from the Conn", o.Leaked)
		}
	}
	return ""
}

type echResult struct {
	Key   string     `json:"key"`
	Case  *echCase   `json:"case,omitempty"`
	Opts  string     `json:"opts"`
	Obs   obsNewConn `json:"obs"`
	Sent  string     `json:"sent,omitempty"`
	Diff  string     `json:"diff"`
	Extra string     `json:"extra,omitempty"`
}

func TestEchHelloCases(t *testing.T) {
	in, out := os.Getenv("VH_IN"), os.Getenv("VH_OUT")
	if in == "" || out == "" {
		t.Skip("VH_IN/VH_OUT not set")
	}
	mode := envOr("VH_MODE", "plain") // plain | bits | stretch
	kr := newKeyring(seed())
	cases := readCases[echCase](t, in)
	w := newNDWriter(t, out)
	defer w.Close()
	nEval := 0
	type concItem struct {
		key   string
		rec   []byte
		keys  []ech.Key
		kind  string
		first []byte
	}
	var conc []concItem
	var prevRec []byte
	var prevKeys []ech.Key
	for ci := range cases {
		c := &cases[ci]
		keys := kr.serverKeys(c.Keys)
		var variants []encOpts
		switch {
		case c.Op == "nonZeroPad":
			for pos := 0; pos < 13; pos++ { // the rule violation at every position of the padding
				variants = append(variants, encOpts{padLen: 13, padPos: pos})
			}
		case mode == "stretch":
			// ... and outer hellos of exactly 2^14 bytes and just below ("sizes up to the record limit")
			variants = []encOpts{{padLen: 13}, {padLen: 1, stretch: 300}, {padLen: 31, stretch: 900}, {padLen: 13, fillTo: 16384}, {padLen: 5, stretch: 300, fillTo: 16381}, {padLen: 13, innerVer: 0x0301}}
		default:
			variants = []encOpts{{padLen: 13}}
		}
		for _, eo := range variants {
			rec := concretise(kr, &c.Hello, eo, c.Op)
			o := runNewConn(rec, keys)
			nEval++
			diff := compareWithSpec(kr, c, rec, o, eo)
			r := echResult{Key: c.key(), Opts: fmt.Sprintf("%+v", eo), Obs: o, Diff: diff}
			if diff != "" {
				r.Case, r.Sent = c, fmt.Sprintf("%x", rec)
			}
			// an abort whose alert cannot be written still closes the transport
			if diff == "" && o.Kind == "abort" {
				sc2 := newScriptConn(rec)
				sc2.failWrites = true
				func() {
					defer func() { recover() }()
					_, err2 := ech.NewConn(context.Background(), sc2, keyOptions(keys)...)
					sc2.mu.Lock()
					closed := sc2.closed
					sc2.mu.Unlock()
					if err2 != nil && !closed {
						r.Diff, r.Case, r.Sent = "the alert could not be written (peer gone) and the transport was left open", c, fmt.Sprintf("%x", rec)
					}
				}()
			}
			// connections do not share state: the first record of this connection read in two steps (header, then the
			// rest - what every TLS stack does), with another connection's NewConn and Read in between
			if diff == "" && o.Kind == "accept" && mode != "bits" {
				if prevRec != nil {
					if d := interleavedFirst(rec, keys, prevRec, prevKeys, o.First); d != "" {
						r.Diff, r.Case, r.Sent = d, c, fmt.Sprintf("%x", rec)
					}
				}
				prevRec, prevKeys = rec, keys
			}
			// every single-bit flip of the outer ClientHello body must prevent acceptance (C02)
			if mode == "bits" && diff == "" && c.Res.Kind == "accept" {
				bad := 0
				for bit := 9 * 8; bit < len(rec)*8 && bad < 3; bit++ {
					m := bytes.Clone(rec)
					m[bit/8] ^= 1 << (bit % 8)
					ob := runNewConn(m, keys)
					nEval++
					if ob.Kind == "accept" || ob.Kind == "panic" {
						bad++
						r.Diff = fmt.Sprintf("flipping bit %d of the outer hello: %s %s", bit, ob.Kind, ob.Panic)
						r.Case, r.Sent = c, fmt.Sprintf("%x", m)
					}
				}
			}
			w.Write(r)
			if r.Diff == "" && mode == "plain" && len(conc) < 600 {
				conc = append(conc, concItem{key: c.key(), rec: rec, keys: keys, kind: o.Kind, first: o.First})
			}
		}
	}
	// connections are independent also when they are handled at the same time: the cases above once more, from eight
	// goroutines at once, must end exactly as they did one after the other
	if len(conc) > 0 {
		var wg sync.WaitGroup
		var cmu sync.Mutex
		reported := 0
		for g := 0; g < 8; g++ {
			wg.Add(1)
			go func(g int) {
				defer wg.Done()
				for round := 0; round < 2; round++ {
					for i := g; i < len(conc); i += 8 {
						it := conc[(i*7+round*3)%len(conc)]
						o := runNewConn(it.rec, it.keys)
						bad := ""
						if o.Kind != it.kind {
							bad = fmt.Sprintf("handled concurrently with other connections the hello ends as %q (%s %s), alone as %q", o.Kind, o.Err, o.Panic, it.kind)
						} else if len(o.First) >= 5 && len(it.first) >= 5 && !bytes.Equal(o.First[3:], it.first[3:]) {
							bad = "handled concurrently with other connections the first record delivered differs from the one delivered alone"
						}
						if bad != "" {
							cmu.Lock()
							if reported < 5 {
								reported++
								w.Write(echResult{Key: it.key + " (concurrent)", Opts: "concurrent", Obs: o, Diff: bad, Sent: fmt.Sprintf("%x", it.rec)})
							}
							cmu.Unlock()
						}
					}
				}
			}(g)
		}
		wg.Wait()
		nEval += 2 * len(conc)
	}
	w.Write(Ev{"summary": true, "evaluations": nEval, "cases": len(cases)})
}
