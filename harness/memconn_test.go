package verifharness

// A buffered in-memory duplex connection (net.Pipe is synchronous, which deadlocks real TLS flights that cross).

import (
	"io"
	"net"
	"os"
	"sync"
	"time"
)

type memHalf struct {
	mu       sync.Mutex
	cond     *sync.Cond
	buf      []byte
	closed   bool
	deadline time.Time
	timer    *time.Timer
}

func newMemHalf() *memHalf {
	h := &memHalf{}
	h.cond = sync.NewCond(&h.mu)
	return h
}

type memConn struct {
	rd, wr *memHalf
}

func memPipe() (*memConn, *memConn) {
	a, b := newMemHalf(), newMemHalf()
	return &memConn{rd: a, wr: b}, &memConn{rd: b, wr: a}
}

func (c *memConn) Read(p []byte) (int, error) {
	h := c.rd
	h.mu.Lock()
	defer h.mu.Unlock()
	for len(h.buf) == 0 {
		if h.closed {
			return 0, io.EOF
		}
		if !h.deadline.IsZero() && !time.Now().Before(h.deadline) {
			return 0, os.ErrDeadlineExceeded
		}
		h.cond.Wait()
	}
	n := copy(p, h.buf)
	h.buf = h.buf[n:]
	return n, nil
}

func (c *memConn) Write(p []byte) (int, error) {
	h := c.wr
	h.mu.Lock()
	defer h.mu.Unlock()
	if h.closed {
		return 0, io.ErrClosedPipe
	}
	h.buf = append(h.buf, p...)
	h.cond.Broadcast()
	return len(p), nil
}

func (c *memConn) Close() error {
	for _, h := range []*memHalf{c.rd, c.wr} {
		h.mu.Lock()
		h.closed = true
		h.cond.Broadcast()
		h.mu.Unlock()
	}
	return nil
}

func (c *memConn) SetReadDeadline(t time.Time) error {
	h := c.rd
	h.mu.Lock()
	h.deadline = t
	if h.timer != nil {
		h.timer.Stop()
		h.timer = nil
	}
	if !t.IsZero() {
		d := time.Until(t)
		if d < 0 {
			d = 0
		}
		h.timer = time.AfterFunc(d, func() { h.mu.Lock(); h.cond.Broadcast(); h.mu.Unlock() })
	}
	h.cond.Broadcast()
	h.mu.Unlock()
	return nil
}
func (c *memConn) SetDeadline(t time.Time) error      { return c.SetReadDeadline(t) }
func (c *memConn) SetWriteDeadline(t time.Time) error { return nil }
func (c *memConn) LocalAddr() net.Addr                { return &net.TCPAddr{} }
func (c *memConn) RemoteAddr() net.Addr               { return &net.TCPAddr{} }
