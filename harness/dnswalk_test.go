package verifharness

// C12 (pointer clause, direction A): every layout of labels / ends / pointers / junk that TLC explored in
// spec/DnsWalk.tla becomes a real DNS message; dns.DecodeMessage must terminate and agree with the walk's outcome.

import (
	"fmt"
	"os"
	"strings"
	"testing"
	"time"

	"github.com/c2FmZQ/ech/dns"
)

type walkCell struct {
	K  string `json:"k"`
	To int    `json:"to"`
}
type walkCase struct {
	Cells  []walkCell `json:"cells"`
	Start  int        `json:"start"`
	St     string     `json:"st"`
	Labels int        `json:"labels"`
}

func walkMessage(c *walkCase) []byte {
	const base = 12 + 1 + 10
	offs := make([]int, len(c.Cells))
	o := base
	for i, cell := range c.Cells {
		offs[i] = o
		switch cell.K {
		case "L", "P":
			o += 2
		default:
			o++
		}
	}
	var cells []byte
	for _, cell := range c.Cells {
		switch cell.K {
		case "L":
			cells = append(cells, 1, 'a')
		case "E":
			cells = append(cells, 0)
		case "J":
			cells = append(cells, 0x7f)
		case "P":
			t := offs[cell.To]
			cells = append(cells, 0xc0|byte(t>>8), byte(t))
		}
	}
	cells = append(cells, 0x7f) // running off the layout is not a name
	m := []byte{0, 0, 0x81, 0x80, 0, 0, 0, 2, 0, 0, 0, 0}
	m = append(m, 0)            // owner: root
	m = append(m, u16(9999)...) // unknown type: opaque RDATA
	m = append(m, u16(1)...)
	m = append(m, u32(0)...)
	m = append(m, u16(len(cells))...)
	m = append(m, cells...)
	t := offs[c.Start]
	m = append(m, 0xc0|byte(t>>8), byte(t)) // owner of the second record: enters the layout at the start cell
	m = append(m, u16(1)...)
	m = append(m, u16(1)...)
	m = append(m, u32(0)...)
	m = append(m, u16(4)...)
	return append(m, 1, 2, 3, 4)
}

func decodeWithWatchdog(b []byte, limit time.Duration) (msg *dns.Message, err error, status string) {
	type res struct {
		m   *dns.Message
		err error
		p   any
	}
	ch := make(chan res, 1)
	go func() {
		defer func() {
			if p := recover(); p != nil {
				ch <- res{p: p}
			}
		}()
		in := b
		if len(b)%2 == 1 { // a buffer with spare capacity, as io.ReadAll or buf[:n] hand it over
			in = append(make([]byte, 0, len(b)+257), b...)
		}
		m, err := dns.DecodeMessage(in)
		ch <- res{m: m, err: err}
	}()
	select {
	case r := <-ch:
		if r.p != nil {
			return nil, nil, fmt.Sprint("panic: ", r.p)
		}
		return r.m, r.err, ""
	case <-time.After(max(limit, watchdogLimit())):
		noteHang()
		return nil, nil, "hang"
	}
}

func TestDnsWalkCases(t *testing.T) {
	in, out := os.Getenv("VH_IN"), os.Getenv("VH_OUT")
	if in == "" || out == "" {
		t.Skip("VH_IN/VH_OUT not set")
	}
	cases := readCases[walkCase](t, in)
	w := newNDWriter(t, out)
	defer w.Close()
	bad := 0
	for i := range cases {
		c := &cases[i]
		b := walkMessage(c)
		m, err, status := decodeWithWatchdog(b, 2*time.Second)
		diff := ""
		switch {
		case status == "hang":
			diff = "DecodeMessage does not return (the specification's walk terminates)"
		case status != "":
			diff = status
		case c.St == "done":
			want := strings.TrimSuffix(strings.Repeat("a.", c.Labels), ".")
			if err != nil {
				diff = fmt.Sprintf("spec: name of %d labels; code: %v", c.Labels, err)
			} else if len(m.Answer) != 2 || m.Answer[1].Name != want {
				diff = fmt.Sprintf("spec: name %q; code: %+v", want, m.Answer)
			}
		case c.St == "err":
			if err == nil {
				diff = fmt.Sprintf("spec: the walk is illegal; code decoded %+v", m.Answer)
			}
		}
		if diff != "" {
			bad++
			if bad <= 20 {
				w.Write(Ev{"case": c, "diff": diff, "msg": fmt.Sprintf("%x", b)})
			}
			if status == "hang" {
				// the hung decoder keeps spinning and allocating in its goroutine: stop here
				w.Write(Ev{"summary": true, "cases": len(cases), "bad": bad, "stopped_on_hang": true})
				w.Close()
				exitNow()
			}
		}
	}
	w.Write(Ev{"summary": true, "cases": len(cases), "bad": bad})
}
