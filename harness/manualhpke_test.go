package verifharness

// RFC 9180 base-mode key schedule written out by hand (DHKEM(X25519, HKDF-SHA256), HKDF-SHA256, the three AEADs), so that a
// payload can be sealed under a context that no honest sender could have: the one derived from a DH output chosen freely.
// crypto/hpke (the independent implementation used everywhere else) offers no such entry point. TestManualHPKE checks this
// code against crypto/hpke with an honest DH output.

import (
	"crypto/aes"
	"crypto/cipher"
	"crypto/ecdh"
	"crypto/hkdf"
	"crypto/hpke"
	"crypto/rand"
	"crypto/sha256"
	"encoding/binary"
	"testing"

	"golang.org/x/crypto/chacha20poly1305"
)

// lowOrderEnc: X25519 points of small order (the DH output is all zero for every private key)
func lowOrderEnc(id string) []byte {
	p := make([]byte, 32)
	if id == "e6" {
		p[0] = 1
	}
	return p
}

type manualSender struct {
	aead  cipher.AEAD
	nonce []byte
	seq   uint64
}

func labeledExtract(suiteID, salt []byte, label string, ikm []byte) []byte {
	in := append([]byte("HPKE-v1"), suiteID...)
	in = append(in, label...)
	in = append(in, ikm...)
	prk, err := hkdf.Extract(sha256.New, in, salt)
	if err != nil {
		panic(err)
	}
	return prk
}

func labeledExpand(suiteID, prk []byte, label string, info []byte, n int) []byte {
	in := binary.BigEndian.AppendUint16(nil, uint16(n))
	in = append(in, "HPKE-v1"...)
	in = append(in, suiteID...)
	in = append(in, label...)
	in = append(in, info...)
	out, err := hkdf.Expand(sha256.New, prk, string(in), n)
	if err != nil {
		panic(err)
	}
	return out
}

func newManualSender(enc, pkR, dh []byte, suite string, info []byte) *manualSender {
	kemID := []byte{'K', 'E', 'M', 0, 0x20}
	eae := labeledExtract(kemID, nil, "eae_prk", dh)
	shared := labeledExpand(kemID, eae, "shared_secret", append(append([]byte{}, enc...), pkR...), 32)
	aeadID := suiteAEAD[suite]
	sid := []byte{'H', 'P', 'K', 'E', 0, 0x20, 0, 1, 0, byte(aeadID)}
	pskHash := labeledExtract(sid, nil, "psk_id_hash", nil)
	infoHash := labeledExtract(sid, nil, "info_hash", info)
	ksc := append([]byte{0}, pskHash...)
	ksc = append(ksc, infoHash...)
	secret := labeledExtract(sid, shared, "secret", nil)
	nk := map[uint16]int{1: 16, 2: 32, 3: 32}[aeadID]
	key := labeledExpand(sid, secret, "key", ksc, nk)
	nonce := labeledExpand(sid, secret, "base_nonce", ksc, 12)
	var a cipher.AEAD
	var err error
	if aeadID == 3 {
		a, err = chacha20poly1305.New(key)
	} else {
		var b cipher.Block
		if b, err = aes.NewCipher(key); err == nil {
			a, err = cipher.NewGCM(b)
		}
	}
	if err != nil {
		panic(err)
	}
	return &manualSender{aead: a, nonce: nonce}
}

func (m *manualSender) Seal(aad, pt []byte) ([]byte, error) {
	n := append([]byte{}, m.nonce...)
	var s [8]byte
	binary.BigEndian.PutUint64(s[:], m.seq)
	for i := range s {
		n[4+i] ^= s[i]
	}
	m.seq++
	return m.aead.Seal(nil, n, pt, aad), nil
}

// The hand-written schedule, fed an honest DH output, produces what crypto/hpke's recipient opens - for every AEAD.
func TestManualHPKE(t *testing.T) {
	for _, suite := range []string{"s1", "s2", "s3"} {
		skR, _ := ecdh.X25519().GenerateKey(rand.Reader)
		skE, _ := ecdh.X25519().GenerateKey(rand.Reader)
		dh, err := skE.ECDH(skR.PublicKey())
		if err != nil {
			t.Fatal(err)
		}
		info := []byte("tls ech\x00config")
		m := newManualSender(skE.PublicKey().Bytes(), skR.PublicKey().Bytes(), dh, suite, info)
		priv, err := hpke.NewDHKEMPrivateKey(skR)
		if err != nil {
			t.Fatal(err)
		}
		rcp, err := hpke.NewRecipient(skE.PublicKey().Bytes(), priv, hpke.HKDFSHA256(), hpkeAEAD(suite), info)
		if err != nil {
			t.Fatal(err)
		}
		for i := 0; i < 2; i++ {
			ct, _ := m.Seal([]byte("aad"), []byte("plaintext"))
			pt, err := rcp.Open([]byte("aad"), ct)
			if err != nil || string(pt) != "plaintext" {
				t.Fatalf("suite %s message %d: %q %v", suite, i, pt, err)
			}
		}
	}
}
