package verifharness

// C16. (A) every sequential history TLC enumerates from spec/MCResolverCache.tla is replayed on a real Resolver with the
// verif clock hook and a local DoH server whose answers encode the zone generation; after every lookup the returned
// generation, the error and whether an upstream query happened are compared with the specification.
// (B) goroutines call Resolve / iterate Targets concurrently (race detector on); call start/end and upstream queries
// are logged under one mutex and validated by TLC against spec/TraceResolverCache.tla.

import (
	"context"
	"errors"
	"fmt"
	"github.com/c2FmZQ/ech/dns"
	"math/rand"
	"net"
	"os"
	"strconv"
	"strings"
	"sync"
	"sync/atomic"
	"testing"
	"time"

	"github.com/c2FmZQ/ech"
)

type cacheOp struct {
	Op   string `json:"op"`
	K    string `json:"k"`
	Kind string `json:"kind"`
	Gen  int    `json:"gen"`
	Upq  bool   `json:"upq"`
}
type cacheCase struct {
	Ttls [][]int   `json:"ttls"` // n1: TTL list per generation
	Hist []cacheOp `json:"hist"`
}

// cacheZone is the upstream: per key a generation and a TTL list per generation.
type cacheZone struct {
	mu        sync.Mutex
	typ       int // the record type under test
	gen       map[string]int
	ttls      map[string][][]int
	up        bool
	failSrv   bool // failure as a DNS rcode instead of HTTP 400
	failRc    int  // the rcode (2 SERVFAIL, 9 NOTAUTH ...)
	cnameOnly bool
	queries   []Ev
	log       func(Ev)
	clock     func() int
}

// The second name is chosen so that the questions (n1.example, AAAA) and (n1.exampleAAA, A) - and their HTTPS / A
// counterparts - only differ in where the name ends and the type begins: two questions, two cache entries.
func cacheName(k string) string {
	if k == "n2" {
		return "n1.exampleAAA"
	}
	return k + ".example"
}

func (z *cacheZone) answer(id int, name string, qtype int) ([]byte, int) {
	z.mu.Lock()
	defer z.mu.Unlock()
	key := ""
	switch name {
	case "n1.example":
		key = "n1"
	case cacheName("n2"):
		key = "n2"
	}
	if key == "" || qtype != z.typ {
		return wResponse(id, name, qtype, 0, nil), 200
	}
	g := z.gen[key]
	if z.log != nil {
		z.log(Ev{"e": "upq", "k": key, "gen": g, "up": z.up})
	}
	z.queries = append(z.queries, Ev{"k": key, "gen": g})
	if !z.up {
		if z.failSrv {
			rc := z.failRc
			if rc == 0 {
				rc = 2
			}
			return wResponse(id, name, qtype, rc, nil), 200
		}
		return nil, 400
	}
	tt := z.ttls[key][g]
	var ans []wRR
	owner := name
	mk := func(owner string, ttl uint32, i int) wRR {
		switch z.typ {
		case tA:
			return rrA(owner, ttl, fmt.Sprintf("10.%d.0.%d", g, i+1))
		case tAAAA:
			return rrAAAA(owner, ttl, fmt.Sprintf("2001:db8:%d::%d", g, i+1))
		}
		return rrHTTPS(owner, ttl, 9-i, "", svcParams{Port: 1000 + g, ALPN: []string{"h2", "h3", "x"}}) // out of priority order
	}
	switch {
	case len(tt) == 1 && z.cnameOnly && key == "n1":
		ans = append(ans, rrCNAME(name, uint32(tt[0]), "elsewhere.example"))
	case len(tt) >= 2:
		// a CNAME carries the first TTL, the records at the canonical name the others
		ans = append(ans, rrCNAME(name, uint32(tt[0]), "canonical.example"))
		owner = "canonical.example"
		for i, t := range tt[1:] {
			ans = append(ans, mk(owner, uint32(t), i))
		}
	default:
		for i, t := range tt {
			ans = append(ans, mk(owner, uint32(t), i))
		}
	}
	return wResponse(id, name, qtype, 0, ans), 200
}

// genOf extracts the generation encoded in a result, or -1 if it has no record of the type under test.
func genOf(r ech.ResolveResult, typ int) int {
	switch typ {
	case tA:
		for _, ip := range r.Address {
			if v4 := ip.To4(); v4 != nil && v4[0] == 10 {
				return int(v4[1])
			}
		}
	case tAAAA:
		for _, ip := range r.Address {
			if ip.To4() == nil && len(ip) == 16 {
				return int(ip[4])<<8 | int(ip[5])
			}
		}
	case tHTTPS:
		for _, h := range r.HTTPS {
			return int(h.Port) - 1000
		}
	}
	return -1
}

func replayCacheCase(c *cacheCase, idx int, srv *dohServer, z *cacheZone, clock *atomic.Int64) string {
	z.mu.Lock()
	z.typ = []int{tA, tHTTPS, tAAAA}[idx%3]
	z.gen = map[string]int{"n1": 0, "n2": 0}
	z.ttls = map[string][][]int{"n1": c.Ttls, "n2": {{2}, {2}}}
	z.up = true
	z.failSrv = idx%2 == 0
	z.failRc = []int{2, 9, 5, 23, 256, 3843}[(idx/2)%6]
	z.cnameOnly = idx%5 == 0
	z.queries = nil
	typ := z.typ
	cnameOnly := z.cnameOnly
	z.mu.Unlock()
	clock.Store(0)
	res, err := ech.NewResolver(srv.url())
	if err != nil {
		return err.Error()
	}
	for step, op := range c.Hist {
		switch op.Op {
		case "advance":
			clock.Add(1)
		case "change":
			z.mu.Lock()
			z.gen[op.K]++
			z.mu.Unlock()
		case "toggle":
			z.mu.Lock()
			z.up = !z.up
			z.mu.Unlock()
		case "resolve":
			z.mu.Lock()
			z.queries = nil
			z.mu.Unlock()
			ctx, cancel := context.WithTimeout(context.Background(), 10*time.Second)
			r, err := res.Resolve(ctx, cacheName(op.K))
			cancel()
			if envError(err) && !strings.Contains(err.Error(), "status code") {
				return "ENV: " + err.Error()
			}
			z.mu.Lock()
			nq := 0
			for _, q := range z.queries {
				if q["k"] == op.K {
					nq++
				}
			}
			ttl := z.ttls[op.K]
			z.mu.Unlock()
			where := fmt.Sprintf("step %d (resolve %s, type %d, clock %d)", step+1, op.K, typ, clock.Load())
			if (nq > 0) != op.Upq {
				return fmt.Sprintf("%s: spec says upstream query=%v, server saw %d queries", where, op.Upq, nq)
			}
			if nq > 1 {
				return fmt.Sprintf("%s: %d upstream queries for one lookup", where, nq)
			}
			if op.Kind == "err" {
				if err == nil {
					return where + ": spec says the failure is reported, code returned success"
				}
				continue
			}
			if err != nil {
				return fmt.Sprintf("%s: spec says success (gen %d), code returned %v", where, op.Gen, err)
			}
			hasData := len(ttl[op.Gen]) >= 2 || (len(ttl[op.Gen]) == 1 && !(cnameOnly && op.K == "n1"))
			if g := genOf(r, typ); hasData && g != op.Gen {
				return fmt.Sprintf("%s: spec says generation %d is returned, code returned generation %d", where, op.Gen, g)
			}
		}
	}
	return ""
}

func TestCacheHistories(t *testing.T) {
	in, out := os.Getenv("VH_IN"), os.Getenv("VH_OUT")
	if in == "" || out == "" {
		t.Skip("VH_IN/VH_OUT not set")
	}
	shard, _ := strconv.Atoi(envOr("VH_SHARD", "0"))
	nshard, _ := strconv.Atoi(envOr("VH_NSHARD", "1"))
	cases := readCases[cacheCase](t, in)
	w := newNDWriter(t, out)
	defer w.Close()
	var clock atomic.Int64
	base := time.Unix(1_700_000_000, 600_000_000) // not aligned to whole seconds: lifetimes are exact, not rounded
	restore := ech.VerifSetClock(func() time.Time { return base.Add(time.Duration(clock.Load()) * time.Second) })
	defer restore()
	z := &cacheZone{}
	srv := newDoHServer(z.answer)
	defer srv.Close()
	bad, n, env := 0, 0, 0
	for i := range cases {
		if i%nshard != shard {
			continue
		}
		n++
		var d string
		func() {
			defer func() {
				if p := recover(); p != nil {
					d = fmt.Sprint("panic: ", p)
				}
			}()
			d = replayCacheCase(&cases[i], i, srv, z, &clock)
		}()
		if strings.HasPrefix(d, "ENV: ") {
			env++
			continue
		}
		if d != "" {
			bad++
			if bad <= 30 {
				w.Write(Ev{"case": cases[i], "idx": i, "diff": d})
			}
		}
	}
	w.Write(Ev{"summary": true, "cases": n, "bad": bad, "env": env})
}

// ---- (B) concurrent use
func TestCacheConcurrent(t *testing.T) {
	out := os.Getenv("VH_OUT")
	if out == "" {
		t.Skip("VH_OUT not set")
	}
	rounds, _ := strconv.Atoi(envOr("VH_N", "30"))
	w := newNDWriter(t, out)
	defer w.Close()
	var clock atomic.Int64
	base := time.Unix(1_700_000_000, 600_000_000) // not aligned to whole seconds: lifetimes are exact, not rounded
	restore := ech.VerifSetClock(func() time.Time { return base.Add(time.Duration(clock.Load()) * time.Second) })
	defer restore()
	r := rand.New(rand.NewSource(seed()))
	for round := 0; round < rounds; round++ {
		var mu sync.Mutex
		var evs []Ev
		log := func(e Ev) { mu.Lock(); e["now"] = int(clock.Load()); evs = append(evs, e); mu.Unlock() }
		tts := [][][]int{{{2}, {0}}, {{0, 2}, {2}}, {{2, 1}, {2}}, {{3, 0, 2}, {0}}, {{1}, {2}}, {{5, 5, 5, 5}, {5, 5, 5}}, {{5, 5, 5, 5}, {5, 5, 5}}}[r.Intn(7)]
		z := &cacheZone{typ: []int{tA, tHTTPS, tAAAA}[r.Intn(3)], gen: map[string]int{"n1": 0, "n2": 0},
			ttls: map[string][][]int{"n1": tts, "n2": {{2}, {2}}}, up: true, failSrv: r.Intn(2) == 0}
		z.log = log
		srv := newDoHServer(z.answer)
		clock.Store(0)
		res, _ := ech.NewResolver(srv.url())
		z.failRc = []int{2, 9, 16, 256}[r.Intn(4)]
		G := []int{2, 3, 4}[r.Intn(3)]
		if os.Getenv("VH_BIGG") != "" {
			G = 16 // race-detector-only rounds: too many unlogged interleavings for trace validation
			// cached entries that expire and are refreshed while other goroutines are reading them
			tts = [][][]int{{{5, 5, 5, 5}, {5, 5, 5}}, {{3, 9, 2}, {4, 4}}}[round%2]
			z.ttls["n1"] = tts
			z.typ = []int{tHTTPS, tA, tAAAA}[round%3]
		}
		// the cache's size is the application's to choose (Resolver.SetCacheSize): every third round runs with room for one
		// entry (the three questions of a lookup evict one another all the time), every third without a cache at all
		size := []int{-1, 1, 0}[round%3]
		if size >= 0 {
			res.SetCacheSize(size)
		}
		w.Write(Ev{"e": "reset", "scen": Ev{"ttls": tts, "G": G, "typ": z.typ, "evicts": size >= 0}, "round": round})
		shared := ech.ResolveResult{Port: 443, Address: []net.IP{net.ParseIP("192.0.2.1").To4(), net.ParseIP("2001:db8::1")},
			HTTPS: []dns.HTTPS{{Priority: 1, ALPN: []string{"h2"}, ECH: []byte{1}}, {Priority: 2, Port: 8443, ALPN: []string{"h3"}}}}
		sharedSeq := shared.Targets("tcp")
		for phase := 0; phase < 5; phase++ {
			// environment steps only at barriers
			switch r.Intn(4) {
			case 0:
				clock.Add(1)
				log(Ev{"e": "advance"})
			case 1:
				z.mu.Lock()
				if z.gen["n1"] < 1 {
					z.gen["n1"]++
					z.mu.Unlock()
					log(Ev{"e": "change", "k": "n1"})
				} else {
					z.mu.Unlock()
				}
			case 2:
				z.mu.Lock()
				z.up = !z.up
				z.mu.Unlock()
				log(Ev{"e": "toggle"})
			}
			var wg sync.WaitGroup
			stopClock := make(chan struct{})
			if os.Getenv("VH_BIGG") != "" {
				// race-only rounds: the clock also moves while lookups are in flight (readers at the TTL boundary)
				go func() {
					for {
						select {
						case <-stopClock:
							return
						default:
							clock.Add(1)
							time.Sleep(50 * time.Microsecond)
						}
					}
				}()
			}
			for g := 1; g <= G; g++ {
				wg.Add(1)
				go func(g int) {
					defer wg.Done()
					log(Ev{"e": "start", "g": g, "k": "n1"})
					ctx, _, stop := loggedCtx(log, g, 10*time.Second)
					rr, err := res.Resolve(ctx, "n1.example")
					stop()
					if err != nil {
						kind := "err"
						if errors.Is(err, context.DeadlineExceeded) || errors.Is(err, context.Canceled) {
							kind = "timeout"
						}
						log(Ev{"e": "end", "g": g, "k": "n1", "kind": kind, "gen": -1})
						return
					}
					// use the handed-out result concurrently with the others
					n := 0
					for tg := range rr.Targets("tcp") {
						n += len(tg.ALPN)
					}
					for tg := range rr.Targets("tcp4") {
						n += len(tg.ALPN)
					}
					// one sequence value handed to several goroutines (a retry loop, a fan-out): ranging over it is reading
					m := 0
					for range sharedSeq {
						m++
					}
					if m != 4 {
						log(Ev{"e": "crash", "msg": fmt.Sprintf("a target sequence ranged over by several goroutines yielded %d of its 4 targets", m)})
					}
					_ = net.IP(nil)
					log(Ev{"e": "end", "g": g, "k": "n1", "kind": "ok", "gen": genOf(rr, z.typ)})
				}(g)
			}
			// lookups that never come back (a deadlock on the entry's lock does not care about the context) end the run
			allDone := make(chan struct{})
			go func() { wg.Wait(); close(allDone) }()
			select {
			case <-allDone:
			case <-time.After(2 * watchdogLimit()):
				for _, e := range evs {
					w.Write(e)
				}
				w.Write(Ev{"e": "crash", "msg": "concurrent lookups of one name did not return (deadlock): every lookup is bounded by its context and by the upstream answer"})
				w.Write(Ev{"e": "fin"})
				w.Close()
				exitNow()
			}
			close(stopClock)
		}
		srv.Close()
		for _, e := range evs {
			w.Write(e)
		}
		w.Write(Ev{"e": "fin"})
	}
}

// ---- (C) parked interleavings: the clock hook doubles as a scheduler gate. A lookup is parked at its first reading of
// the clock (after it has looked at the cache entry, before it decides), while the environment moves on and another
// lookup refreshes the entry; then it is released. The recorded trace is judged by TLC like the concurrent rounds.
// loggedCtx: a caller's context whose end - by deadline or by cancel() - is logged (event "cancel") BEFORE it takes effect, so that
// the specification can tell a lookup that failed because its caller gave up from one that had no reason to. stop releases the
// context without an event (the lookup has returned).
func loggedCtx(log func(Ev), g int, d time.Duration) (ctx context.Context, cancel func(), stop func()) {
	ctx, end := context.WithCancel(context.Background())
	var once sync.Once
	cancel = func() {
		once.Do(func() {
			log(Ev{"e": "cancel", "g": g})
			end()
		})
	}
	tm := time.AfterFunc(d, cancel)
	stop = func() {
		tm.Stop()
		once.Do(end)
	}
	return ctx, cancel, stop
}

func TestCacheParked(t *testing.T) {
	out := os.Getenv("VH_OUT")
	if out == "" {
		t.Skip("VH_OUT not set")
	}
	w := newNDWriter(t, out)
	defer w.Close()
	var clock atomic.Int64
	base := time.Unix(1_700_000_000, 600_000_000) // not aligned to whole seconds: lifetimes are exact, not rounded
	var parkNext atomic.Bool
	parked := make(chan struct{}, 1)
	release := make(chan struct{})
	restore := ech.VerifSetClock(func() time.Time {
		if parkNext.CompareAndSwap(true, false) {
			now := base.Add(time.Duration(clock.Load()) * time.Second) // the instant the parked lookup read the clock
			parked <- struct{}{}
			<-release
			return now
		}
		return base.Add(time.Duration(clock.Load()) * time.Second)
	})
	defer restore()
	round := 0
	// script: what happens while the second lookup is parked
	for _, ttl := range []int{1, 2} {
		for _, expire := range []bool{true, false} { // the entry has expired when the parked lookup looks at it / is still valid
			for _, change := range []bool{true, false} {
				for _, refresh := range []int{0, 1, 2} { // full lookups by the other goroutine while parked
					for _, late := range []int{0, 1, 3} { // clock steps while parked, after the refreshes
						var mu sync.Mutex
						var evs []Ev
						log := func(e Ev) { mu.Lock(); e["now"] = int(clock.Load()); evs = append(evs, e); mu.Unlock() }
						tts := [][][]int{{{ttl}, {ttl}}}[0]
						z := &cacheZone{typ: tHTTPS, gen: map[string]int{"n1": 0, "n2": 0}, ttls: map[string][][]int{"n1": tts, "n2": {{2}, {2}}}, up: true}
						z.log = log
						srv := newDoHServer(z.answer)
						clock.Store(0)
						res, _ := ech.NewResolver(srv.url())
						w.Write(Ev{"e": "reset", "scen": Ev{"ttls": tts, "G": 2, "typ": z.typ}, "round": round})
						round++
						var lookup func(g int)
						var cancelParked context.CancelFunc
						var cmu sync.Mutex
						lookup = func(g int) {
							log(Ev{"e": "start", "g": g, "k": "n1"})
							ctx, cancel, stop := loggedCtx(log, g, 10*time.Second)
							if g == 2 {
								cmu.Lock()
								cancelParked = cancel
								cmu.Unlock()
							}
							rr, err := res.Resolve(ctx, "n1.example")
							stop()
							if err != nil {
								kind := "err"
								if errors.Is(err, context.Canceled) || errors.Is(err, context.DeadlineExceeded) {
									kind = "timeout" // the caller gave up: says nothing about the data
								}
								log(Ev{"e": "end", "g": g, "k": "n1", "kind": kind, "gen": -1})
								return
							}
							log(Ev{"e": "end", "g": g, "k": "n1", "kind": "ok", "gen": genOf(rr, z.typ)})
						}
						bail := func(msg string) {
							for _, e := range evs {
								w.Write(e)
							}
							w.Write(Ev{"e": "crash", "msg": msg})
							w.Write(Ev{"e": "fin"})
							w.Close()
							exitNow()
						}
						plain := lookup
						lookup = func(g int) { // guarded: a lookup that never returns ends the run
							fin := make(chan struct{})
							go func() { defer close(fin); plain(g) }()
							select {
							case <-fin:
							case <-time.After(2 * watchdogLimit()):
								bail("a lookup did not return while another one was parked before its decision (deadlock)")
							}
						}
						lookup(1) // fills the cache
						steps := ttl - 1
						if expire {
							steps = ttl + 1
						}
						for i := 0; i < steps; i++ {
							clock.Add(1)
							log(Ev{"e": "advance"})
						}
						parkNext.Store(true)
						done := make(chan struct{})
						go func() { defer close(done); plain(2) }()
						select {
						case <-parked:
						case <-time.After(watchdogLimit()):
							t.Fatal("the second lookup never read the clock")
						}
						if change {
							z.mu.Lock()
							z.gen["n1"] = 1
							z.mu.Unlock()
							log(Ev{"e": "change", "k": "n1"})
						}
						for i := 0; i < refresh; i++ {
							if i == 1 {
								clock.Add(1)
								log(Ev{"e": "advance"})
							}
							lookup(1)
						}
						for i := 0; i < late; i++ {
							clock.Add(1)
							log(Ev{"e": "advance"})
						}
						cancelB := refresh >= 1 && (round%2 == 0)
						if cancelB { // the parked caller gives up while it waits; whatever it does then must not disturb the entry
							cmu.Lock()
							if cancelParked != nil {
								cancelParked()
							}
							cmu.Unlock()
						}
						release <- struct{}{}
						select {
						case <-done:
							if cancelB {
								lookup(1) // still inside the lifetime of what the refresh stored: served from the cache
							}
						case <-time.After(2 * watchdogLimit()):
							for _, e := range evs {
								w.Write(e)
							}
							w.Write(Ev{"e": "crash", "msg": "a lookup released after another one refreshed the entry never returned (deadlock)"})
							w.Write(Ev{"e": "fin"})
							w.Close()
							exitNow()
						}
						srv.Close()
						for _, e := range evs {
							w.Write(e)
						}
						w.Write(Ev{"e": "fin"})
					}
				}
			}
		}
	}
}
