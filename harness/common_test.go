package verifharness

import (
	"bufio"
	"encoding/json"
	"os"
	"strconv"
	"sync/atomic"
	"testing"
	"time"
)

// Ev is one trace event / one observation.
type Ev map[string]any

// Real-time watchdogs guard operations that normally take microseconds. The limit is generous (a loaded machine must
// not turn a slow call into a "hang"); once three calls have really hung the verdict is established and the remaining
// ones use a short limit so that the run ends.
var hangsSeen atomic.Int32

func watchdogLimit() time.Duration {
	if hangsSeen.Load() >= 3 {
		return 2 * time.Second
	}
	return 20 * time.Second
}
func noteHang() { hangsSeen.Add(1) }

func envOr(k, def string) string {
	if v := os.Getenv(k); v != "" {
		return v
	}
	return def
}

func seed() int64 {
	n, _ := strconv.ParseInt(envOr("VERIF_SEED", "1"), 10, 64)
	return n
}

// readCases reads an ndjson file of abstract cases emitted by TLC.
func readCases[T any](t *testing.T, path string) []T {
	t.Helper()
	f, err := os.Open(path)
	if err != nil {
		t.Fatalf("cases: %v", err)
	}
	defer f.Close()
	var out []T
	s := bufio.NewScanner(f)
	s.Buffer(make([]byte, 1<<22), 1<<26)
	for s.Scan() {
		if len(s.Bytes()) == 0 {
			continue
		}
		var c T
		if err := json.Unmarshal(s.Bytes(), &c); err != nil {
			t.Fatalf("case %q: %v", s.Text(), err)
		}
		out = append(out, c)
	}
	return out
}

type ndWriter struct {
	f   *os.File
	w   *bufio.Writer
	enc *json.Encoder
}

func newNDWriter(t *testing.T, path string) *ndWriter {
	t.Helper()
	f, err := os.Create(path)
	if err != nil {
		t.Fatalf("create: %v", err)
	}
	w := bufio.NewWriterSize(f, 1<<20)
	return &ndWriter{f: f, w: w, enc: json.NewEncoder(w)}
}

func (n *ndWriter) Write(v any) { n.enc.Encode(v) }
func (n *ndWriter) Close()      { n.w.Flush(); n.f.Close() }

// exitNow ends the driver at once. Under `go test` a call of os.Exit(0) panics (-test.paniconexit0); made from a goroutine
// of its own, that panic cannot be swallowed by a scenario's recover and the process really ends (everything written so far
// has been flushed by the caller).
func exitNow() {
	go os.Exit(0)
	select {}
}
