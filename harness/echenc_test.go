package verifharness

// Concretiser for the abstract ClientHello syntax of spec/EchHello.tla: an independent TLS ClientHello encoder
// (not the package's marshal), real X25519 keys and real HPKE sealing with crypto/hpke (not internal/hpke).

import (
	"bytes"
	"context"
	"crypto/ecdh"
	"crypto/hpke"
	"crypto/sha256"
	"encoding/binary"
	"fmt"
	"reflect"
	"sync"
	"sync/atomic"

	"github.com/c2FmZQ/ech"
)

type aExt struct {
	T string `json:"t"`
	V string `json:"v"`
}
type aEnc struct {
	To string `json:"to"`
	Id string `json:"id"`
}
type aCt struct {
	Ok    bool    `json:"ok"`
	Zero  bool    `json:"zero"`
	Kid   string  `json:"kid"`
	Enc   string  `json:"enc"`
	Suite string  `json:"suite"`
	Info  string  `json:"info"`
	Aad   *aHello `json:"aad"`
	Pt    *aHello `json:"pt"`
}
type aEch struct {
	Trail bool   `json:"trail"`
	Type  string `json:"type"`
	Cid   int    `json:"cid"`
	Suite string `json:"suite"`
	Enc   *aEnc  `json:"enc"`
	Ct    *aCt   `json:"ct"`
}
type aHello struct {
	Pad  string   `json:"pad"`
	Sid  string   `json:"sid"`
	Ech  aEch     `json:"ech"`
	Exts []aExt   `json:"exts"`
	Eoe  []string `json:"eoe"`
}
type aInner struct {
	Sid  string `json:"sid"`
	Exts []aExt `json:"exts"`
}
type aRes struct {
	Kind  string  `json:"kind"`
	Class string  `json:"class"`
	Sni   string  `json:"sni"`
	Alpn  string  `json:"alpn"`
	Inner *aInner `json:"inner"`
}

var extCode = map[string]uint16{
	"sni": 0, "alpn": 16, "sv": 43, "ks": 51, "sg": 10, "psk": 41, "gr": 0x0a0a, "x0": 23, "p21": 21, "x1": 0x1234, "x2": 0x5678, "x9": 0x9999,
	"ech": 0xfe0d, "eoe": 0xfd00, "echdup": 0xfe0d, "echdupi": 0xfe0d,
}

var sniName = map[string]string{
	"pub": "Public-k.Example.COM", "pubKelvin": "Public-\u212a.Example.COM", "priv": "Private-k.Example.COM", "privKelvin": "Private-\u212a.Example.COM", "other": "other.example.net", "pubB": "public-b.example.org", "": "",
}
var alpnList = map[string][]string{"ao": {"http/1.1"}, "ai": {"h3", "h2", "http/1.1"}, "": nil}

func be16(b []byte, v int) []byte { return binary.BigEndian.AppendUint16(b, uint16(v)) }

// faultCtx injects one structural fault at the target-th length-prefixed vector the encoder emits.
type faultCtx struct {
	target, counter int
	kind            string // plus1 | minus1 | trunc
	enabled         bool
	applied         bool
}

var encFault *faultCtx

func faultLen(v []byte) (int, []byte) {
	l := len(v)
	if f := encFault; f != nil && f.enabled {
		f.counter++
		if f.counter == f.target {
			f.applied = true
			switch f.kind {
			case "plus1":
				l++
			case "minus1":
				l--
			case "trunc":
				if len(v) > 0 {
					v = v[:len(v)-1]
				}
			case "zero": // the far ends of the length field's range
				l = 0
			case "fffc":
				l = 0xfffc
			case "ffff":
				l = 0xffff
			}
		}
	}
	return l, v
}
func vec8(b, v []byte) []byte {
	l, v := faultLen(v)
	return append(append(b, byte(l)), v...)
}
func vec16(b, v []byte) []byte {
	l, v := faultLen(v)
	return append(be16(b, l), v...)
}
func vec24(b, v []byte) []byte {
	l, v := faultLen(v)
	return append(append(b, byte(l>>16), byte(l>>8), byte(l)), v...)
}

func encSNI(name string) []byte {
	l := []byte{0}
	l = vec16(l, []byte(name))
	return vec16(nil, l)
}
func encALPN(ps []string) []byte {
	var l []byte
	for _, p := range ps {
		l = vec8(l, []byte(p))
	}
	return vec16(nil, l)
}

// stretch controls the size of opaque extension bodies (the abstract case does not change).
type encOpts struct {
	stretch  int // extra bytes in opaque bodies
	padLen   int
	padPos   int // position of the non-zero byte for pad = "nonzero"
	innerVer int // != 0: legacy_version of the inner hello (the outer one keeps 0x0303)
	fillTo   int // > 0: an outer-only padding extension brings the outer ClientHello message (handshake header included) to exactly this size
}

func opaqueVal(v string, o encOpts) []byte {
	h := sha256.Sum256([]byte(v))
	n := 6 + int(h[0])%20 + o.stretch
	out := make([]byte, n)
	for i := range out {
		out[i] = h[i%32] ^ byte(i/32)
	}
	return out
}

// keyPool mirrors KeyPool in EchHello.tla.
type poolKey struct {
	kid    string
	cid    uint8
	suites []string
	pub    string
	cfg    string
}

var keyPool = map[string]poolKey{
	"K1":  {"k1", 7, []string{"s1", "s2", "s3"}, "pub", "c1"},
	"K2":  {"k2", 7, []string{"s1", "s2", "s3"}, "pub", "c2"},
	"K3":  {"k3", 7, []string{"s1", "s3"}, "pubB", "c3"},
	"K4":  {"k4", 8, []string{"s1", "s2", "s3"}, "pub", "c4"},
	"K5":  {"k5", 7, []string{"s2"}, "pub", "c5"},
	"K1b": {"k1", 7, []string{"s1", "s2", "s3"}, "pub", "c1b"},
	"K6":  {"k6", 7, []string{"s1", "s2", "s3"}, "pub", "c6"},
	"K7":  {"k7", 9, []string{"s1", "s4"}, "pub", "c7"},
	"K8":  {"k8", 7, []string{"s4", "s1", "s2"}, "pub", "c8"},  // the suite the library cannot serve is listed first
	"KP":  {"kp", 10, []string{"s1", "s2", "s3"}, "pub", "cp"}, // a P-256 KEM key: held, not usable by the library's HPKE, never a candidate
	"KX":  {"kx", 7, []string{"s1", "s2", "s3"}, "pub", "cx"},  // config bytes of an unknown version: held, never usable
}

var suiteAEAD = map[string]uint16{"s1": 1, "s2": 2, "s3": 3, "s4": 1}

// s4: HKDF-SHA384 with AES-128-GCM - a registered suite the library's HPKE does not implement
var suiteKDF = map[string]uint16{"s1": 1, "s2": 1, "s3": 1, "s4": 2}

type keyring struct {
	mu    sync.Mutex
	privs map[string]*ecdh.PrivateKey
	cfgs  map[string][]byte // cfg name -> config bytes
}

func newKeyring(seed int64) *keyring {
	kr := &keyring{privs: map[string]*ecdh.PrivateKey{}, cfgs: map[string][]byte{}}
	for _, kid := range []string{"k1", "k2", "k3", "k4", "k5", "k6", "k7", "k8", "kx"} {
		h := sha256.Sum256([]byte(fmt.Sprintf("verif-key-%s-%d", kid, seed)))
		p, err := ecdh.X25519().NewPrivateKey(h[:])
		if err != nil {
			panic(err)
		}
		kr.privs[kid] = p
	}
	hp := sha256.Sum256([]byte(fmt.Sprintf("verif-key-kp-%d", seed)))
	if p, err := ecdh.P256().NewPrivateKey(hp[:]); err == nil {
		kr.privs["kp"] = p
	} else {
		panic(err)
	}
	for _, pk := range keyPool {
		var cs []ech.CipherSuite
		for _, s := range pk.suites {
			cs = append(cs, ech.CipherSuite{KDF: suiteKDF[s], AEAD: suiteAEAD[s]})
		}
		if pk.cfg == "c1b" { // other config bytes for the same key material
			cs = append(cs, ech.CipherSuite{KDF: 1, AEAD: 0xffff})
		}
		// Config bytes come from the harness's own encoder, with a maximum_name_length that is NOT the value the
		// library would derive (the draft lets the operator choose it), so the held bytes are not "canonical".
		var suites [][2]uint16
		for _, c := range cs {
			suites = append(suites, [2]uint16{c.KDF, c.AEAD})
		}
		kem := uint16(0x20)
		if pk.kid == "kp" {
			kem = 0x10 // DHKEM(P-256, HKDF-SHA256)
		}
		b := encECHConfig(pk.cid, kem, kr.privs[pk.kid].PublicKey().Bytes(), suites, 64+int(pk.cid), []byte(sniName[pk.pub]))
		if pk.cfg == "cx" {
			b[0], b[1] = 0xfe, 0x0e
		}
		kr.cfgs[pk.cfg] = b
	}
	return kr
}

// encECHConfig is an independent encoder of the ECHConfig structure (draft-ietf-tls-esni section 4).
func encECHConfig(id uint8, kem uint16, pk []byte, suites [][2]uint16, maxNameLen int, publicName []byte) []byte {
	c := []byte{id}
	c = be16(c, int(kem))
	c = vec16(c, pk)
	var cs []byte
	for _, s := range suites {
		cs = be16(cs, int(s[0]))
		cs = be16(cs, int(s[1]))
	}
	c = vec16(c, cs)
	c = append(c, byte(maxNameLen))
	c = vec8(c, publicName)
	c = be16(c, 0) // no extensions
	return vec16(be16(nil, 0xfe0d), c)
}

func (kr *keyring) serverKeys(names []string) []ech.Key {
	var out []ech.Key
	for _, n := range names {
		pk := keyPool[n]
		out = append(out, ech.Key{Config: kr.cfgs[pk.cfg], PrivateKey: kr.privs[pk.kid].Bytes(), SendAsRetry: true})
	}
	return out
}

// keyOptions hands the key list to NewConn the ways an application may: in one WithKeys option, or spread over two
// (the split point cycles through the list from call to call). The keys a Conn holds are the concatenation.
var keySplit atomic.Int64

// otherConnection: another client is accepted and read from while the connection under test is between two calls.
func otherConnection(kr *keyring, hello []byte) {
	defer func() { recover() }()
	other := bytes.Clone(hello)
	for i := 11; i < 43 && i < len(other); i++ { // its own client random
		other[i] ^= 0x5c
	}
	c, err := ech.NewConn(context.Background(), newScriptConn(append(other, 22, 3, 3, 0, 9, 11, 0, 0, 5, 1, 2, 3)), ech.WithKeys(kr.serverKeys([]string{"K1"})))
	if err != nil {
		return
	}
	buf := make([]byte, 37)
	c.Read(buf)
	c.Read(buf)
}

// debugOptions: no WithDebug, WithDebug(nil), or a sink that really formats its arguments (and so touches whatever
// values the library hands it) - logging must never change what a connection does
var debugCycle atomic.Int64
var debugSink atomic.Int64

func debugOptions() []ech.Option {
	switch debugCycle.Add(1) % 3 {
	case 1:
		return []ech.Option{ech.WithDebug(nil)}
	case 2:
		return []ech.Option{ech.WithDebug(func(format string, args ...any) { debugSink.Add(int64(len(fmt.Sprintf(format, args...)))) })}
	}
	return nil
}

func keyOptions(keys []ech.Key) []ech.Option { return append(keyOptionsOnly(keys), debugOptions()...) }

func keyOptionsOnly(keys []ech.Key) []ech.Option {
	if len(keys) == 0 { // "no keys" said in every way an application can
		switch keySplit.Add(1) % 3 {
		case 0:
			return nil
		case 1:
			return []ech.Option{ech.WithKeys(nil)}
		}
		return []ech.Option{ech.WithKeys([]ech.Key{})}
	}
	n := int(keySplit.Add(1))
	if len(keys) < 2 {
		// one key, said in the ways an application may say it (an option that adds nothing before or after it)
		switch n % 4 {
		case 0:
			return []ech.Option{ech.WithKeys(keys)}
		case 1:
			return []ech.Option{ech.WithKeys(spareKeys(keys)), ech.WithKeys(nil)}
		case 2:
			return []ech.Option{ech.WithKeys([]ech.Key{}), ech.WithKeys(spareKeys(keys))}
		}
		return []ech.Option{ech.WithKeys(spareKeys(keys))}
	}
	at := n % len(keys)
	if at == 0 {
		return []ech.Option{ech.WithKeys(spareKeys(keys))}
	}
	return []ech.Option{ech.WithKeys(spareKeys(keys[:at])), ech.WithKeys(spareKeys(keys[at:]))}
}

// spareKeys returns the keys as a sub-slice of a larger array of the caller's (the way a key list cut out of a bigger table
// is): the elements behind it are the caller's and must still be there afterwards (checkKeyArrays).
func spareKeys(keys []ech.Key) []ech.Key {
	arr := make([]ech.Key, len(keys)+2)
	copy(arr, keys)
	for i := len(keys); i < len(arr); i++ {
		arr[i] = ech.Key{Config: []byte("the caller's own element"), PrivateKey: []byte{byte(i)}}
	}
	keyArrMu.Lock()
	if len(keyArrs) < 4096 {
		keyArrs = append(keyArrs, keyArr{arr: arr, want: cloneKeys(arr)})
	}
	keyArrMu.Unlock()
	return arr[:len(keys)]
}

type keyArr struct{ arr, want []ech.Key }

var (
	keyArrMu sync.Mutex
	keyArrs  []keyArr
)

// checkKeyArrays: every array a key list was cut from is as the caller left it.
func checkKeyArrays() string {
	keyArrMu.Lock()
	defer keyArrMu.Unlock()
	defer func() { keyArrs = keyArrs[:0] }()
	for _, k := range keyArrs {
		if !reflect.DeepEqual(k.arr, k.want) {
			return "a key list passed to WithKeys was cut out of a larger array of the caller's, and elements of that array behind the list were overwritten"
		}
	}
	return ""
}

func hpkeAEAD(s string) hpke.AEAD {
	switch s {
	case "s1", "s4":
		return hpke.AES128GCM()
	case "s2":
		return hpke.AES256GCM()
	}
	return hpke.ChaCha20Poly1305()
}

// sealer holds the HPKE senders of one concretisation (one per (kid, enc id, suite, info)).
type sealer struct {
	kr      *keyring
	senders map[string]*hpke.Sender
	encs    map[string][]byte
}

func newSealer(kr *keyring) *sealer {
	return &sealer{kr: kr, senders: map[string]*hpke.Sender{}, encs: map[string][]byte{}}
}

func (s *sealer) sender(kid, encid, suite, info string) (*hpke.Sender, []byte) {
	key := kid + "/" + encid + "/" + suite + "/" + info
	if snd, ok := s.senders[key]; ok {
		return snd, s.encs[kid+"/"+encid]
	}
	pk, err := hpke.NewDHKEMPublicKey(s.kr.privs[kid].PublicKey())
	if err != nil {
		panic(err)
	}
	kdf := hpke.HKDFSHA256()
	if suiteKDF[suite] == 2 {
		kdf = hpke.HKDFSHA384()
	}
	enc, snd, err := hpke.NewSender(pk, kdf, hpkeAEAD(suite), append([]byte("tls ech\x00"), s.kr.cfgs[info]...))
	if err != nil {
		panic(err)
	}
	s.senders[key] = snd
	s.encs[kid+"/"+encid] = enc
	return snd, enc
}

func (s *sealer) encBytes(e *aEnc, ct *aCt) []byte {
	switch e.To {
	case "empty":
		return []byte{}
	case "malformed":
		return bytes.Repeat([]byte{9}, 31)
	case "loworder":
		return lowOrderEnc(e.Id)
	}
	if ct != nil && !ct.Zero && ct.Kid == e.To && ct.Enc == e.Id {
		_, enc := s.sender(ct.Kid, ct.Enc, ct.Suite, ct.Info)
		return enc
	}
	if enc, ok := s.encs[e.To+"/"+e.Id]; ok {
		return enc
	}
	// a different encapsulation (to the same or another key)
	_, enc := s.sender(e.To, e.Id, "s1", "c1")
	return enc
}

const (
	outerRandom = 0xAB
	innerRandom = 0xCD
)

func sidBytes(s string) []byte {
	switch s {
	case "":
		return nil
	case "s1":
		return bytes.Repeat([]byte{0x51}, 32)
	case "s8":
		return bytes.Repeat([]byte{0x58}, 8)
	}
	h := sha256.Sum256([]byte(s))
	return h[:]
}

// helloBody encodes the ClientHello structure (without handshake header). payload: bytes for the ECH payload field
// (nil = compute by sealing). zeroPayloadLen >= 0 forces a zero payload of that length (AAD form).
func (s *sealer) helloBody(h *aHello, random byte, o encOpts, op string, zeroPayloadLen int) []byte {
	b := []byte{3, 3}
	if o.innerVer != 0 && h.Ech.Type == "inner" {
		b = []byte{byte(o.innerVer >> 8), byte(o.innerVer)}
	}
	b = append(b, bytes.Repeat([]byte{random}, 32)...)
	b = vec8(b, sidBytes(h.Sid))
	b = vec16(b, []byte{0x13, 0x01, 0x13, 0x02, 0x13, 0x03})
	b = vec8(b, []byte{0})
	fill := -1
	if o.fillTo > 0 && h.Ech.Type == "outer" && h.Ech.Ct != nil {
		// sizes do not depend on the sealing: measure the AAD form without the filler
		o2 := o
		o2.fillTo = 0
		plen := zeroPayloadLen
		if plen < 0 {
			plen = len(s.helloBody(h.Ech.Ct.Pt, innerRandom, o2, "", -1)) + 16
		}
		fill = o.fillTo - 4 - len(s.helloBody(h, random, o2, "", plen)) - 4
	}
	var e []byte
	for _, x := range h.Exts {
		e = be16(e, int(extCode[x.T]))
		e = vec16(e, s.extBody(h, x, o, op, zeroPayloadLen))
	}
	if fill >= 0 {
		e = be16(e, 21)
		e = vec16(e, make([]byte, fill))
	}
	b = vec16(b, e)
	switch h.Pad {
	case "zeros":
		b = append(b, make([]byte, o.padLen)...)
	case "nonzero":
		p := make([]byte, o.padLen)
		p[o.padPos%len(p)] = 0x01
		b = append(b, p...)
	}
	return b
}

func (s *sealer) extBody(h *aHello, x aExt, o encOpts, op string, zeroPayloadLen int) []byte {
	switch x.T {
	case "sni":
		switch x.V {
		case "badtype": // name_type 1
			l := []byte{1}
			l = vec16(l, []byte("public.example.com"))
			return vec16(nil, l)
		case "two": // two host_name entries
			l := []byte{0}
			l = vec16(l, []byte("public.example.com"))
			l = append(l, 0)
			l = vec16(l, []byte("second.example.com"))
			return vec16(nil, l)
		}
		return encSNI(sniName[x.V])
	case "alpn":
		return encALPN(alpnList[x.V])
	case "sv":
		switch x.V {
		case "13":
			return []byte{4, 3, 4, 3, 3}
		case "13b":
			return []byte{2, 3, 4}
		case "odd": // a versions list with a dangling byte
			return []byte{3, 3, 4, 3}
		}
		return []byte{4, 3, 3, 3, 2}
	case "eoe":
		var l []byte
		bad := false
		odd := false
		for _, t := range h.Eoe {
			switch t {
			case "NODATA":
				return nil
			case "EMPTYLIST":
				return []byte{0}
			case "BADLEN":
				bad = true
			case "ODD":
				odd = true
			default:
				l = be16(l, int(extCode[t]))
			}
		}
		if odd {
			l = append(l, 0x00)
		}
		out := vec8(nil, l)
		if bad {
			out[0] += 3
		}
		return out
	case "echdupi":
		return []byte{1}
	case "echdup":
		// a second encrypted_client_hello extension: a well-formed outer-type structure with its own payload bytes
		d := []byte{0, 0, 1, 0, 1, 7}
		d = vec16(d, nil)
		return vec16(d, bytes.Repeat([]byte{0x5a}, 107))
	case "ech":
		e := h.Ech
		switch e.Type {
		case "inner":
			return []byte{1}
		case "bad":
			return []byte{2, 0, 1, 0, 1}
		case "outer0":
			return []byte{0, 0, 1, 0, 1, 7, 0, 0, 0, 1, 0}
		case "outer":
			d := []byte{0}
			d = be16(d, int(suiteKDF[e.Suite]))
			d = be16(d, int(suiteAEAD[e.Suite]))
			d = append(d, byte(e.Cid))
			d = vec16(d, s.encBytes(e.Enc, e.Ct))
			if zeroPayloadLen >= 0 || e.Ct.Zero {
				return vec16(d, make([]byte, max(zeroPayloadLen, 0)))
			}
			d = vec16(d, s.payload(e.Ct, o, op))
			if e.Trail { // bytes after the payload, inside the extension (the enclosing lengths account for them)
				d = append(d, 0xde, 0xad, 0xbe)
			}
			return d
		}
		return nil
	}
	if x.T == "x0" { // an extension without a body (extended_master_secret)
		return nil
	}
	if x.T == "p21" { // RFC 7685 padding: zeros
		return make([]byte, 11)
	}
	return opaqueVal(x.V, o)
}

// payload seals the encoded inner hello with the AAD recorded in the abstract ciphertext.
func (s *sealer) payload(ct *aCt, o encOpts, op string) []byte {
	// structural faults: "structInner" damages the encoded inner hello before sealing; the AAD is the client's
	// undamaged outer hello in every case
	var saved bool
	if encFault != nil {
		saved = encFault.enabled
		encFault.enabled = op == "structInner"
	}
	pt := s.helloBody(ct.Pt, innerRandom, o, op, -1)
	if encFault != nil {
		encFault.enabled = false
	}
	var snd interface {
		Seal(aad, plaintext []byte) ([]byte, error)
	}
	if ct.Enc == "e5" || ct.Enc == "e6" {
		// sealed without anybody's key: the context a recipient would derive from an empty / all-zero DH output
		dh := []byte(nil)
		if ct.Enc == "e6" {
			dh = make([]byte, 32)
		}
		snd = newManualSender(lowOrderEnc(ct.Enc), s.kr.privs[ct.Kid].PublicKey().Bytes(), dh, ct.Suite, append([]byte("tls ech\x00"), s.kr.cfgs[ct.Info]...))
	} else {
		snd, _ = s.sender(ct.Kid, ct.Enc, ct.Suite, ct.Info)
	}
	aad := s.helloBody(ct.Aad, outerRandom, o, op, len(pt)+16)
	if encFault != nil {
		encFault.enabled = saved
	}
	c, err := snd.Seal(aad, pt)
	if err != nil {
		panic(err)
	}
	if !ct.Ok {
		if op == "tinyCt" {
			c = c[:5]
		} else if op == "emptyCt" {
			c = c[:0]
		} else if op == "truncCt" {
			c = c[:len(c)-1]
		} else {
			c[len(c)/2] ^= 0x10
		}
	}
	return c
}

func handshakeRecord(body []byte) []byte {
	hs := vec24([]byte{1}, body)
	return vec16([]byte{22, 3, 1}, hs)
}

// concretise returns the record carrying the hello.
func concretise(kr *keyring, h *aHello, o encOpts, op string) []byte {
	s := newSealer(kr)
	return handshakeRecord(s.helloBody(h, outerRandom, o, op, -1))
}

// expectedInnerRecord encodes the reconstructed inner hello the specification predicts.
func expectedInnerRecord(kr *keyring, in *aInner, o encOpts) []byte {
	s := newSealer(kr)
	h := &aHello{Sid: in.Sid, Exts: in.Exts, Pad: "none", Ech: aEch{Type: "inner"}}
	return handshakeRecord(s.helloBody(h, innerRandom, o, "", -1))
}
