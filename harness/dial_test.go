package verifharness

// C18 (direction B): run TLC-emitted Dial scenarios on the real Dialer inside a synctest bubble (virtual time)
// and record one event per spec action; TLC validates the batch against TraceDial.tla.

import (
	"bytes"
	"context"
	"crypto/tls"
	"errors"
	"fmt"
	"github.com/c2FmZQ/ech/dns"
	"io"
	"net"
	"os"
	"runtime"
	"strconv"
	"strings"
	"sync"
	"testing"
	"testing/synctest"
	"time"

	"github.com/c2FmZQ/ech"
)

type dialOutcome struct {
	Kind string `json:"kind"`
	D    int    `json:"d"`
}

type dialScen struct {
	N        int           `json:"n"`
	Oc       []dialOutcome `json:"oc"`
	K        int           `json:"K"`
	CancelAt int           `json:"cancelAt"`
}

const dialUnit = time.Millisecond

type dialConn struct {
	i   int
	log func(Ev)
}

type dialIface interface {
	io.Closer
	idx() int
}

func (c *dialConn) idx() int { return c.i }

func (c *dialConn) Close() error { c.log(Ev{"e": "close", "i": c.i}); return nil }

// runDialScenario returns the event log of one scenario, or a crash description.
func runDialScenario(t *testing.T, sc dialScen, delay, timeout int) (evs []Ev, crash string) {
	defer func() {
		if r := recover(); r != nil {
			crash = fmt.Sprint(r)
			if os.Getenv("VH_DUMP") != "" {
				buf := make([]byte, 1<<20)
				crash += "\n" + string(buf[:runtime.Stack(buf, true)])
			}
		}
	}()
	synctest.Test(t, func(t *testing.T) {
		var mu sync.Mutex
		start := time.Now()
		log := func(e Ev) {
			mu.Lock()
			if f, ok := e["c"].(func() bool); ok {
				e["c"] = f() // sampled at the log's linearization point, under the log mutex
			}
			e["t"] = int(time.Since(start) / dialUnit)
			evs = append(evs, e)
			mu.Unlock()
		}
		var addrs []string
		calls := map[int]int{}
		idx := map[string]int{}
		// A target that ends in an error without an attempt ("rerr" in Dial.tla) has two realisations: its name does not
		// resolve, or - every other scenario - RequireECH is set and the target's HTTPS record carries no ECH config list
		// while the other targets' records do. The second form takes the resolution result the way Transport hands it over.
		noech, sum := false, sc.CancelAt+1
		for _, o := range sc.Oc {
			sum += o.D
			noech = noech || o.Kind == "rerr"
		}
		noech = noech && sum%2 == 0
		var injected ech.ResolveResult
		if noech {
			injected = ech.ResolveResult{Port: 443, Address: []net.IP{{10, 0, 0, 1}}}
			for i, o := range sc.Oc {
				h := dns.HTTPS{Priority: uint16(i + 1), Port: uint16(1001 + i)}
				if o.Kind != "rerr" {
					h.ECH = bytes.Clone(polLists["E1"])
				}
				injected.HTTPS = append(injected.HTTPS, h)
				idx[fmt.Sprintf("10.0.0.1:%d", 1001+i)] = i + 1
			}
		}
		for i, o := range sc.Oc {
			if noech {
				break
			}
			if o.Kind == "rerr" {
				// a label longer than 63 bytes: Resolve fails with ErrInvalidName, no I/O
				addrs = append(addrs, strings.Repeat("x", 64)+fmt.Sprintf("%d.example", i+1))
			} else {
				a := fmt.Sprintf("127.0.0.%d", i+1)
				addrs = append(addrs, a)
				idx[a+":443"] = i + 1
			}
		}
		dialFn := func(ctx context.Context, network, addr string, tc *tls.Config) (*dialConn, error) {
			i := idx[addr]
			if i == 0 {
				log(Ev{"e": "badaddr", "addr": addr})
				return nil, errors.New("unknown address")
			}
			o := sc.Oc[i-1]
			// half of the hanging attempts hang in their *second* handshake: the first one is rejected by the server with
			// retry configs after one time unit, and the attempt goes on with the new list - still one attempt, one Timeout
			mu.Lock()
			calls[i]++
			second := calls[i] > 1
			mu.Unlock()
			if !second {
				log(Ev{"e": "start", "i": i, "c": func() bool { return ctx.Err() != nil }})
			}
			var res string
			if o.Kind == "hang" && !second && (i+len(sc.Oc))%2 == 0 {
				tm := time.NewTimer(dialUnit)
				select {
				case <-ctx.Done():
					tm.Stop()
					log(Ev{"e": "end", "i": i, "r": "ctx"})
					return nil, errors.New("ctx")
				case <-tm.C:
					return nil, &tls.ECHRejectionError{RetryConfigList: []byte{0, 1, 0}}
				}
			}
			if o.Kind == "stub" { // a DialFunc that ignores its context and succeeds late
				time.Sleep(time.Duration(o.D) * dialUnit)
				log(Ev{"e": "end", "i": i, "r": "stub"})
				return &dialConn{i: i, log: log}, nil
			}
			if o.Kind == "hang" {
				<-ctx.Done()
				res = "ctx"
			} else {
				tm := time.NewTimer(time.Duration(o.D) * dialUnit)
				select {
				case <-ctx.Done():
					res = "ctx"
				case <-tm.C:
					res = o.Kind
				}
				tm.Stop()
			}
			log(Ev{"e": "end", "i": i, "r": res})
			if res == "ok" {
				return &dialConn{i: i, log: log}, nil
			}
			return nil, errors.New(res)
		}
		ctx, cancel := context.WithCancel(context.Background())
		defer cancel()
		if sc.CancelAt >= 0 {
			tm := time.AfterFunc(time.Duration(sc.CancelAt)*dialUnit, func() {
				log(Ev{"e": "cancel"})
				cancel()
			})
			defer tm.Stop()
		}
		network := "tcp"
		if noech {
			ctx = ech.VerifContextWithResolveResult(ctx, "origin.example", injected)
			addrs = []string{"origin.example:443"}
		}
		if sc.N == 0 {
			// zero targets: an IPv4 literal filtered out by the tcp6 family
			network, addrs = "tcp6", []string{"127.0.0.1"}
		}
		// the connection type is the application's: a pointer type, or (every other scenario) an interface type
		var c *dialConn
		var err error
		if (sc.N+sc.K)%2 == 1 {
			d := &ech.Dialer[dialIface]{RequireECH: noech, MaxConcurrency: sc.K, ConcurrencyDelay: time.Duration(delay) * dialUnit, Timeout: time.Duration(timeout) * dialUnit,
				DialFunc: func(ctx context.Context, network, addr string, tc *tls.Config) (dialIface, error) {
					x, err := dialFn(ctx, network, addr, tc)
					if x == nil {
						return nil, err
					}
					return x, err
				}}
			var ci dialIface
			ci, err = d.Dial(ctx, network, strings.Join(addrs, ","), nil)
			if ci != nil {
				c = ci.(*dialConn)
			}
		} else {
			d := &ech.Dialer[*dialConn]{RequireECH: noech, MaxConcurrency: sc.K, ConcurrencyDelay: time.Duration(delay) * dialUnit, Timeout: time.Duration(timeout) * dialUnit, DialFunc: dialFn}
			c, err = d.Dial(ctx, network, strings.Join(addrs, ","), nil)
		}
		switch {
		case err == nil && c != nil:
			log(Ev{"e": "ret", "r": "conn", "i": c.i})
		case err == nil:
			log(Ev{"e": "ret", "r": "nilconn"})
		case errors.Is(err, context.Canceled):
			log(Ev{"e": "ret", "r": "ctxerr"})
		case err.Error() == "no address":
			log(Ev{"e": "ret", "r": "noaddr"})
		default:
			type unw interface{ Unwrap() []error }
			n := 1
			if u, ok := err.(unw); ok {
				n = len(u.Unwrap())
			}
			log(Ev{"e": "ret", "r": "joined", "nerr": n})
		}
		synctest.Wait()
		// attempts that ignore their context run to their end (virtual time stops once this function returns); then nothing may be left
		for _, o := range sc.Oc {
			if o.Kind == "stub" { // only a DialFunc that ignores its context can still be running here
				time.Sleep(80 * dialUnit)
				synctest.Wait()
				break
			}
		}
		buf := make([]byte, 1<<20)
		n := runtime.Stack(buf, true)
		g := strings.Count(string(buf[:n]), "ech.(*Dialer")
		log(Ev{"e": "quiesce", "g": g})
	})
	return evs, ""
}

func TestDialScenarios(t *testing.T) {
	in, out := os.Getenv("VH_IN"), os.Getenv("VH_OUT")
	if in == "" || out == "" {
		t.Skip("VH_IN/VH_OUT not set")
	}
	delay, _ := strconv.Atoi(envOr("VH_DELAY", "2"))
	timeout, _ := strconv.Atoi(envOr("VH_TIMEOUT", "4"))
	procs := []int{runtime.GOMAXPROCS(0)}
	if p := os.Getenv("VH_PROCS"); p != "" {
		procs = nil
		for _, s := range strings.Split(p, ",") {
			n, _ := strconv.Atoi(s)
			procs = append(procs, n)
		}
	}
	scens := readCases[dialScen](t, in)
	w := newNDWriter(t, out)
	defer w.Close()
	cnt := 0
	for _, gp := range procs {
		old := runtime.GOMAXPROCS(gp)
		for _, sc := range scens {
			if sc.Oc == nil {
				sc.Oc = []dialOutcome{}
			}
			evs, crash := runDialScenario(t, sc, delay, timeout)
			w.Write(Ev{"e": "reset", "scen": sc, "procs": gp})
			for _, e := range evs {
				w.Write(e)
			}
			if crash != "" {
				w.Write(Ev{"e": "crash", "msg": crash})
			}
			cnt++
		}
		runtime.GOMAXPROCS(old)
	}
	t.Logf("ran %d scenarios", cnt)
}

// The stock Dialer (NewDialer): its own DialFunc against real sockets. A peer that accepts the TCP connection and then says
// nothing (a stalled TLS handshake) is bounded by Timeout and by the caller's context like any other attempt, a peer that
// completes the handshake is returned, and nothing keeps running afterwards. Real time; the bounds are generous.
func TestStockDialer(t *testing.T) {
	out := os.Getenv("VH_OUT")
	if out == "" {
		t.Skip("VH_OUT not set")
	}
	w := newNDWriter(t, out)
	defer w.Close()
	ln, err := net.Listen("tcp", "127.0.0.1:0")
	if err != nil {
		w.Write(Ev{"summary": true, "env": 1})
		return
	}
	defer ln.Close()
	var held []net.Conn
	var hmu sync.Mutex
	go func() {
		for {
			c, err := ln.Accept()
			if err != nil {
				return
			}
			hmu.Lock()
			held = append(held, c) // accepted, never answered
			hmu.Unlock()
		}
	}()
	defer func() {
		hmu.Lock()
		for _, c := range held {
			c.Close()
		}
		hmu.Unlock()
	}()
	runs := 0
	for _, mode := range []string{"timeout", "cancel"} {
		for k := 0; k < 3; k++ {
			runs++
			d := ech.NewDialer()
			d.Timeout = 300 * time.Millisecond
			d.ConcurrencyDelay = 50 * time.Millisecond
			ctx, cancel := context.WithCancel(context.Background())
			if mode == "cancel" {
				d.Timeout = 30 * time.Second
				time.AfterFunc(200*time.Millisecond, cancel)
			}
			type res struct {
				c   *tls.Conn
				err error
			}
			ch := make(chan res, 1)
			t0 := time.Now()
			go func() {
				c, err := d.Dial(ctx, "tcp", ln.Addr().String(), &tls.Config{ServerName: "stalled.example", InsecureSkipVerify: true})
				ch <- res{c, err}
			}()
			select {
			case r := <-ch:
				if r.err == nil {
					w.Write(Ev{"key": mode, "diff": "Dial returned a connection from a peer that never answered the handshake"})
				}
				if el := time.Since(t0); el > watchdogLimit() {
					w.Write(Ev{"key": mode, "diff": fmt.Sprintf("Dial against a stalled handshake returned after %v (Timeout / cancellation at 0.2-0.3 s)", el)})
				}
			case <-time.After(2 * watchdogLimit()):
				noteHang()
				w.Write(Ev{"key": mode, "diff": "Dial against a peer that accepts TCP and stalls the TLS handshake does not return: the attempt is bounded neither by Timeout nor by the caller's context"})
			}
			cancel()
		}
	}
	// calls that fail before any attempt is made: a PublicName no ECHConfig can carry (longer than 255 bytes), a network
	// whose family excludes every address, a name that cannot be resolved - an error, and nothing left running either
	for _, k := range []int{0, 1, 4} {
		for _, early := range []string{"longname", "family", "badname"} {
			runs++
			d := ech.NewDialer()
			d.MaxConcurrency = k
			network, addr := "tcp", ln.Addr().String()
			switch early {
			case "longname":
				d.PublicName = strings.Repeat("a234567.", 40) + "example"
			case "family":
				network = "tcp6"
			case "badname":
				addr = strings.Repeat("x", 64) + ".example:443"
			}
			c, err := d.Dial(context.Background(), network, addr, &tls.Config{ServerName: "stalled.example", InsecureSkipVerify: true})
			if err == nil {
				w.Write(Ev{"key": "early:" + early, "diff": "Dial (" + early + ") returned a connection"})
				c.Close()
			}
		}
	}
	// settings below zero (what they mean is the library's business - the code takes them as "default"): whatever Dial makes of
	// them, it comes back and leaves nothing running
	for _, neg := range []string{"MaxConcurrency", "ConcurrencyDelay", "Timeout"} {
		runs++
		d := ech.NewDialer()
		d.Timeout = 300 * time.Millisecond
		d.ConcurrencyDelay = 20 * time.Millisecond
		switch neg {
		case "MaxConcurrency":
			d.MaxConcurrency = -1
		case "ConcurrencyDelay":
			d.ConcurrencyDelay = -1
		case "Timeout":
			d.Timeout = -1
		}
		ctx, cancel := context.WithTimeout(context.Background(), time.Second)
		done := make(chan struct{})
		go func() {
			defer close(done)
			if c, err := d.Dial(ctx, "tcp", ln.Addr().String(), &tls.Config{ServerName: "stalled.example", InsecureSkipVerify: true}); err == nil {
				c.Close()
			}
		}()
		select {
		case <-done:
		case <-time.After(watchdogLimit()):
			noteHang()
			w.Write(Ev{"key": "negative:" + neg, "diff": "Dial with a negative " + neg + " does not return although its context has ended"})
		}
		cancel()
	}
	// nothing of the Dialer keeps running (the attempts' goroutines end with their context)
	deadline := time.Now().Add(watchdogLimit())
	g := 0
	for {
		buf := make([]byte, 1<<20)
		g = strings.Count(string(buf[:runtime.Stack(buf, true)]), "ech.(*Dialer")
		if g == 0 || time.Now().After(deadline) {
			break
		}
		time.Sleep(20 * time.Millisecond)
	}
	if g != 0 && hangsSeen.Load() == 0 {
		w.Write(Ev{"key": "leak", "diff": fmt.Sprintf("%d Dialer goroutines still running after every Dial has returned", g)})
	}
	w.Write(Ev{"summary": true, "runs": runs})
}
