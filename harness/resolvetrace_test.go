package verifharness

// C14, direction B: seeded random DNS universes served to the real Resolver; universe, input form, result and query
// log are recorded for validation against spec/TraceResolve.tla (TLC runs Resolve.tla on the recorded universe).

import (
	"context"
	"fmt"
	"math/rand"
	"os"
	"sort"
	"strconv"
	"strings"
	"testing"
	"time"

	"github.com/c2FmZQ/ech"
)

type tzRR struct {
	Owner rName  `json:"owner"`
	Typ   string `json:"typ"`
	Data  any    `json:"data"`
}
type tzResp struct {
	Rcode int    `json:"rcode"`
	Ans   []tzRR `json:"ans"`
}
type tzEntry struct {
	Q rQ     `json:"q"`
	R tzResp `json:"r"`
}

func TestResolveRandomZones(t *testing.T) {
	out := os.Getenv("VH_OUT")
	if out == "" {
		t.Skip("VH_OUT not set")
	}
	n, _ := strconv.Atoi(envOr("VH_N", "200"))
	r := rand.New(rand.NewSource(seed()))
	w := newNDWriter(t, out)
	defer w.Close()
	var cur func(id int, name string, qtype int) ([]byte, int)
	srv := newDoHServer(func(id int, name string, qtype int) ([]byte, int) { return cur(id, name, qtype) })
	defer srv.Close()
	others := []string{"n1", "n2", "n3", "n4", "n5", "n6", "n7", "n8", "evil"}
	for i := 0; i < n; i++ {
		// input form
		inputs := []rInput{{Id: "host", Port: 443, Scheme: "https", Valid: true}, {Id: "host8443", Port: 8443, Scheme: "https", Valid: true},
			{Id: "foo123", Port: 123, Scheme: "foo", Valid: true}, {Id: "host80", Port: 80, Scheme: "https", Valid: true}}
		inp := inputs[r.Intn(len(inputs))]
		arg, host, scheme := inputForm(inp.Id)
		nm := nameMap{host: host, scheme: scheme, port: inp.Port}
		conc := func(base string) string {
			if base == "o" {
				return host
			}
			return base + ".rand.example"
		}
		nmc := func(n rName) string {
			if n.Base == "o" || n.Pre != "" {
				return nm.concrete(rName{Pre: n.Pre, Base: "o"})
			}
			return conc(n.Base)
		}
		svcb := rName{Base: "o"}
		switch {
		case inp.Port != 80 && inp.Port != 443:
			svcb.Pre = "port+scheme"
		case inp.Scheme != "https":
			svcb.Pre = "scheme"
		}
		// the universe: for every (name, type) a response
		names := append([]rName{svcb, {Base: "o"}}, func() []rName {
			var o []rName
			for _, b := range others {
				o = append(o, rName{Base: b})
			}
			return o
		}()...)
		if svcb == (rName{Base: "o"}) {
			names = names[1:]
		}
		pick := func() string { return others[r.Intn(len(others)-1)] } // never "evil" as a legitimate target
		var ztab []tzEntry
		ipn := 0
		newIP := func(typ string) string {
			ipn++
			return fmt.Sprintf("%s-%d", map[string]string{"A": "v4", "AAAA": "v6"}[typ], ipn)
		}
		prio := 0
		for _, name := range names {
			for _, typ := range []string{"HTTPS", "A", "AAAA"} {
				var resp tzResp
				switch k := r.Intn(20); {
				case k == 0:
					resp.Rcode = 3
				case k == 1:
					resp.Rcode = []int{2, 5, 9}[r.Intn(3)]
				case k < 6:
					// empty
				default:
					owner := name
					// optional in-answer CNAME chain
					for c := 0; c < r.Intn(3) && typ != "HTTPS" || (typ == "HTTPS" && r.Intn(6) == 0 && c < 1); c++ {
						tgt := rName{Base: pick()}
						resp.Ans = append(resp.Ans, tzRR{Owner: owner, Typ: "CNAME", Data: tgt})
						owner = tgt
					}
					switch typ {
					case "HTTPS":
						switch r.Intn(4) {
						case 0: // alias
							tgt := pick()
							if r.Intn(8) == 0 {
								tgt = ""
							}
							resp.Ans = append(resp.Ans, tzRR{Owner: owner, Typ: "HTTPS", Data: map[string]any{"prio": 0, "target": tgt, "ech": "nil"}})
						default:
							for c := 0; c <= r.Intn(3); c++ {
								prio++
								tgt := ""
								if r.Intn(3) == 0 {
									tgt = pick()
								}
								resp.Ans = append(resp.Ans, tzRR{Owner: owner, Typ: "HTTPS", Data: map[string]any{"prio": prio, "target": tgt, "ech": []string{"nil", "E1", "E2"}[r.Intn(3)]}})
							}
							// priorities inside one rrset in random order
							r.Shuffle(len(resp.Ans), func(a, b int) {
								if resp.Ans[a].Typ == "HTTPS" && resp.Ans[b].Typ == "HTTPS" {
									resp.Ans[a], resp.Ans[b] = resp.Ans[b], resp.Ans[a]
								}
							})
						}
					default:
						for c := 0; c <= r.Intn(2); c++ {
							resp.Ans = append(resp.Ans, tzRR{Owner: owner, Typ: typ, Data: newIP(typ)})
						}
					}
					// poison: records of other owners, anywhere in the answer
					for c := 0; c < r.Intn(3); c++ {
						var p tzRR
						if typ == "HTTPS" {
							prio++
							p = tzRR{Owner: rName{Base: "evil"}, Typ: "HTTPS", Data: map[string]any{"prio": prio, "target": "evil", "ech": "E2"}}
						} else if r.Intn(2) == 0 {
							p = tzRR{Owner: rName{Base: "evil"}, Typ: typ, Data: newIP(typ)}
						} else {
							p = tzRR{Owner: rName{Base: pick()}, Typ: "CNAME", Data: rName{Base: "evil"}}
						}
						at := r.Intn(len(resp.Ans) + 1)
						resp.Ans = append(resp.Ans[:at], append([]tzRR{p}, resp.Ans[at:]...)...)
					}
				}
				if resp.Rcode != 0 || len(resp.Ans) > 0 {
					if resp.Ans == nil {
						resp.Ans = []tzRR{}
					}
					ztab = append(ztab, tzEntry{Q: rQ{Name: name, Typ: typ}, R: resp})
				}
			}
		}
		// address tokens <-> concrete addresses
		ipOf := map[string]string{}
		tokOf := map[string]string{}
		for k := 1; k <= ipn; k++ {
			v4, v6 := fmt.Sprintf("v4-%d", k), fmt.Sprintf("v6-%d", k)
			ipOf[v4], ipOf[v6] = fmt.Sprintf("10.77.%d.%d", k/250, k%250+1), fmt.Sprintf("2001:db8:77::%x", k)
			tokOf[ipOf[v4]], tokOf[ipOf[v6]] = v4, v6
		}
		table := map[string]tzResp{}
		for _, z := range ztab {
			table[strings.ToLower(nmc(z.Q.Name))+"/"+z.Q.Typ] = z.R
		}
		cur = func(id int, name string, qtype int) ([]byte, int) {
			typ := map[int]string{tA: "A", tAAAA: "AAAA", tHTTPS: "HTTPS"}[qtype]
			rs, ok := table[strings.ToLower(name)+"/"+typ]
			if !ok {
				return wResponse(id, name, qtype, 0, nil), 200
			}
			var ans []wRR
			for _, a := range rs.Ans {
				owner := nmc(a.Owner)
				switch a.Typ {
				case "A":
					ans = append(ans, rrA(owner, 60, ipOf[a.Data.(string)]))
				case "AAAA":
					ans = append(ans, rrAAAA(owner, 60, ipOf[a.Data.(string)]))
				case "CNAME":
					ans = append(ans, rrCNAME(owner, 60, nmc(a.Data.(rName))))
				case "HTTPS":
					d := a.Data.(map[string]any)
					p := svcParams{}
					if e := d["ech"].(string); e != "nil" {
						p.ECH = polLists[e]
					}
					tgt := d["target"].(string)
					if tgt != "" {
						tgt = conc(tgt)
					}
					ans = append(ans, rrHTTPS(owner, 60, d["prio"].(int), tgt, p))
				}
			}
			return wResponse(id, name, qtype, rs.Rcode, ans), 200
		}
		srv.takeQueries()
		res, err := ech.NewResolver(srv.url())
		if err != nil {
			t.Fatal(err)
		}
		ctx, cancel := context.WithTimeout(context.Background(), 20*time.Second)
		var got ech.ResolveResult
		var rerr error
		crash := ""
		func() {
			defer func() {
				if p := recover(); p != nil {
					crash = fmt.Sprint(p)
				}
			}()
			got, rerr = res.Resolve(ctx, arg)
		}()
		cancel()
		qs := srv.takeQueries()
		if ztab == nil {
			ztab = []tzEntry{}
		}
		w.Write(Ev{"e": "reset", "scen": Ev{"inp": inp, "ztab": ztab}, "idx": i})
		if crash != "" {
			w.Write(Ev{"e": "crash", "msg": crash})
		}
		// projection of the result
		abs := func(name string) rName {
			name = strings.ToLower(name)
			if name == strings.ToLower(nm.concrete(svcb)) {
				return svcb
			}
			if name == strings.ToLower(host) {
				return rName{Base: "o"}
			}
			return rName{Base: strings.TrimSuffix(name, ".rand.example")}
		}
		ev := Ev{"e": "result", "kind": "ok", "class": "", "port": int(got.Port), "address": []string{}, "https": []Ev{}, "addl": []Ev{}}
		if rerr != nil {
			ev["kind"], ev["class"] = "err", resolveErrClass(rerr)
		} else {
			var addr []string
			for _, ip := range got.Address {
				addr = append(addr, tokOf[ip.String()])
			}
			if addr != nil {
				ev["address"] = addr
			}
			var hs []Ev
			for _, h := range got.HTTPS {
				tgt := ""
				if h.Target != "" {
					tgt = abs(h.Target).Base
				}
				hs = append(hs, Ev{"prio": int(h.Priority), "target": tgt, "ech": classifyECH(nilIfEmpty(h.ECH), "")})
			}
			if hs != nil {
				ev["https"] = hs
			}
			var addl []Ev
			var keys []string
			for k := range got.Additional {
				keys = append(keys, k)
			}
			sort.Strings(keys)
			for _, k := range keys {
				var ips []string
				for _, ip := range got.Additional[k] {
					ips = append(ips, tokOf[ip.String()])
				}
				if len(ips) > 0 {
					addl = append(addl, Ev{"name": abs(k).Base, "ips": ips})
				}
			}
			if addl != nil {
				ev["addl"] = addl
			}
		}
		var ql []Ev
		for _, q := range qs {
			ql = append(ql, Ev{"name": abs(q.Name), "typ": map[int]string{tA: "A", tAAAA: "AAAA", tHTTPS: "HTTPS"}[q.Type]})
		}
		if ql == nil {
			ql = []Ev{}
		}
		ev["queries"] = ql
		w.Write(ev)
		w.Write(Ev{"e": "end"})
	}
}
