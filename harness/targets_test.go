package verifharness

// C15 (direction A): every input TLC enumerated from spec/Targets.tla is built as a real ResolveResult and
// ResolveResult.Targets(network) is compared with the sequence the specification yields; purity is checked by deep
// comparison (including spare slice capacity) and by early termination after every yield.

import (
	"bytes"
	"fmt"
	"net"
	"net/netip"
	"os"
	"reflect"
	"testing"

	"github.com/c2FmZQ/ech"
	"github.com/c2FmZQ/ech/dns"
)

type tgtRec struct {
	Prio      int      `json:"prio"`
	Target    string   `json:"target"`
	Port      int      `json:"port"`
	V4Hint    []string `json:"v4hint"`
	V6Hint    []string `json:"v6hint"`
	Ech       string   `json:"ech"`
	Alpn      []string `json:"alpn"`
	NoDefault bool     `json:"nodefault"`
}
type tgtOut struct {
	Addr string   `json:"addr"`
	Port int      `json:"port"`
	Ech  string   `json:"ech"`
	Alpn []string `json:"alpn"`
}
type tgtCase struct {
	Port  int      `json:"port"`
	Addrs []string `json:"addrs"`
	Https []tgtRec `json:"https"`
	Addl  []string `json:"addl"`
	Net   string   `json:"net"`
	Out   []tgtOut `json:"out"`
}

var tgtIP = map[string]net.IP{
	"v4a": {10, 0, 0, 1}, "v4b": {10, 0, 0, 2}, "v4h": {10, 9, 9, 9}, "v4t": {10, 7, 7, 7},
	"v6a": net.ParseIP("2001:db8::a"), "v6h": net.ParseIP("2001:db8::9"), "v6t": net.ParseIP("2001:db8::7"),
}

func ipList(names []string) []net.IP {
	if len(names) == 0 {
		return nil
	}
	// spare capacity holding sentinel addresses (the caller's own data behind the slice): an append into it overwrites them
	out := make([]net.IP, len(names)+3)
	for i := range out {
		out[i] = net.IP{203, 0, 113, byte(200 + i)}
	}
	for i, n := range names {
		out[i] = bytes.Clone(tgtIP[n])
	}
	return out[:len(names)]
}

const sentinel = "SENTINEL"

// addlForm: how "no addresses known for the target name" is represented when the specification's list is empty -
// 0: key present with an empty list, 1: key absent (what Resolver.Resolve leaves behind), 2: nil map
func buildResult(c *tgtCase) ech.ResolveResult { return buildResultForm(c, 0) }

func buildResultForm(c *tgtCase, addlForm int) ech.ResolveResult {
	r := ech.ResolveResult{Port: uint16(c.Port), Address: ipList(c.Addrs)}
	if len(c.Https) > 0 {
		r.HTTPS = make([]dns.HTTPS, 0, len(c.Https)+2)
	}
	for _, h := range c.Https {
		rec := dns.HTTPS{Priority: uint16(h.Prio), Port: uint16(h.Port), NoDefaultALPN: h.NoDefault, IPv4Hint: ipList(h.V4Hint), IPv6Hint: ipList(h.V6Hint)}
		if h.Target != "" {
			rec.Target = "Target.Example"
		}
		if h.Ech != "nil" {
			rec.ECH = bytes.Clone(polLists[h.Ech])
		}
		// ALPN with spare capacity holding a sentinel: an append into the shared array overwrites it
		al := make([]string, len(h.Alpn), len(h.Alpn)+2)
		copy(al, h.Alpn)
		al[:cap(al)][len(h.Alpn)] = sentinel
		rec.ALPN = al
		r.HTTPS = append(r.HTTPS, rec)
	}
	if c.Addl != nil {
		r.Additional = map[string][]net.IP{"Target.Example": ipList(c.Addl)}
	}
	if len(c.Addl) == 0 {
		switch addlForm {
		case 1:
			r.Additional = map[string][]net.IP{"unrelated.example": {net.ParseIP("198.51.100.99")}}
		case 2:
			r.Additional = nil
		}
	}
	return r
}

func deepCopy(r ech.ResolveResult) ech.ResolveResult {
	o := ech.ResolveResult{Port: r.Port}
	cp := func(l []net.IP) []net.IP {
		if l == nil {
			return nil
		}
		l = l[:cap(l)] // including the spare capacity
		out := make([]net.IP, len(l))
		for i := range l {
			out[i] = bytes.Clone(l[i])
		}
		return out
	}
	o.Address = cp(r.Address)
	for _, h := range r.HTTPS {
		h2 := h
		h2.ALPN = append([]string{}, h.ALPN[:cap(h.ALPN)]...) // including the spare capacity
		h2.IPv4Hint, h2.IPv6Hint, h2.ECH = cp(h.IPv4Hint), cp(h.IPv6Hint), bytes.Clone(h.ECH)
		o.HTTPS = append(o.HTTPS, h2)
	}
	if r.Additional != nil {
		o.Additional = map[string][]net.IP{}
		for k, v := range r.Additional {
			o.Additional[k] = cp(v)
		}
	}
	return o
}

func projTarget(t ech.Target) tgtOut {
	o := tgtOut{Port: int(t.Address.Port()), Ech: classifyECH(t.ECH, ""), Alpn: append([]string{}, t.ALPN...)}
	for name, ip := range tgtIP {
		a, _ := netip.AddrFromSlice(ip)
		if a == t.Address.Addr() {
			o.Addr = name
		}
	}
	if o.Addr == "" {
		o.Addr = t.Address.Addr().String()
	}
	return o
}

func sameOut(a, b tgtOut) bool {
	return a.Addr == b.Addr && a.Port == b.Port && a.Ech == b.Ech && fmt.Sprint(a.Alpn) == fmt.Sprint(append([]string{}, b.Alpn...))
}

func checkTargets(c *tgtCase) (diff string) {
	forms := 1
	if len(c.Addl) == 0 {
		forms = 3
	}
	for f := 0; f < forms; f++ {
		if d := checkTargetsForm(c, f); d != "" {
			return fmt.Sprintf("(Additional form %d) %s", f, d)
		}
	}
	return ""
}

func checkTargetsForm(c *tgtCase, form int) (diff string) {
	defer func() {
		if p := recover(); p != nil {
			diff = fmt.Sprint("panic: ", p)
		}
	}()
	r := buildResultForm(c, form)
	before := deepCopy(r)
	// a consumer that keeps the yielded targets and looks at them after the enumeration
	var kept []ech.Target
	for t := range r.Targets(c.Net) {
		kept = append(kept, t)
	}
	var got []tgtOut
	for _, t := range kept {
		got = append(got, projTarget(t))
	}
	if len(got) != len(c.Out) {
		return fmt.Sprintf("spec yields %d targets %v, code yields %d %v", len(c.Out), c.Out, len(got), got)
	}
	for i := range got {
		if !sameOut(got[i], c.Out[i]) {
			return fmt.Sprintf("target %d: spec %+v, code %+v", i+1, c.Out[i], got[i])
		}
	}
	if after := deepCopy(r); !reflect.DeepEqual(before, after) {
		return "enumerating targets modified the resolution result (incl. spare slice capacity)"
	}
	// one sequence value ranged over again (a retry loop that keeps it), also after an early stop: the same targets
	seq := r.Targets(c.Net)
	for pass := 1; pass <= 3; pass++ {
		n := 0
		for t := range seq {
			if pass == 2 && n == 1 {
				break // the second pass stops after its first target
			}
			if n >= len(c.Out) || !sameOut(projTarget(t), c.Out[n]) {
				return fmt.Sprintf("pass %d over the same sequence value differs at target %d", pass, n+1)
			}
			n++
		}
		if pass != 2 && n != len(c.Out) {
			return fmt.Sprintf("pass %d over the same sequence value yields %d targets, the first pass %d", pass, n, len(c.Out))
		}
	}
	// early termination after every yield: a conforming prefix, and the result still untouched
	for k := 0; k <= len(c.Out); k++ {
		n := 0
		for t := range r.Targets(c.Net) {
			if n == k {
				break
			}
			if !sameOut(projTarget(t), c.Out[n]) {
				return fmt.Sprintf("second enumeration differs at %d", n+1)
			}
			n++
		}
		if n != k {
			return fmt.Sprintf("stopping after %d yields: got %d", k, n)
		}
	}
	if after := deepCopy(r); !reflect.DeepEqual(before, after) {
		return "early-terminated enumeration modified the resolution result"
	}
	return ""
}

func TestTargetsCases(t *testing.T) {
	in, out := os.Getenv("VH_IN"), os.Getenv("VH_OUT")
	if in == "" || out == "" {
		t.Skip("VH_IN/VH_OUT not set")
	}
	cases := readCases[tgtCase](t, in)
	w := newNDWriter(t, out)
	defer w.Close()
	bad := 0
	for i := range cases {
		if d := checkTargets(&cases[i]); d != "" {
			bad++
			if bad <= 40 {
				w.Write(Ev{"case": cases[i], "diff": d})
			}
		}
	}
	// IPv4-mapped spellings (16-byte ::ffff:a.b.c.d, legal in AAAA answers and ipv6hint). Whether such a value is "the same
	// address" as a.b.c.d is not settled by the property, so only what holds under both readings is demanded: an enumeration
	// restricted to one family never offers both spellings of one address (under one reading that is a duplicate, under the
	// other one of the two is outside the family), and every offered address is one of the result's.
	for _, d := range mappedTargets() {
		bad++
		w.Write(Ev{"case": tgtCase{Net: "mapped"}, "diff": d})
	}
	w.Write(Ev{"summary": true, "cases": len(cases), "bad": bad})
}

func mappedTargets() (diffs []string) {
	m := func(a, b, c, d byte) net.IP { return net.IPv4(a, b, c, d).To16() }
	results := []ech.ResolveResult{
		{Port: 443, Address: []net.IP{{10, 0, 0, 1}, m(10, 0, 0, 1), net.ParseIP("2001:db8::a")}},
		{Port: 8443, Address: []net.IP{m(10, 0, 0, 1), {10, 0, 0, 1}}, HTTPS: []dns.HTTPS{{Priority: 1, ALPN: []string{"h2"}, ECH: bytes.Clone(polLists["E1"])}}},
		{Port: 443, HTTPS: []dns.HTTPS{{Priority: 1, Target: "t.example", ECH: bytes.Clone(polLists["E1"])}},
			Additional: map[string][]net.IP{"t.example": {{192, 0, 2, 7}, m(192, 0, 2, 7)}}},
		{Port: 443, HTTPS: []dns.HTTPS{{Priority: 1, IPv4Hint: []net.IP{{192, 0, 2, 9}}, IPv6Hint: []net.IP{m(192, 0, 2, 9)}}}},
	}
	for ri, r := range results {
		known := map[netip.Addr]bool{}
		add := func(ips []net.IP) {
			for _, ip := range ips {
				if a, ok := netip.AddrFromSlice(ip); ok {
					known[a.Unmap()] = true
				}
			}
		}
		add(r.Address)
		for _, h := range r.HTTPS {
			add(h.IPv4Hint)
			add(h.IPv6Hint)
		}
		for _, l := range r.Additional {
			add(l)
		}
		for _, network := range []string{"tcp", "tcp4", "tcp6", "udp4", "udp6"} {
			seen := map[string]netip.Addr{}
			for tg := range r.Targets(network) {
				a := tg.Address.Addr()
				if !known[a.Unmap()] {
					diffs = append(diffs, fmt.Sprintf("mapped result %d, Targets(%q): %v is not an address of the result", ri, network, tg.Address))
				}
				if network == "tcp" {
					continue
				}
				key := fmt.Sprintf("%v|%d|%x|%v", a.Unmap(), tg.Address.Port(), tg.ECH, tg.ALPN)
				if prev, dup := seen[key]; dup && prev != a {
					diffs = append(diffs, fmt.Sprintf("mapped result %d, Targets(%q) offers both %v and %v: two spellings of one address in a one-family enumeration", ri, network, prev, a))
				}
				seen[key] = a
			}
		}
	}
	return diffs
}
