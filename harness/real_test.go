package verifharness

// C01 (direction B): real crypto/tls client <-> NewConn/Conn <-> real crypto/tls backend (no ECH keys) or public-name
// server, over an in-memory transport with a seeded chunker. Each run yields (1) a record-level trace validated
// against spec/TraceEchE2E.tla (EchConn with the observed record classes), (2) a call-level trace validated against
// spec/TraceEchPipe.tla (positions, real record sizes), and (3) the end state compared with EchE2E's Expect.

import (
	"bytes"
	"context"
	"crypto/ecdh"
	"crypto/ecdsa"
	"crypto/elliptic"
	"crypto/rand"
	"crypto/tls"
	"crypto/x509"
	"crypto/x509/pkix"
	"errors"
	"fmt"
	"io"
	"math/big"
	mrand "math/rand"
	"net"
	"os"
	"strconv"
	"strings"
	"sync"
	"testing"
	"time"

	"github.com/c2FmZQ/ech"
)

type realScen struct {
	First   string `json:"first"` // acc | grease (stale config) | plain (no ECH)
	HRR     bool   `json:"hrr"`
	Resume  bool   `json:"resume"`
	CAuth   bool   `json:"cauth"`
	ALPN    int    `json:"alpn"`    // 0 none, 1 [h2], 2 [h2 http/1.1] vs backend [http/1.1 h2]
	NameLen int    `json:"namelen"` // inner server name length
	Chain   int    `json:"chain"`   // approx. certificate chain size in bytes
	Keys    string `json:"keys"`    // K1 | K2K1 | K1K4 | K3K1
	Suite   string `json:"suite"`   // s1 s2 s3
	PQ      bool   `json:"pq"`      // X25519MLKEM768 key share (1.2 KB)
	Expect  struct {
		ClientEch bool   `json:"client_ech_accepted"`
		RoutedOn  string `json:"routed_on"`
		Retry     bool   `json:"retry_configs"`
		HelloRtry bool   `json:"hello_retry"`
	} `json:"expect"`
}

// ---- certificates
type pki struct {
	ca     *x509.Certificate
	caKey  *ecdsa.PrivateKey
	pool   *x509.CertPool
	serial int64
	filler [][]byte // big dummy certificates used to pad chains
	mu     sync.Mutex
	byName map[string]tls.Certificate
}

func newPKI() *pki {
	k, _ := ecdsa.GenerateKey(elliptic.P256(), rand.Reader)
	tmpl := &x509.Certificate{SerialNumber: big.NewInt(1), Subject: pkix.Name{CommonName: "verif CA"}, NotBefore: time.Now().Add(-time.Hour),
		NotAfter: time.Now().Add(24 * time.Hour), IsCA: true, KeyUsage: x509.KeyUsageCertSign, BasicConstraintsValid: true}
	der, _ := x509.CreateCertificate(rand.Reader, tmpl, tmpl, &k.PublicKey, k)
	ca, _ := x509.ParseCertificate(der)
	p := &pki{ca: ca, caKey: k, pool: x509.NewCertPool(), serial: 10, byName: map[string]tls.Certificate{}}
	p.pool.AddCert(ca)
	return p
}

func (p *pki) leaf(name string, client bool, extra int) tls.Certificate {
	p.mu.Lock()
	defer p.mu.Unlock()
	key := fmt.Sprintf("%s/%v/%d", name, client, extra)
	if c, ok := p.byName[key]; ok {
		return c
	}
	k, _ := ecdsa.GenerateKey(elliptic.P256(), rand.Reader)
	p.serial++
	tmpl := &x509.Certificate{SerialNumber: big.NewInt(p.serial), Subject: pkix.Name{CommonName: "leaf"}, NotBefore: time.Now().Add(-time.Hour),
		NotAfter: time.Now().Add(24 * time.Hour), KeyUsage: x509.KeyUsageDigitalSignature,
		ExtKeyUsage: []x509.ExtKeyUsage{x509.ExtKeyUsageServerAuth, x509.ExtKeyUsageClientAuth}}
	if !client {
		tmpl.DNSNames = []string{name}
		if ip := net.ParseIP(name); ip != nil { // a certificate for an IP-literal origin
			tmpl.DNSNames, tmpl.IPAddresses = nil, []net.IP{ip}
		}
	}
	der, err := x509.CreateCertificate(rand.Reader, tmpl, p.ca, &k.PublicKey, p.caKey)
	if err != nil {
		panic(err)
	}
	c := tls.Certificate{Certificate: [][]byte{der}, PrivateKey: k}
	// pad the chain with unrelated (unused) certificates
	size := len(der)
	for size < extra {
		p.serial++
		ft := &x509.Certificate{SerialNumber: big.NewInt(p.serial), Subject: pkix.Name{CommonName: "filler", Organization: []string{strings.Repeat("x", 60)}},
			NotBefore: time.Now().Add(-time.Hour), NotAfter: time.Now().Add(24 * time.Hour), DNSNames: []string{strings.Repeat("f", 60) + ".example", strings.Repeat("g", 60) + ".example"}}
		fd, _ := x509.CreateCertificate(rand.Reader, ft, p.ca, &k.PublicKey, p.caKey)
		c.Certificate = append(c.Certificate, fd)
		size += len(fd)
	}
	p.byName[key] = c
	return c
}

// ---- transports
// chunkPipe wraps one end of a net.Pipe: reads return seeded small chunks, writes are split; counts written bytes.
type chunkPipe struct {
	net.Conn
	mu      sync.Mutex
	r       *mrand.Rand
	written []byte
	pending []byte
}

func (c *chunkPipe) Read(p []byte) (int, error) {
	c.mu.Lock()
	if len(c.pending) == 0 {
		c.mu.Unlock()
		buf := make([]byte, 32768)
		n, err := c.Conn.Read(buf)
		c.mu.Lock()
		c.pending = append(c.pending, buf[:n]...)
		if n == 0 {
			c.mu.Unlock()
			return 0, err
		}
	}
	n := min(len(p), len(c.pending))
	switch c.r.Intn(4) {
	case 0:
		n = 1
	case 1:
		n = 1 + c.r.Intn(n)
	case 2:
		n = min(n, 1+c.r.Intn(9))
	}
	copy(p, c.pending[:n])
	c.pending = c.pending[n:]
	c.mu.Unlock()
	return n, nil
}

func (c *chunkPipe) Write(p []byte) (int, error) {
	n, err := c.Conn.Write(p)
	c.mu.Lock()
	c.written = append(c.written, p[:n]...)
	c.mu.Unlock()
	return n, err
}
func (c *chunkPipe) nWritten() int { c.mu.Lock(); defer c.mu.Unlock(); return len(c.written) }
func (c *chunkPipe) writtenBytes() []byte {
	c.mu.Lock()
	defer c.mu.Unlock()
	return bytes.Clone(c.written)
}

// tapClient records what the TLS client sent.
type tapClient struct {
	net.Conn
	mu   sync.Mutex
	sent []byte
}

func (t *tapClient) Write(p []byte) (int, error) {
	n, err := t.Conn.Write(p)
	t.mu.Lock()
	t.sent = append(t.sent, p[:n]...)
	t.mu.Unlock()
	return n, err
}

// callLog sits between the backend TLS stack and the Conn and logs every call.
type callLog struct {
	net.Conn // the ech.Conn
	mu       sync.Mutex
	calls    []Ev
	readBuf  []byte // everything the backend has read
	wrote    []byte // everything the backend has written
	below    *chunkPipe
	split    *mrand.Rand
}

func (l *callLog) Read(p []byte) (int, error) {
	n, err := l.Conn.Read(p)
	l.mu.Lock()
	l.readBuf = append(l.readBuf, p[:n]...)
	es := "none"
	if err != nil {
		es = "other:" + err.Error()
		if errors.Is(err, io.EOF) {
			es = "eof"
		} else if errors.Is(err, io.ErrClosedPipe) || errors.Is(err, net.ErrClosed) {
			es = "err"
		}
	}
	l.calls = append(l.calls, Ev{"e": "read", "cap": len(p), "n": n, "err": es, "pos": len(l.readBuf)})
	l.mu.Unlock()
	return n, err
}

func (l *callLog) Write(p []byte) (int, error) {
	// split the backend's write at a seeded point to exercise the reassembly
	total := 0
	for len(p) > 0 {
		k := len(p)
		if l.split.Intn(3) == 0 {
			k = 1 + l.split.Intn(len(p))
		}
		chunk := append([]byte{}, p[:k]...) // a buffer the caller reuses once Write has returned
		n, err := l.Conn.Write(chunk)
		for i := range chunk {
			chunk[i] = 0xA5
		}
		l.mu.Lock()
		l.wrote = append(l.wrote, p[:k]...)
		es := "none"
		if err != nil {
			es = "other:" + err.Error()
		}
		l.calls = append(l.calls, Ev{"e": "write", "k": k, "n": n, "err": es, "fwd": l.below.nWritten()})
		l.mu.Unlock()
		total += n
		if err != nil {
			return total, err
		}
		p = p[k:]
	}
	return total, nil
}

// ---- record parsing
type tlsRec struct {
	typ  byte
	msg  byte
	body []byte
	raw  []byte
}

func parseRecords(b []byte) (recs []tlsRec, rest []byte) {
	for len(b) >= 5 {
		l := int(b[3])<<8 | int(b[4])
		if len(b) < 5+l {
			break
		}
		r := tlsRec{typ: b[0], body: b[5 : 5+l], raw: b[:5+l]}
		if l > 0 {
			r.msg = b[5]
		}
		recs = append(recs, r)
		b = b[5+l:]
	}
	return recs, b
}

var hrrMagic = []byte{0xCF, 0x21, 0xAD, 0x74, 0xE5, 0x9A, 0x61, 0x11, 0xBE, 0x1D, 0x8C, 0x02, 0x1E, 0x65, 0xB8, 0x91,
	0xC2, 0xA2, 0x11, 0x16, 0x7A, 0xBB, 0x8C, 0x5E, 0x07, 0x9E, 0x09, 0xE2, 0xC8, 0xA8, 0x33, 0x9C}

func classC(r tlsRec) string {
	switch {
	case r.typ == 22 && r.msg == 1:
		return "CH"
	case r.typ == 22:
		return "HSother"
	case r.typ == 20:
		return "CCS"
	case r.typ == 21:
		return "ALERT"
	case r.typ == 23:
		return "APP"
	}
	return "HSother"
}
func classB(r tlsRec) string {
	switch {
	case r.typ == 22 && r.msg == 2 && len(r.body) >= 38 && bytes.Equal(r.body[6:38], hrrMagic):
		return "HRR"
	case r.typ == 22 && r.msg == 2:
		return "SH"
	case r.typ == 22:
		return "HSother"
	case r.typ == 23:
		return "APP"
	}
	return "CCS"
}

func realName(r *mrand.Rand, n int) string {
	if n <= 1 {
		return "a"
	}
	return randName(r, n)
}

type realEnv struct {
	kr  *keyring
	pki *pki
}

// single-suite real configs for (key name, suite)
func (e *realEnv) config(kid string, cid uint8, suite string, pub string) []byte {
	return encECHConfig(cid, 0x20, e.kr.privs[kid].PublicKey().Bytes(), [][2]uint16{{1, suiteAEAD[suite]}}, 50, []byte(pub))
}

var staleP256Key *ecdh.PrivateKey

func staleP256() *ecdh.PrivateKey {
	if staleP256Key == nil {
		k, err := ecdh.P256().GenerateKey(rand.Reader)
		if err != nil {
			panic(err)
		}
		staleP256Key = k
	}
	return staleP256Key
}

func runReal(env *realEnv, sc realScen, r *mrand.Rand, w *ndWriter, pw *ndWriter, idx int) {
	const public = "Public-K.example.com" // names are compared as the client sent them
	inner := realName(r, sc.NameLen)
	target := env.config("k1", 7, sc.Suite, public)
	var keys []ech.Key
	mkp := func(kid string, cid uint8, pub string) ech.Key {
		return ech.Key{Config: env.config(kid, cid, sc.Suite, pub), PrivateKey: env.kr.privs[kid].Bytes(), SendAsRetry: true}
	}
	mk := func(kid string, cid uint8) ech.Key { return mkp(kid, cid, public) }
	switch sc.Keys {
	case "K2K1":
		keys = []ech.Key{mk("k2", 7), mk("k1", 7)}
	case "K1K4":
		keys = []ech.Key{mk("k1", 7), mk("k4", 8)}
	case "K3K1":
		// another held key with the same config id, published under a different public name
		keys = []ech.Key{mkp("k3", 7, "public-b.example.org"), mk("k1", 7)}
	default:
		keys = []ech.Key{mk("k1", 7)}
	}
	clientCfgBytes := target
	outerName := public
	if sc.First == "grease" { // stale: a key nobody holds any more, same id; the public name has since been renamed in half of the runs
		if idx%2 == 1 {
			outerName = "old-public.example.com"
		}
		clientCfgBytes = env.config("kx", 7, sc.Suite, outerName)
		if idx%3 == 2 { // ... or the old config was for another KEM (DHKEM(P-256)): its enc cannot even seed an X25519 context
			clientCfgBytes = encECHConfig(7, 0x0010, staleP256().PublicKey().Bytes(), [][2]uint16{{1, suiteAEAD[sc.Suite]}}, 50, []byte(outerName))
		}
	}
	var retryWant []byte
	{
		var all []byte
		for _, k := range keys {
			all = append(all, k.Config...)
		}
		retryWant = vec16(nil, all)
	}
	clientALPN := [][]string{nil, {"h2"}, {"h2", "http/1.1"}}[sc.ALPN]
	backendALPN := []string{"http/1.1", "h2"}
	cc := &tls.Config{ServerName: inner, RootCAs: env.pki.pool, NextProtos: clientALPN, MinVersion: tls.VersionTLS13}
	if sc.First != "plain" {
		cc.EncryptedClientHelloConfigList = vec16(nil, clientCfgBytes)
	}
	if sc.Resume {
		cc.ClientSessionCache = tls.NewLRUClientSessionCache(4)
	}
	if sc.CAuth {
		cc.Certificates = []tls.Certificate{env.pki.leaf("client", true, 0)}
	}
	switch {
	case sc.PQ && sc.HRR:
		cc.CurvePreferences = []tls.CurveID{tls.X25519MLKEM768, tls.CurveP384}
	case sc.PQ:
		cc.CurvePreferences = []tls.CurveID{tls.X25519MLKEM768, tls.X25519}
	case sc.HRR:
		cc.CurvePreferences = []tls.CurveID{tls.X25519, tls.CurveP384}
	default:
		cc.CurvePreferences = []tls.CurveID{tls.X25519, tls.CurveP256}
	}
	bc := &tls.Config{Certificates: []tls.Certificate{env.pki.leaf(inner, false, sc.Chain)}, NextProtos: backendALPN, MinVersion: tls.VersionTLS13}
	if sc.HRR {
		bc.CurvePreferences = []tls.CurveID{tls.CurveP384}
	} else if sc.PQ {
		bc.CurvePreferences = []tls.CurveID{tls.X25519MLKEM768, tls.X25519}
	} else {
		bc.CurvePreferences = []tls.CurveID{tls.X25519, tls.CurveP256}
	}
	if sc.CAuth {
		bc.ClientAuth = tls.RequireAnyClientCert
	}
	pc := bc.Clone()
	pc.Certificates = []tls.Certificate{env.pki.leaf(public, false, 0), env.pki.leaf("old-public.example.com", false, 0)}
	pc.EncryptedClientHelloKeys = keys
	pc.ClientAuth = tls.NoClientCert

	rounds := 1
	if sc.Resume {
		rounds = 2
	}
	for round := 0; round < rounds; round++ {
		obs := Ev{"e": "end", "round": round}
		cEnd, sEnd := memPipe()
		tap := &tapClient{Conn: cEnd}
		below := &chunkPipe{Conn: sEnd, r: mrand.New(mrand.NewSource(r.Int63()))}
		type srvRes struct {
			accepted     bool
			connSNI      string
			connALPN     []string
			backendSNI   string
			backendProto string
			resumed      bool
			err          string
			log          *callLog
			conn         *ech.Conn
		}
		resCh := make(chan srvRes, 1)
		go func() {
			var sr srvRes
			defer func() {
				if p := recover(); p != nil {
					sr.err = fmt.Sprint("panic: ", p)
				}
				resCh <- sr
			}()
			ctx, cancel := context.WithTimeout(context.Background(), watchdogLimit())
			defer cancel()
			conn, err := ech.NewConn(ctx, below, keyOptions(keys)...)
			if err != nil {
				sr.err = "NewConn: " + err.Error()
				below.Close()
				return
			}
			sr.conn = conn
			sr.accepted, sr.connSNI, sr.connALPN = conn.ECHAccepted(), conn.ServerName(), conn.ALPNProtos()
			lg := &callLog{Conn: conn, below: below, split: mrand.New(mrand.NewSource(r.Int63()))}
			sr.log = lg
			cfg := pc
			if conn.ECHAccepted() || conn.ServerName() == inner {
				cfg = bc
			}
			srv := tls.Server(lg, cfg)
			srv.SetDeadline(time.Now().Add(watchdogLimit()))
			if err := srv.Handshake(); err != nil {
				sr.err = "backend handshake: " + err.Error()
				srv.Close()
				return
			}
			cs := srv.ConnectionState()
			sr.backendSNI, sr.backendProto, sr.resumed = cs.ServerName, cs.NegotiatedProtocol, cs.DidResume
			buf := make([]byte, 64)
			n, err := srv.Read(buf)
			if err == nil {
				srv.Write(append([]byte("echo:"), buf[:n]...))
			}
			// wait for the client's close
			srv.Read(buf)
			srv.Close()
		}()
		cl := tls.Client(tap, cc)
		cl.SetDeadline(time.Now().Add(watchdogLimit()))
		herr := cl.Handshake()
		var echo string
		if herr == nil {
			cl.Write([]byte("ping"))
			buf := make([]byte, 64)
			n, _ := cl.Read(buf)
			echo = string(buf[:n])
		}
		cst := cl.ConnectionState()
		cl.Close()
		sr := <-resCh
		cEnd.Close()
		sEnd.Close()

		obs["client_err"] = ""
		var rej *tls.ECHRejectionError
		if herr != nil {
			obs["client_err"] = herr.Error()
			if errors.As(herr, &rej) {
				obs["client_err"] = "ech_rejected"
				obs["retry_ok"] = bytes.Equal(rej.RetryConfigList, retryWant)
			}
		}
		obs["client_ech"] = cst.ECHAccepted
		obs["echo"] = echo == "echo:ping"
		obs["server_err"] = sr.err
		obs["conn_accepted"] = sr.accepted
		obs["names_ok"] = sr.connSNI == sr.backendSNI && (sr.err != "" || sr.backendProto == "" || contains(sr.connALPN, sr.backendProto))
		obs["conn_sni_inner"] = sr.connSNI == inner
		obs["conn_sni_public"] = sr.connSNI == outerName
		obs["conn_alpn_ok"] = fmt.Sprint(sr.connALPN) == fmt.Sprint(clientALPN)
		obs["backend_sni_inner"] = sr.backendSNI == inner
		obs["proto"] = sr.backendProto
		obs["resumed"] = sr.resumed
		obs["first_same"] = false
		obs["fwd_ok"] = false
		if _, ok := obs["retry_ok"]; !ok {
			obs["retry_ok"] = false
		}

		// ---- record-level trace (EchConn with observed classes)
		w.Write(Ev{"e": "reset", "scen": Ev{"first": sc.First, "keys": "K1"}, "cfg": sc, "idx": idx, "round": round})
		if sr.log != nil {
			crecs, _ := parseRecords(tap.sent)
			orecs, _ := parseRecords(sr.log.readBuf)
			brecs, _ := parseRecords(sr.log.wrote)
			fwd := below.writtenBytes()
			// order: reconstruct from the call log (positions at which each record completed)
			type rev struct {
				seq int
				ev  Ev
			}
			var evs []rev
			rpos, wpos := 0, 0
			ri, wi := 0, 0
			var rEnds, wEnds []int
			for _, o := range orecs {
				rpos += len(o.raw)
				rEnds = append(rEnds, rpos)
			}
			for _, b := range brecs {
				wpos += len(b.raw)
				wEnds = append(wEnds, wpos)
			}
			rcum, wcum := 0, 0
			for seq, c := range sr.log.calls {
				if c["e"] == "read" {
					rcum += c["n"].(int)
					for ri < len(rEnds) && rEnds[ri] <= rcum {
						same := ri < len(crecs) && len(crecs[ri].raw) == len(orecs[ri].raw) && bytes.Equal(crecs[ri].raw[3:], orecs[ri].raw[3:]) && crecs[ri].raw[0] == orecs[ri].raw[0]
						if ri > 0 {
							evs = append(evs, rev{seq, Ev{"e": "r", "c": classC(orecs[ri]), "same": same, "len": len(orecs[ri].body)}})
						} else {
							obs["first_same"] = same
						}
						ri++
					}
				} else {
					wcum += c["k"].(int)
					for wi < len(wEnds) && wEnds[wi] <= wcum {
						evs = append(evs, rev{seq, Ev{"e": "w", "c": classB(brecs[wi]), "len": len(brecs[wi].body)}})
						wi++
					}
				}
			}
			for _, e := range evs {
				w.Write(e.ev)
			}
			obs["fwd_ok"] = bytes.HasPrefix(sr.log.wrote, fwd)
			obs["records_in"] = len(crecs)
			obs["records_out"] = len(orecs)

			// ---- call-level trace (EchPipe positions)
			ps := pipeScen{Accepted: sr.accepted, CutKind: "eof", TmoAt: -1, Crecs: []pipeRec{}, Brecs: []pipeBRec{}}
			if len(crecs) > 0 && len(orecs) > 0 {
				ps.FirstIn, ps.FirstOut = len(crecs[0].raw), len(orecs[0].raw)
				total := 0
				for i, c := range crecs {
					total += len(c.raw)
					if i == 0 {
						continue
					}
					pr := pipeRec{T: map[string]string{"CH": "CH", "APP": "APP", "HSother": "HS", "CCS": "OTHER", "ALERT": "OTHER"}[classC(c)], Len: len(c.body)}
					if pr.T == "CH" && i < len(orecs) {
						pr.Out = len(orecs[i].raw)
					}
					ps.Crecs = append(ps.Crecs, pr)
				}
				ps.CutAt = total
				for _, b := range brecs {
					ps.Brecs = append(ps.Brecs, pipeBRec{T: map[string]string{"SH": "SH", "HRR": "HRR", "APP": "APP", "HSother": "HS", "CCS": "HS"}[classB(b)], Len: len(b.body)})
				}
				pw.Write(Ev{"e": "reset", "scen": ps, "idx": idx, "round": round, "cfg": sc})
				for _, c := range sr.log.calls {
					if c["e"] == "read" {
						if es := c["err"].(string); es != "none" && es != "eof" {
							// the pipe was torn down by the harness (close) rather than by a scripted cut: not part of the model
							break
						}
						pw.Write(Ev{"e": "read", "cap": c["cap"], "n": c["n"], "err": c["err"], "m": "both"})
					} else {
						if c["err"].(string) != "none" {
							break
						}
						pw.Write(Ev{"e": "write", "k": c["k"], "n": c["n"], "err": c["err"], "fwd": c["fwd"], "wok": true})
					}
				}
				pw.Write(Ev{"e": "end"})
			}
		}
		w.Write(obs)
	}
}

func contains(l []string, s string) bool {
	for _, x := range l {
		if x == s {
			return true
		}
	}
	return false
}

func TestRealStack(t *testing.T) {
	in, out, pout := os.Getenv("VH_IN"), os.Getenv("VH_OUT"), os.Getenv("VH_PIPE_OUT")
	if in == "" || out == "" || pout == "" {
		t.Skip("VH_IN/VH_OUT/VH_PIPE_OUT not set")
	}
	n, _ := strconv.Atoi(envOr("VH_N", "100"))
	env := &realEnv{kr: newKeyring(seed()), pki: newPKI()}
	base := readCases[realScen](t, in)
	w := newNDWriter(t, out)
	defer w.Close()
	pw := newNDWriter(t, pout)
	defer pw.Close()
	r := mrand.New(mrand.NewSource(seed()))
	for i := 0; i < n; i++ {
		sc := base[i%len(base)]
		// the configuration tuple: seeded choice over the quantifier's dimensions
		sc.Resume = r.Intn(3) == 0
		sc.CAuth = r.Intn(3) == 0
		sc.ALPN = r.Intn(3)
		sc.NameLen = []int{1, 9, 63, 64, 200, 253}[r.Intn(6)]
		sc.Chain = []int{500, 4000, 17000, 40000}[r.Intn(4)]
		sc.Keys = []string{"K1", "K2K1", "K1K4", "K3K1"}[r.Intn(4)]
		sc.Suite = []string{"s1", "s2", "s3"}[r.Intn(3)]
		sc.PQ = r.Intn(3) == 0
		runReal(env, sc, r, w, pw, i)
	}
}
