module verifharness

go 1.26

require (
	github.com/c2FmZQ/ech v0.3.6
	github.com/c2FmZQ/ech/publish v0.0.0
	golang.org/x/crypto v0.40.0
)

require (
	github.com/hashicorp/go-cleanhttp v0.5.2 // indirect
	github.com/hashicorp/go-retryablehttp v0.7.8 // indirect
	github.com/hashicorp/golang-lru/v2 v2.0.7 // indirect
	golang.org/x/sys v0.34.0 // indirect
)

replace github.com/c2FmZQ/ech => /repo

replace github.com/c2FmZQ/ech/publish => /repo/publish
