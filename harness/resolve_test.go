package verifharness

// C14 (direction A): every case of spec/Resolve.tla (input form x DNS universe) is served by a local DoH server
// (independent wire encoder, foreign-owner records included) to the real Resolver; the ResolveResult / error class
// and the server's query log are compared with the specification's result and requirements.

import (
	"bytes"
	"context"
	"errors"
	"fmt"
	"net"
	"os"
	"sort"
	"strings"
	"sync"
	"testing"
	"time"

	"github.com/c2FmZQ/ech"
)

type rName struct {
	Pre  string `json:"pre"`
	Base string `json:"base"`
}
type rQ struct {
	Name rName  `json:"name"`
	Typ  string `json:"typ"`
}
type rRR struct {
	Owner rName  `json:"owner"`
	Typ   string `json:"typ"`
	Data  any    `json:"data"`
}
type rResp struct {
	Rcode int   `json:"rcode"`
	Ans   []rRR `json:"ans"`
}
type rZoneEntry struct {
	Q rQ    `json:"q"`
	R rResp `json:"r"`
}
type rSvc struct {
	Prio   int    `json:"prio"`
	Target string `json:"target"`
	Ech    string `json:"ech"`
}
type rAddl struct {
	Name string   `json:"name"`
	Ips  []string `json:"ips"`
}
type rResult struct {
	Kind    string   `json:"kind"`
	Class   string   `json:"class"`
	Address []string `json:"address"`
	Https   []rSvc   `json:"https"`
	Addl    []rAddl  `json:"addl"`
	Port    int      `json:"port"`
}
type rInput struct {
	Id      string `json:"id"`
	Port    int    `json:"port"`
	Scheme  string `json:"scheme"`
	Valid   bool   `json:"valid"`
	Literal string `json:"literal"`
}
type resolveCase struct {
	Inp     rInput       `json:"inp"`
	Hs      string       `json:"hs"`
	As      string       `json:"as"`
	A6s     string       `json:"a6s"`
	Ts      string       `json:"ts"`
	Svcb    rName        `json:"svcb"`
	Zone    []rZoneEntry `json:"zone"`
	Queries []rQ         `json:"queries"`
	Result  rResult      `json:"result"`
	ErrsOK  []string     `json:"errsok"`
}

var baseNames = map[string]string{
	"t": "svc-target.example", "evil": "evil.example", "c": "canonical.example", "unrelated": "unrelated.example",
	"w1": "alias1.example", "w2": "alias2.example", "w3": "alias3.example", "w4": "alias4.example", "w5": "alias5.example", "w6": "alias6.example",
}

var ipTok = map[string][2]string{ // token -> {IPv4, IPv6}
	"o4": {"192.0.2.1", ""}, "o4b": {"192.0.2.2", ""}, "o4c": {"192.0.2.3", ""},
	"o6": {"", "2001:db8::1"}, "o6b": {"", "2001:db8::2"}, "o6c": {"", "2001:db8::3"},
	"x4": {"192.0.2.50", ""}, "x4b": {"192.0.2.51", ""}, "x4c": {"192.0.2.52", ""}, "x6": {"", "2001:db8::50"}, "x6b": {"", "2001:db8::51"}, "x6c": {"", "2001:db8::52"},
	"t4": {"198.51.100.4", ""}, "t4b": {"198.51.100.5", ""}, "t4c": {"198.51.100.6", ""}, "t6": {"", "2001:db8:7::6"}, "t6b": {"", "2001:db8:7::7"}, "t6c": {"", "2001:db8:7::8"},
	"evil1": {"203.0.113.66", "2001:db8:bad::66"}, "evil2": {"203.0.113.67", "2001:db8:bad::67"}, "evil9": {"203.0.113.99", "2001:db8:bad::99"},
}

// the concrete input string and origin host name of each input form
func inputForm(id string) (arg, host, scheme string) {
	host = "origin.example"
	long := func(n int) string { // a valid name of exactly n bytes ending in .example
		s := "example"
		for len(s) < n {
			k := min(63, n-len(s)-1)
			if k <= 0 {
				s = "x" + s
				continue
			}
			s = strings.Repeat("l", k) + "." + s
		}
		return s
	}
	switch id {
	case "host":
		return host, host, "https"
	case "hostdot": // fully qualified spellings of the same name
		return host + ".", host, "https"
	case "hostdotport":
		return host + ".:8443", host, "https"
	case "httpsdot":
		return "https://" + host + "./index.html", host, "https"
	case "foodotport":
		return "foo://" + host + ".:123", host, "foo"
	case "host443":
		return host + ":443", host, "https"
	case "host80":
		return host + ":80", host, "https"
	case "host8443":
		return host + ":8443", host, "https"
	case "host08443":
		return host + ":08443", host, "https"
	case "https008443":
		return "https://" + host + ":008443/x", host, "https"
	case "host0443":
		return host + ":0443", host, "https"
	case "https":
		return "https://" + host, host, "https"
	case "upper":
		return "HTTPS://" + host, host, "https"
	case "httpport":
		return "http://" + host + ":8080", host, "https"
	case "foo123":
		return "foo://" + host + ":123", host, "foo"
	case "foo":
		return "foo://" + host, host, "foo"
	case "httpspath":
		return "https://" + host + ":443/some/path?q=1", host, "https"
	case "scheme62":
		s := "s" + strings.Repeat("a", 61)
		return s + "://" + host + ":123", host, s
	case "scheme63":
		s := "s" + strings.Repeat("a", 62)
		return s + "://" + host + ":123", host, s
	case "scheme300":
		s := "s" + strings.Repeat("a", 299)
		return s + "://" + host + ":123", host, s
	case "name253":
		h := long(253)
		return h, h, "https"
	case "name256":
		h := long(256)
		return h, h, "https"
	case "label64":
		h := strings.Repeat("l", 64) + ".example"
		return h, h, "https"
	case "svcbTooLong":
		h := long(250)
		return h + ":8443", h, "https"
	case "ip4":
		return "192.0.2.7", "", ""
	case "ip4port":
		return "192.0.2.7:8443", "", ""
	case "ip6":
		return "[2001:db8::77]:443", "", ""
	case "localhost":
		return "localhost", "", ""
	}
	return id, host, "https"
}

type nameMap struct {
	host, scheme string
	port         int
}

func (m nameMap) concrete(n rName) string {
	base := baseNames[n.Base]
	if n.Base == "o" {
		base = m.host
	}
	switch n.Pre {
	case "port+scheme":
		return fmt.Sprintf("_%d._%s.%s", m.port, m.scheme, base)
	case "scheme":
		return fmt.Sprintf("_%s.%s", m.scheme, base)
	}
	return base
}

func resolveErrClass(err error) string {
	switch {
	case err == nil:
		return "none"
	case errors.Is(err, ech.ErrInvalidName):
		return "invalid_name"
	case errors.Is(err, ech.ErrFormatError):
		return "format_error"
	case errors.Is(err, ech.ErrServerFailure):
		return "server_failure"
	case errors.Is(err, ech.ErrNonExistentDomain):
		return "nxdomain"
	case errors.Is(err, ech.ErrNotImplemented):
		return "not_implemented"
	case errors.Is(err, ech.ErrQueryRefused):
		return "refused"
	}
	return "other"
}

func ipToken(ip net.IP) string {
	for tok, v := range ipTok {
		for _, s := range v {
			if s != "" && net.ParseIP(s).Equal(ip) {
				return tok
			}
		}
	}
	return ip.String()
}

func checkResolveCase(c *resolveCase, srv *dohServer, setZone func(func(id int, name string, qtype int) ([]byte, int))) (diff string) {
	defer func() {
		if p := recover(); p != nil {
			diff = fmt.Sprint("panic: ", p)
		}
	}()
	arg, host, scheme := inputForm(c.Inp.Id)
	nm := nameMap{host: host, scheme: scheme, port: c.Inp.Port}
	typeNum := map[string]int{"A": tA, "AAAA": tAAAA, "HTTPS": tHTTPS, "CNAME": tCNAME}
	table := map[string]rResp{}
	for _, z := range c.Zone {
		table[strings.ToLower(nm.concrete(z.Q.Name))+"/"+z.Q.Typ] = z.R
	}
	setZone(func(id int, name string, qtype int) ([]byte, int) {
		typ := map[int]string{tA: "A", tAAAA: "AAAA", tHTTPS: "HTTPS"}[qtype]
		r, ok := table[strings.ToLower(name)+"/"+typ]
		if !ok {
			return wResponse(id, name, qtype, 0, nil), 200
		}
		var ans []wRR
		for _, a := range r.Ans {
			owner := nm.concrete(a.Owner)
			switch a.Typ {
			case "A", "AAAA":
				tok := a.Data.(string)
				v := ipTok[tok]
				if a.Typ == "A" {
					ans = append(ans, rrA(owner, 60, v[0]))
				} else {
					ans = append(ans, rrAAAA(owner, 60, v[1]))
				}
			case "CNAME":
				d := a.Data.(map[string]any)
				ans = append(ans, rrCNAME(owner, 60, nm.concrete(rName{Pre: d["pre"].(string), Base: d["base"].(string)})))
			case "HTTPS":
				d := a.Data.(map[string]any)
				p := svcParams{}
				if e := d["ech"].(string); e != "nil" {
					p.ECH = polLists[e]
				}
				tgt := d["target"].(string)
				if tgt != "" {
					tgt = nm.concrete(rName{Base: tgt})
				}
				ans = append(ans, rrHTTPS(owner, 60, int(d["prio"].(float64)), tgt, p))
			}
		}
		_ = typeNum
		return wResponse(id, name, qtype, r.Rcode, ans), 200
	})
	srv.takeQueries()
	res, err := ech.NewResolver(srv.url())
	if err != nil {
		return "NewResolver: " + err.Error()
	}
	ctx, cancel := context.WithTimeout(context.Background(), 20*time.Second)
	defer cancel()
	got, rerr := res.Resolve(ctx, arg)
	qs := srv.takeQueries()
	if envError(rerr) {
		return "ENV: " + rerr.Error()
	}

	want := c.Result
	judge := func(got ech.ResolveResult, rerr error) string {
		if want.Kind == "err" {
			cl := resolveErrClass(rerr)
			okc := cl == want.Class
			for _, a := range c.ErrsOK { // when several needed lookups fail, any of their errors may be reported
				okc = okc || cl == a
			}
			if !okc {
				return fmt.Sprintf("spec says error %s %v, code returned %s (result %+v)", want.Class, c.ErrsOK, cl, got)
			}
		} else {
			if rerr != nil {
				return fmt.Sprintf("spec says success, code returned %v", rerr)
			}
			if int(got.Port) != want.Port {
				return fmt.Sprintf("Port: spec %d, code %d", want.Port, got.Port)
			}
			// addresses
			var gotAddr []string
			for _, ip := range got.Address {
				gotAddr = append(gotAddr, ipToken(ip))
			}
			wantAddr := append([]string{}, want.Address...)
			switch c.Inp.Literal {
			case "lit4":
				wantAddr = []string{"192.0.2.7"}
			case "lit6":
				wantAddr = []string{"2001:db8::77"}
			case "loopback":
				wantAddr = []string{"127.0.0.1", "::1"}
			}
			// the order of the addresses is not part of the property
			ga, wa := append([]string{}, gotAddr...), append([]string{}, wantAddr...)
			sort.Strings(ga)
			sort.Strings(wa)
			if fmt.Sprint(ga) != fmt.Sprint(wa) {
				return fmt.Sprintf("Address: spec %v, code %v", wantAddr, gotAddr)
			}
			// HTTPS records, in priority order
			if len(got.HTTPS) != len(want.Https) {
				return fmt.Sprintf("HTTPS: spec %+v, code %+v", want.Https, got.HTTPS)
			}
			for i, h := range got.HTTPS {
				w := want.Https[i]
				wt := ""
				if w.Target != "" {
					wt = nm.concrete(rName{Base: w.Target})
				}
				if int(h.Priority) != w.Prio || h.Target != wt || classifyECH(nilIfEmpty(h.ECH), "") != w.Ech {
					return fmt.Sprintf("HTTPS[%d]: spec %+v, code prio=%d target=%q ech=%s", i, w, h.Priority, h.Target, classifyECH(nilIfEmpty(h.ECH), ""))
				}
			}
			// additional
			wantAddl := map[string][]string{}
			for _, a := range want.Addl {
				if len(a.Ips) > 0 {
					wantAddl[nm.concrete(rName{Base: a.Name})] = a.Ips
				}
			}
			gotAddl := map[string][]string{}
			for k, v := range got.Additional {
				for _, ip := range v {
					gotAddl[k] = append(gotAddl[k], ipToken(ip))
				}
			}
			if fmt.Sprint(sortedMap(gotAddl)) != fmt.Sprint(sortedMap(wantAddl)) {
				return fmt.Sprintf("Additional: spec %v, code %v", wantAddl, gotAddl)
			}
		}
		return ""
	}
	if d := judge(got, rerr); d != "" {
		return d
	}
	// the same lookup again, twice, through the same Resolver (its cache now holds whatever the first call left there):
	// the DNS data has not changed, so the outcome - result or documented error - is the same every time
	for k := 2; k <= 3; k++ {
		g2, e2 := res.Resolve(ctx, arg)
		if envError(e2) {
			return "ENV: " + e2.Error()
		}
		if d := judge(g2, e2); d != "" {
			return fmt.Sprintf("call %d of the same lookup on the same Resolver: %s", k, d)
		}
	}
	srv.takeQueries()
	// the query log: requirements, not the exact sequence
	allowed := map[string]bool{}
	for _, b := range []string{"o", "t", "w1", "w2", "w3", "w4", "w5", "w6"} {
		allowed[strings.ToLower(nm.concrete(rName{Base: b}))] = true
	}
	allowed[strings.ToLower(nm.concrete(c.Svcb))] = true
	nHTTPS := 0
	for _, q := range qs {
		if !allowed[strings.ToLower(q.Name)] {
			return fmt.Sprintf("query for %q (type %d): not an RFC 9460 name of this lookup", q.Name, q.Type)
		}
		if q.Type == tHTTPS {
			nHTTPS++
		}
		for _, l := range strings.Split(q.Name, ".") {
			if len(l) > 63 || len(l) == 0 {
				return fmt.Sprintf("query with an illegal label: %q", q.Name)
			}
		}
	}
	if nHTTPS > 4 || len(qs) > 10 {
		return fmt.Sprintf("%d queries (%d HTTPS): more than the bound", len(qs), nHTTPS)
	}
	if want.Kind == "err" && want.Class == "invalid_name" && len(qs) > 0 {
		return "an invalid name was queried"
	}
	if c.Inp.Literal != "" && len(qs) > 0 {
		return "a literal address was queried"
	}
	return ""
}

func nilIfEmpty(b []byte) []byte {
	if len(b) == 0 {
		return nil
	}
	return b
}

func sortedMap(m map[string][]string) []string {
	var out []string
	for k, v := range m {
		out = append(out, k+"="+strings.Join(v, ","))
	}
	sort.Strings(out)
	return out
}

func TestResolveCases(t *testing.T) {
	in, out := os.Getenv("VH_IN"), os.Getenv("VH_OUT")
	if in == "" || out == "" {
		t.Skip("VH_IN/VH_OUT not set")
	}
	cases := readCases[resolveCase](t, in)
	w := newNDWriter(t, out)
	defer w.Close()
	// a few servers in parallel
	const par = 8
	type job struct{ i int }
	jobs := make(chan int)
	results := make([]string, len(cases))
	var wg sync.WaitGroup
	for p := 0; p < par; p++ {
		wg.Add(1)
		go func() {
			defer wg.Done()
			var mu sync.Mutex
			var cur func(id int, name string, qtype int) ([]byte, int)
			srv := newDoHServer(func(id int, name string, qtype int) ([]byte, int) {
				mu.Lock()
				f := cur
				mu.Unlock()
				return f(id, name, qtype)
			})
			defer srv.Close()
			for i := range jobs {
				results[i] = checkResolveCase(&cases[i], srv, func(f func(id int, name string, qtype int) ([]byte, int)) {
					mu.Lock()
					cur = f
					mu.Unlock()
				})
			}
		}()
	}
	for i := range cases {
		jobs <- i
	}
	close(jobs)
	wg.Wait()
	bad, env := 0, 0
	for i, d := range results {
		if strings.HasPrefix(d, "ENV: ") {
			env++
			continue
		}
		if d != "" {
			bad++
			if bad <= 40 {
				c := cases[i]
				w.Write(Ev{"key": fmt.Sprintf("%s/%s/%s/%s/%s", c.Inp.Id, c.Hs, c.As, c.A6s, c.Ts), "diff": d, "case": c})
			}
		}
	}
	w.Write(Ev{"summary": true, "cases": len(cases), "bad": bad, "env": env})
}

func TestInputFormLengths(t *testing.T) {
	for id, n := range map[string]int{"name253": 253, "name256": 256} {
		if _, h, _ := inputForm(id); len(h) != n {
			t.Fatalf("%s: host length %d, want %d", id, len(h), n)
		}
	}
}

// A compressed response larger than 1 KiB in which a record of another owner is named by a compression pointer to an
// offset above 1023: the record belongs to the name at THAT offset (pointers are 14 bits), not to the question name.
func TestResolveBigCompressed(t *testing.T) {
	out := os.Getenv("VH_OUT")
	if out == "" {
		t.Skip("VH_OUT not set")
	}
	w := newNDWriter(t, out)
	defer w.Close()
	build := func(id int, qtype int, evilAt int) []byte {
		m := u16(id)
		m = append(m, 0x81, 0x80, 0, 1, 0, 0, 0, 0, 0, 0)
		m = append(m, wName("origin.example")...) // at offset 12
		m = append(m, u16(qtype)...)
		m = append(m, u16(1)...)
		n := 0
		rr := func(owner []byte, typ int, data []byte) {
			m = append(m, owner...)
			m = append(m, u16(typ)...)
			m = append(m, u16(1)...)
			m = append(m, u32(60)...)
			m = append(m, u16(len(data))...)
			m = append(m, data...)
			n++
		}
		for len(m) < evilAt { // filler records owned by the question name, until the other name starts exactly at evilAt
			left := evilAt - len(m)
			k := min(left, 250)
			if left-k > 0 && left-k < 14 {
				k = left - 14
			}
			rr([]byte{0xc0, 12}, 16, append([]byte{byte(k - 13)}, bytes.Repeat([]byte{'f'}, k-13)...))
		}
		ip := func(s string) []byte {
			if qtype == tA {
				return net.ParseIP(s).To4()
			}
			if strings.HasPrefix(s, "192.0.2.") {
				return net.ParseIP("2001:db8:1::" + s[len(s)-2:]).To16()
			}
			return net.ParseIP("2001:db8:bad::" + s[len(s)-2:]).To16()
		}
		rr(wName("evil.example"), qtype, ip("203.0.113.66"))                        // spelled out, starting at evilAt
		rr([]byte{0xc0 | byte(evilAt>>8), byte(evilAt)}, qtype, ip("203.0.113.67")) // the same owner, by pointer
		rr([]byte{0xc0, 12}, qtype, ip("192.0.2.11"))                               // the question name's own record
		m[6], m[7] = byte(n>>8), byte(n)
		return m
	}
	bad := 0
	for _, evilAt := range []int{1036, 1024 + 12, 2048 + 12, 4096 + 12, 8192 + 12} {
		srv := newDoHServer(func(id int, name string, qtype int) ([]byte, int) {
			if qtype == tHTTPS || name != "origin.example" {
				return wResponse(id, name, qtype, 0, nil), 200
			}
			return build(id, qtype, evilAt), 200
		})
		res, _ := ech.NewResolver(srv.url())
		ctx, cancel := context.WithTimeout(context.Background(), 10*time.Second)
		rr, err := res.Resolve(ctx, "origin.example")
		cancel()
		srv.Close()
		d := ""
		switch {
		case envError(err):
			w.Write(Ev{"summary": true, "env": 1})
			return
		case err != nil:
			d = "a legal compressed response is refused: " + err.Error()
		default:
			for _, a := range rr.Address {
				if s := a.String(); strings.HasPrefix(s, "203.0.113.") || strings.HasPrefix(s, "2001:db8:bad:") {
					d = fmt.Sprintf("address %s of another owner name (reached by a compression pointer to offset %d) is used for the name asked", s, evilAt)
				}
			}
			if d == "" && len(rr.Address) != 2 {
				d = fmt.Sprintf("addresses %v: the name's own A and AAAA records are 192.0.2.11 and 2001:db8:1::11", rr.Address)
			}
		}
		if d != "" {
			bad++
			w.Write(Ev{"key": fmt.Sprint(evilAt), "diff": d})
		}
	}
	w.Write(Ev{"summary": true, "cases": 5, "bad": bad})
}
