package verifharness

// C12 (c)(d)(e): structural damage of specification-generated messages, 64 KiB worst cases, and the resolver.

import (
	"bytes"
	"context"
	"fmt"
	"net"
	"os"
	"runtime"
	"strings"
	"sync"
	"testing"
	"time"

	"github.com/c2FmZQ/ech"
	"github.com/c2FmZQ/ech/dns"
)

func decodeGuarded(b []byte) (m *dns.Message, diff string, alloc uint64, d time.Duration) {
	var m0, m1 runtime.MemStats
	runtime.ReadMemStats(&m0)
	t0 := time.Now()
	msg, _, status := decodeWithWatchdog(b, 3*time.Second)
	d = time.Since(t0)
	runtime.ReadMemStats(&m1)
	alloc = m1.TotalAlloc - m0.TotalAlloc
	if status != "" {
		return nil, status, alloc, d
	}
	return msg, "", alloc, d
}

// typeOK: record data has the Go type implied by the record type (what resolve.go's type assertions rely on)
func typeOK(m *dns.Message) string {
	for _, sec := range [][]dns.RR{m.Answer, m.Authority, m.Additional} {
		for _, rr := range sec {
			ok := true
			switch rr.Type {
			case 1, 28:
				_, ok = rr.Data.(net.IP)
			case 2, 5, 12:
				_, ok = rr.Data.(string)
			case 41:
				_, ok = rr.Data.([]dns.Option)
			case 65:
				_, ok = rr.Data.(dns.HTTPS)
			case 15:
				_, ok = rr.Data.(dns.MX)
			case 33:
				_, ok = rr.Data.(dns.SRV)
			}
			if !ok {
				return fmt.Sprintf("record of type %d decoded with Go type %T", rr.Type, rr.Data)
			}
		}
	}
	return ""
}

func TestDnsAdversarial(t *testing.T) {
	in, out := os.Getenv("VH_IN"), os.Getenv("VH_OUT")
	if in == "" || out == "" {
		t.Skip("VH_IN/VH_OUT not set")
	}
	cases := readCases[wireCase](t, in)
	w := newNDWriter(t, out)
	defer w.Close()
	nEval, bad := 0, 0
	report := func(kind, key, diff string, b []byte) {
		bad++
		if bad <= 30 {
			w.Write(Ev{"kind": kind, "key": key, "diff": diff, "msg": fmt.Sprintf("%x", b[:min(len(b), 200)]), "len": len(b)})
		}
		if diff == "hang" {
			// the hung decoder keeps spinning (and possibly allocating) in its goroutine: stop here
			w.Write(Ev{"summary": true, "evaluations": nEval, "resolver_runs": 0, "bad": bad, "stopped_on_hang": true})
			w.Close()
			exitNow()
		}
	}
	// a lookup runs under a real-time watchdog on top of its context: code that spins (and so never looks at its context)
	// cannot be stopped - it is reported and the driver ends
	resolveGuarded := func(kind, key string, res *ech.Resolver, ctx context.Context, name string, b []byte) (ech.ResolveResult, error) {
		type out struct {
			rr  ech.ResolveResult
			err error
			p   any
		}
		ch := make(chan out, 1)
		go func() {
			var o out
			defer func() { o.p = recover(); ch <- o }()
			o.rr, o.err = res.Resolve(ctx, name)
		}()
		select {
		case o := <-ch:
			if o.p != nil {
				panic(o.p)
			}
			return o.rr, o.err
		case <-time.After(5*time.Second + watchdogLimit()):
			noteHang()
			w.Write(Ev{"kind": kind, "key": key, "diff": "Resolver.Resolve does not return: its 5 s context ended long ago and the DoH server has answered (spinning or deadlocked)", "msg": fmt.Sprintf("%x", b[:min(len(b), 200)]), "len": len(b)})
			report(kind, key, "hang", b)
		}
		return ech.ResolveResult{}, nil
	}
	check := func(kind, key string, b []byte) *dns.Message {
		nEval++
		m, diff, alloc, d := decodeGuarded(b)
		switch {
		case diff != "":
			report(kind, key, diff, b)
			return nil
		case alloc > uint64(256*len(b)+(128<<10)) && len(b) < 4000:
			report(kind, key, fmt.Sprintf("decoding %d bytes allocated %d bytes", len(b), alloc), b)
		case d > 2*time.Second:
			report(kind, key, fmt.Sprintf("decoding %d bytes took %v", len(b), d), b)
		}
		if m != nil {
			if td := typeOK(m); td != "" {
				report(kind, key, td, b)
			}
		}
		return m
	}
	// a local DoH server returns each decodable message verbatim to a Resolver (type assertions in resolve.go)
	var body []byte
	srv := newDoHServer(func(id int, name string, qtype int) ([]byte, int) { return body, 200 })
	defer srv.Close()
	resolverRuns := 0
	drive := func(kind, key string, b []byte) {
		if resolverRuns > 1500 {
			return
		}
		resolverRuns++
		body = b
		func() {
			defer func() {
				if p := recover(); p != nil {
					report(kind+"-resolve", key, fmt.Sprint("Resolver.Resolve panicked on this DoH response: ", p), b)
				}
			}()
			res, _ := ech.NewResolver(srv.url())
			ctx, cancel := context.WithTimeout(context.Background(), 5*time.Second)
			defer cancel()
			resolveGuarded(kind+"-resolve", key, res, ctx, "a.bc", b)
		}()
	}
	for ci := range cases {
		b := ib(cases[ci].Bytes)
		cb := ib(cases[ci].Cbytes)
		key := fmt.Sprint(ci)
		// (c) every truncation, every count field +-1, every byte of the header region perturbed, RDLENGTH +-1
		for k := 0; k < len(b); k++ {
			check("trunc", key, b[:k])
		}
		for _, src := range [][]byte{b, cb} {
			for pos := 4; pos < 12 && pos < len(src); pos++ {
				for _, delta := range []int{1, -1, 0x40, 0xff} {
					m := append([]byte{}, src...)
					m[pos] = byte(int(m[pos]) + delta)
					if delta == 0xff {
						m[pos] = 0xff // counts of 0xffxx / 0xxxff: nothing may be sized from an untrusted count
					}
					if dm := check("count", key, m); dm != nil {
						drive("count", key, m)
					}
				}
			}
			// length-like bytes anywhere in the body
			step := max(1, len(src)/40)
			for pos := 12; pos < len(src); pos += step {
				for _, v := range []byte{0, 0xc0, 0xff, src[pos] + 1, src[pos] - 1} {
					m := append([]byte{}, src...)
					m[pos] = v
					if dm := check("byte", key, m); dm != nil && ci%5 == 0 {
						drive("byte", key, m)
					}
				}
			}
			if dm := check("valid", key, src); dm != nil {
				drive("valid", key, src)
			}
		}
	}
	// a 12-byte message whose four counts are all 0xffff
	check("counts-ffff", "hdr", []byte{0, 0, 0x81, 0x80, 0xff, 0xff, 0xff, 0xff, 0xff, 0xff, 0xff, 0xff})
	// (c') HTTPS / SVCB parameters with every key and awkward value lengths, as the last thing in the message and
	// followed by another record (RFC 9460: ipv4hint is a multiple of 4, ipv6hint of 16, port is 2 bytes)
	for _, typ := range []int{65, 64} {
		for _, key := range []int{0, 1, 2, 3, 4, 5, 6, 7, 65535} {
			for _, vl := range []int{0, 1, 2, 3, 4, 5, 8, 15, 16, 17, 20, 32, 36, 48} {
				for _, follow := range []bool{false, true} {
					val := make([]byte, vl)
					for i := range val {
						val[i] = byte(i + 1)
					}
					if key == 1 && vl > 0 { // alpn: one protocol id filling the value
						val[0] = byte(vl - 1)
					}
					rd := append(u16(1), 0) // priority 1, target "."
					rd = append(rd, u16(key)...)
					rd = append(rd, u16(vl)...)
					rd = append(rd, val...)
					an := 1
					m := []byte{0, 0, 0x81, 0x80, 0, 1, 0, byte(an), 0, 0, 0, 0}
					if follow {
						m[7] = 2
					}
					m = append(m, wName("a.bc")...)
					m = append(m, u16(typ)...)
					m = append(m, u16(1)...)
					m = append(m, wRR{Owner: "a.bc", Type: typ, TTL: 60, Data: rd}.bytes()...)
					if follow {
						m = append(m, rrA("a.bc", 60, "192.0.2.1").bytes()...)
					}
					key2 := fmt.Sprintf("t%d/k%d/l%d/%v", typ, key, vl, follow)
					dm := check("svcparam", key2, m)
					if typ == 65 {
						malformed := (key == 4 && vl%4 != 0) || (key == 6 && vl%16 != 0) || (key == 3 && vl < 2)
						if malformed && dm != nil {
							report("svcparam", key2, "an HTTPS record with a malformed hint/port parameter was decoded without error", m)
						}
						if !malformed && dm == nil && key != 1 {
							report("svcparam", key2, "a well-formed HTTPS record was rejected", m)
						}
					}
					if dm != nil {
						drive("svcparam", key2, m)
					}
				}
			}
		}
	}
	// (c2) RDATA of every record type the decoder might know (type codes 0..300, 32768, 65535), as the last record and
	// followed by another one: every length 0..24 and a few longer ones, with byte patterns that hit the value ranges
	// (all zero, all 0xff, nibbles >= 10, counting bytes, a compression pointer at every even offset)
	{
		types := []int{}
		for t := 0; t <= 300; t++ {
			types = append(types, t)
		}
		types = append(types, 32768, 32769, 65280, 65535)
		pats := []func(i, n int) byte{
			func(i, n int) byte { return 0 },
			func(i, n int) byte { return 0xff },
			func(i, n int) byte { return 0x1a + byte(i)*0x11 },
			func(i, n int) byte { return byte(i + 1) },
			func(i, n int) byte {
				if i%2 == 0 {
					return 0xc0
				}
				return 12
			},
			func(i, n int) byte { return byte(n - i) },
		}
		lens := []int{}
		for l := 0; l <= 24; l++ {
			lens = append(lens, l)
		}
		lens = append(lens, 31, 32, 33, 64, 255, 256)
		for _, typ := range types {
			for _, l := range lens {
				for pi, pat := range pats {
					rd := make([]byte, l)
					for i := range rd {
						rd[i] = pat(i, l)
					}
					for _, follow := range []bool{false, true} {
						if follow && l > 24 {
							continue
						}
						m := []byte{0, 0, 0x81, 0x80, 0, 1, 0, 1, 0, 0, 0, 0}
						if follow {
							m[7] = 2
						}
						m = append(m, wName("a.bc")...)
						m = append(m, u16(typ)...)
						m = append(m, u16(1)...)
						m = append(m, wRR{Owner: "a.bc", Type: typ, TTL: 60, Data: rd}.bytes()...)
						if follow {
							m = append(m, rrA("a.bc", 60, "192.0.2.1").bytes()...)
						}
						key := fmt.Sprintf("t%d/l%d/p%d/%v", typ, l, pi, follow)
						if dm := check("rdata", key, m); dm != nil && (typ*7+l+pi)%97 == 0 {
							drive("rdata", key, m)
						}
					}
				}
			}
		}
	}
	// (c3) a response cut at every offset of its question section and just after it, returned to a Resolver: DoH hands
	// whatever DecodeMessage returns to the resolver, so "(nil, nil)" is as bad as a panic
	{
		q := wResponse(0, "a.bc", tA, 0, nil)
		for k := 0; k <= len(q); k++ {
			for _, qd := range []byte{1, 2} {
				m := append([]byte{}, q[:k]...)
				if len(m) > 5 {
					m[5] = qd
				}
				key := fmt.Sprintf("cut%d/qd%d", k, qd)
				dm, err, status := decodeWithWatchdog(m, 3*time.Second)
				nEval++
				switch {
				case status != "":
					report("question", key, status, m)
				case dm == nil && err == nil:
					report("question", key, "DecodeMessage returned neither a message nor an error", m)
				}
				drive("question", key, m)
			}
		}
	}
	// (d) 64 KiB worst cases for the polynomial bound
	{
		// a chain of 16000 pointers, each pointing to the previous one, ending in a label
		m := []byte{0, 0, 0x81, 0x80, 0, 1, 0, 0, 0, 0, 0, 0}
		m = append(m, 1, 'a', 0)
		for len(m) < 60000 {
			t := len(m) - 2
			if len(m) == 15 {
				t = 12
			}
			m = append(m, 0xc0|byte(t>>8), byte(t))
		}
		// question name = the last pointer
		q := append([]byte{}, m[:12]...)
		_ = q
		t0 := time.Now()
		check("chain64k", "0", m)
		if d := time.Since(t0); d > 2*time.Second {
			report("chain64k", "0", fmt.Sprintf("took %v", d), m[:64])
		}
		// a long label run referenced by many records
		run := []byte{}
		for i := 0; i < 120; i++ {
			run = append(run, 1, 'x')
		}
		run = append(run, 0)
		msg := []byte{0, 0, 0x81, 0x80, 0, 1, 0x0a, 0x00, 0, 0, 0, 0}
		msg = append(msg, run...)
		msg = append(msg, 0, 1, 0, 1)
		for i := 0; i < 0x0a00; i++ {
			msg = append(msg, 0xc0, 12, 0, 1, 0, 1, 0, 0, 0, 60, 0, 4, 10, 0, 0, 1)
		}
		t0 = time.Now()
		check("fanout", "0", msg)
		if d := time.Since(t0); d > 2*time.Second {
			report("fanout", "0", fmt.Sprintf("took %v", d), msg[:64])
		}
	}
	// partial failures while the resolver consumes answers: each of the lookups it makes for a service-mode target and for
	// the origin fails in turn (SERVFAIL / NXDOMAIN / an undecodable body) while the others succeed
	{
		lookups := []string{"https", "tA", "tAAAA", "oA", "oAAAA"}
		for _, failing := range lookups {
			for _, how := range []int{2, 3, -1} {
				srv2 := newDoHServer(func(id int, name string, qtype int) ([]byte, int) {
					which := ""
					switch {
					case qtype == tHTTPS:
						which = "https"
					case strings.HasPrefix(name, "svc-target") && qtype == tA:
						which = "tA"
					case strings.HasPrefix(name, "svc-target"):
						which = "tAAAA"
					case qtype == tA:
						which = "oA"
					default:
						which = "oAAAA"
					}
					if which == failing {
						if how < 0 {
							return []byte{0, 0, 0x81, 0x80, 0, 1, 0, 1}, 200 // cut in the header
						}
						return wResponse(id, name, qtype, how, nil), 200
					}
					switch which {
					case "https":
						return wResponse(id, name, qtype, 0, []wRR{rrHTTPS(name, 60, 1, "svc-target.example", svcParams{ALPN: []string{"h2"}}), rrHTTPS(name, 60, 2, "", svcParams{})}), 200
					case "tA", "oA":
						return wResponse(id, name, qtype, 0, []wRR{rrA(name, 60, "192.0.2.9")}), 200
					}
					return wResponse(id, name, qtype, 0, []wRR{rrAAAA(name, 60, "2001:db8::9")}), 200
				})
				nEval++
				func() {
					defer func() {
						if p := recover(); p != nil {
							report("partial-failure", fmt.Sprintf("%s/%d", failing, how), fmt.Sprint("Resolver.Resolve panicked: ", p), nil)
						}
					}()
					res, _ := ech.NewResolver(srv2.url())
					ctx, cancel := context.WithTimeout(context.Background(), 5*time.Second)
					defer cancel()
					rr, err := resolveGuarded("partial-failure", fmt.Sprintf("%s/%d", failing, how), res, ctx, "origin.example", nil)
					if err == nil {
						for range rr.Targets("tcp") {
						}
					}
				}()
				srv2.Close()
			}
		}
	}
	// ... and the same failures while several goroutines look the same name up through one Resolver: a lookup that fails
	// must not leave anything behind that blocks the others (every lookup returns)
	for _, how := range []int{-1, 2} {
		var mu sync.Mutex
		calls := 0
		srv3 := newDoHServer(func(id int, name string, qtype int) ([]byte, int) {
			mu.Lock()
			calls++
			k := calls
			mu.Unlock()
			time.Sleep(2 * time.Millisecond) // lookups overlap
			if k%2 == 1 {
				if how < 0 {
					return []byte{0, 0, 0x81, 0x80, 0, 1, 0, 1}, 200
				}
				return wResponse(id, name, qtype, how, nil), 200
			}
			if qtype == tA {
				return wResponse(id, name, qtype, 0, []wRR{rrA(name, 60, "192.0.2.9")}), 200
			}
			return wResponse(id, name, qtype, 0, nil), 200
		})
		res, _ := ech.NewResolver(srv3.url())
		var wg sync.WaitGroup
		for g := 0; g < 6; g++ {
			wg.Add(1)
			go func() {
				defer wg.Done()
				defer func() { recover() }()
				for k := 0; k < 4; k++ {
					ctx, cancel := context.WithTimeout(context.Background(), 5*time.Second)
					res.Resolve(ctx, "origin.example")
					cancel()
				}
			}()
		}
		fin := make(chan struct{})
		go func() { wg.Wait(); close(fin) }()
		nEval++
		select {
		case <-fin:
		case <-time.After(2 * watchdogLimit()):
			noteHang()
			report("concurrent-failure", fmt.Sprint(how), "hang", nil)
		}
		srv3.Close()
	}
	// an HTTPS answer whose TargetName is far longer than any legal name (the decoder does not cap names): the resolver
	// goes on to look that target up - whatever it does with it, it does not panic
	for _, L := range []int{130, 2100} {
		rd := append(u16(1), bytes.Repeat([]byte{1, 'a'}, L)...)
		rd = append(rd, 0)
		m := []byte{0, 0, 0x81, 0x80, 0, 1, 0, 1, 0, 0, 0, 0}
		m = append(m, wName("a.bc")...)
		m = append(m, u16(tHTTPS)...)
		m = append(m, u16(1)...)
		m = append(m, wRR{Owner: "a.bc", Type: tHTTPS, TTL: 60, Data: rd}.bytes()...)
		if dm := check("bigtarget", fmt.Sprint(L), m); dm != nil {
			resolverRuns = 0
			drive("bigtarget", fmt.Sprint(L), m)
		}
	}
	// a name of thousands of labels (the decoder does not cap names) referenced by hundreds of questions: the cost per
	// reference must stay linear in the name - "a small polynomial of the length" is at most quadratic here
	for _, L := range []int{1000, 3000} {
		m := []byte{0, 0, 0x81, 0x80, 0x01, 0x2c, 0, 0, 0, 0, 0, 0} // 300 questions
		for i := 0; i < L; i++ {
			m = append(m, 1, 'y')
		}
		m = append(m, 0, 0, 1, 0, 1)
		for i := 0; i < 299; i++ {
			m = append(m, 0xc0, 12, 0, 1, 0, 1)
		}
		nEval++
		dm, diff, alloc, d := decodeGuarded(m)
		_ = dm
		n := uint64(len(m))
		switch {
		case diff != "":
			report("manylabels", fmt.Sprint(L), diff, m[:64])
		case alloc > 4*n*n+(1<<20):
			report("manylabels", fmt.Sprint(L), fmt.Sprintf("decoding %d bytes (one %d-label name, 300 references) allocated %d bytes: more than 4 n^2", len(m), L, alloc), m[:64])
		case d > 2*time.Second:
			report("manylabels", fmt.Sprint(L), fmt.Sprintf("decoding %d bytes took %v", len(m), d), m[:64])
		}
	}
	w.Write(Ev{"summary": true, "evaluations": nEval, "resolver_runs": resolverRuns, "bad": bad})
}
