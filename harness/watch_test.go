package verifharness

// C10 and the stall clause of C08 (direction B): NewConn on a net.Pipe inside a synctest bubble. The transport wrapper
// logs every SetDeadline under the log mutex; the caller cancels at the scenario's instant and, in any case, right
// after NewConn returned; a post-return I/O probe checks the connection is usable. TLC validates the logs.

import (
	"bytes"
	"context"
	"errors"
	"fmt"
	"net"
	"os"
	"runtime"
	"strconv"
	"sync"
	"sync/atomic"
	"testing"
	"testing/synctest"
	"time"

	"github.com/c2FmZQ/ech"
)

type watchScen struct {
	Deadline int `json:"deadline"`
	HelloAt  int `json:"helloAt"`
	CancelAt int `json:"cancelAt"`
	Stall    int `json:"stall"` // for helloAt = -1: number of hello bytes delivered before the client stalls
}

type dlConn struct {
	net.Conn
	log func(Ev)
}

func (d *dlConn) SetDeadline(t time.Time) error {
	v := "past"
	if t.IsZero() {
		v = "none"
	}
	d.log(Ev{"e": "setdl", "v": v})
	return d.Conn.SetDeadline(t)
}

func runWatchScenario(t *testing.T, sc watchScen, hello []byte) (evs []Ev, crash string) {
	defer func() {
		if r := recover(); r != nil {
			crash = fmt.Sprint(r)
		}
	}()
	kr := watchKeyring
	synctest.Test(t, func(t *testing.T) {
		var mu sync.Mutex
		start := time.Now()
		log := func(e Ev) {
			mu.Lock()
			e["t"] = int(time.Since(start) / time.Millisecond)
			evs = append(evs, e)
			mu.Unlock()
		}
		cl, sv := net.Pipe()
		defer cl.Close()
		defer sv.Close()
		tr := &dlConn{Conn: sv, log: log}
		var ctx context.Context
		var cancel context.CancelFunc
		if sc.Deadline >= 0 {
			ctx, cancel = context.WithDeadline(context.Background(), start.Add(time.Duration(sc.Deadline)*time.Millisecond))
		} else {
			ctx, cancel = context.WithCancel(context.Background())
		}
		var cancelOnce sync.Once
		doCancel := func() {
			cancelOnce.Do(func() {
				log(Ev{"e": "cancel"})
				cancel()
			})
		}
		if sc.CancelAt >= 0 {
			tm := time.AfterFunc(time.Duration(sc.CancelAt)*time.Millisecond, doCancel)
			defer tm.Stop()
		}
		// client
		clientDone := make(chan struct{})
		go func() {
			defer close(clientDone)
			if sc.HelloAt >= 0 {
				time.Sleep(time.Duration(sc.HelloAt) * time.Millisecond)
				cl.Write(hello)
			} else if sc.Stall > 0 {
				cl.Write(hello[:sc.Stall])
			}
			if sc.HelloAt < 0 {
				// a stalled client does not read either: the alert NewConn writes must not block it (net.Pipe is synchronous)
				return
			}
			// drain whatever the server writes (alerts), until closed
			buf := make([]byte, 64)
			for {
				if _, err := cl.Read(buf); err != nil {
					return
				}
			}
		}()
		conn, err := ech.NewConn(ctx, tr, ech.WithKeys(kr.serverKeys([]string{"K1"})))
		r := "ok"
		if err != nil {
			r = "err"
		}
		log(Ev{"e": "ret", "r": r})
		// the idiomatic deferred cancel, right after the return
		doCancel()
		synctest.Wait()
		time.Sleep(2 * time.Millisecond)
		synctest.Wait()
		if err == nil {
			// I/O probe: the backend side must be able to write through the Conn and have the client see it
			ok := true
			if watchCH2 != nil && conn.ECHAccepted() {
				// a later phase of the same connection must be just as free of the (ended) context: the backend asks for
				// a retry, the Read of the second ClientHello blocks for a while, then that hello arrives
				first := make([]byte, 70000)
				if n, rerr := conn.Read(first); rerr != nil || n == 0 { // the backend takes the (inner) hello ...
					ok = false
				}
				if _, werr := conn.Write(hrrRecord(true, 0)); werr != nil { // ... and answers with a HelloRetryRequest
					ok = false
				}
				type rr struct {
					n   int
					err error
				}
				rc := make(chan rr, 1)
				go func() {
					buf := make([]byte, 70000)
					n, err := conn.Read(buf)
					rc <- rr{n, err}
				}()
				synctest.Wait()
				time.Sleep(3 * time.Millisecond)
				synctest.Wait()
				go cl.Write(watchCH2)
				if r := <-rc; r.err != nil || r.n == 0 {
					ok = false
				}
			}
			if _, werr := conn.Write([]byte{23, 3, 3, 0, 1, 0x7f}); werr != nil {
				ok = false
			}
			log(Ev{"e": "io", "ok": ok})
		} else {
			log(Ev{"e": "io", "ok": false})
		}
		log(Ev{"e": "end"})
		cl.Close()
		sv.Close()
		<-clientDone
	})
	return evs, ""
}

var watchKeyring *keyring
var watchCH2 []byte // the retried hello, sealed with the same sender right after the first one

func TestWatchScenarios(t *testing.T) {
	in, out := os.Getenv("VH_IN"), os.Getenv("VH_OUT")
	if in == "" || out == "" {
		t.Skip("VH_IN/VH_OUT not set")
	}
	iters, _ := strconv.Atoi(envOr("VH_ITERS", "20"))
	stallStep, _ := strconv.Atoi(envOr("VH_STALL_STEP", "16"))
	watchKeyring = newKeyring(seed())
	s := newSealer(watchKeyring)
	hello := handshakeRecord(s.helloBody(sealedHello(stdOuter, stdInner, aEnc{To: "k1", Id: "e1"}, 7, "s1", true), outerRandom, encOpts{padLen: 9}, "", -1))
	watchCH2 = handshakeRecord(s.helloBody(sealedHello(stdOuter, stdInner, aEnc{To: "empty", Id: "e0"}, 7, "s1", true), outerRandom, encOpts{padLen: 9}, "", -1))
	scens := readCases[watchScen](t, in)
	w := newNDWriter(t, out)
	defer w.Close()
	emit := func(sc watchScen, procs int) {
		// a scenario takes microseconds of real time (its time is virtual); one that does not finish is a goroutine
		// spinning without ever blocking (virtual time cannot advance, nothing can stop it): report and leave
		fin := make(chan struct{})
		go func() {
			select {
			case <-fin:
			case <-time.After(3 * watchdogLimit()):
				w.Write(Ev{"e": "reset", "scen": sc, "procs": procs})
				w.Write(Ev{"e": "crash", "msg": "the scenario does not finish: NewConn (or a later call) spins without blocking - it neither returns nor lets time pass"})
				w.Write(Ev{"e": "end"})
				w.Close()
				exitNow()
			}
		}()
		evs, crash := runWatchScenario(t, sc, hello)
		close(fin)
		w.Write(Ev{"e": "reset", "scen": sc, "procs": procs})
		for _, e := range evs {
			w.Write(e)
		}
		if crash != "" {
			w.Write(Ev{"e": "crash", "msg": crash})
		}
	}
	for _, procs := range []int{1, 2, 4, 16} {
		old := runtime.GOMAXPROCS(procs)
		for _, sc := range scens {
			if sc.HelloAt < 0 {
				if sc.Deadline < 0 && sc.CancelAt < 0 {
					continue // nothing ever ends the call: not a terminating scenario
				}
				// stall at every (step-th) byte offset of the first record
				for k := 0; k < len(hello); k++ {
					if procs != 16 || (k%stallStep != 0 && k > 8 && k < len(hello)-8) {
						continue
					}
					sc.Stall = k
					emit(sc, procs)
				}
				sc.Stall = 0
			}
			n := iters
			if sc.HelloAt >= 0 && (sc.HelloAt == sc.CancelAt || sc.HelloAt == sc.Deadline) {
				n = iters * 8 // the hello and the end of the context fall on the same instant: the schedules that matter
			}
			for i := 0; i < n; i++ {
				emit(sc, procs)
			}
		}
		runtime.GOMAXPROCS(old)
	}
}

// ---- other transports under the same property: one whose SetDeadline is not supported (returns an error, changes
// nothing), and one that has the hello buffered in front of it (a bufio-fronted listener: the bytes are there whatever
// the deadline says). Direct assertions on the returned connection: not closed, no deadline left armed, I/O works.
type oddConn struct {
	net.Conn
	mu       sync.Mutex
	noDL     bool
	errDL    bool   // deadlines take effect on the transport, but the call reports an error all the same
	pre      []byte // bytes served before the underlying connection is consulted
	armed    bool   // an expired deadline is set
	closed   bool
	dlCalls  int
	afterRet bool
	lateCall bool
}

func (o *oddConn) Read(p []byte) (int, error) {
	o.mu.Lock()
	if len(o.pre) > 0 {
		n := copy(p, o.pre)
		o.pre = o.pre[n:]
		o.mu.Unlock()
		return n, nil
	}
	o.mu.Unlock()
	return o.Conn.Read(p)
}
func (o *oddConn) Close() error {
	o.mu.Lock()
	o.closed = true
	o.mu.Unlock()
	return o.Conn.Close()
}
func (o *oddConn) SetDeadline(t time.Time) error {
	o.mu.Lock()
	o.dlCalls++
	if o.afterRet {
		o.lateCall = true
	}
	if o.noDL {
		o.mu.Unlock()
		return errors.New("deadlines not supported")
	}
	o.armed = !t.IsZero()
	errDL := o.errDL
	o.mu.Unlock()
	if err := o.Conn.SetDeadline(t); err != nil || !errDL {
		return err
	}
	return errors.New("deadline set; write half not supported")
}

func TestWatchTransports(t *testing.T) {
	out := os.Getenv("VH_OUT")
	if out == "" {
		t.Skip("VH_OUT not set")
	}
	w := newNDWriter(t, out)
	defer w.Close()
	watchKeyring = newKeyring(seed())
	s := newSealer(watchKeyring)
	hello := handshakeRecord(s.helloBody(sealedHello(stdOuter, stdInner, aEnc{To: "k1", Id: "e1"}, 7, "s1", true), outerRandom, encOpts{padLen: 9}, "", -1))
	n := 0
	for _, procs := range []int{1, 4, 16} {
		old := runtime.GOMAXPROCS(procs)
		for _, variant := range []string{"nodl", "buffered", "errdl"} {
			for _, cancelAt := range []int{-2, 0, 1, 2} { // -2: the context has ended before NewConn is called
				for _, helloAt := range []int{0, 1} {
					if variant == "buffered" && helloAt != 0 {
						continue
					}
					for it := 0; it < 12; it++ {
						n++
						diff := ""
						func() {
							defer func() {
								if p := recover(); p != nil {
									diff = fmt.Sprint("panic: ", p)
								}
							}()
							synctest.Test(t, func(t *testing.T) {
								cl, sv := net.Pipe()
								defer cl.Close()
								defer sv.Close()
								tr := &oddConn{Conn: sv, noDL: variant == "nodl", errDL: variant == "errdl"}
								if variant == "buffered" {
									tr.pre = bytes.Clone(hello)
								}
								ctx, cancel := context.WithCancel(context.Background())
								defer cancel()
								if cancelAt == -2 {
									cancel()
								} else {
									tm := time.AfterFunc(time.Duration(cancelAt)*time.Millisecond, cancel)
									defer tm.Stop()
								}
								go func() {
									if variant != "buffered" {
										time.Sleep(time.Duration(helloAt) * time.Millisecond)
										cl.Write(hello)
									}
									buf := make([]byte, 64)
									for {
										if _, err := cl.Read(buf); err != nil {
											return
										}
									}
								}()
								conn, err := ech.NewConn(ctx, tr, ech.WithKeys(watchKeyring.serverKeys([]string{"K1"})))
								tr.mu.Lock()
								tr.afterRet = true
								tr.mu.Unlock()
								cancel()
								synctest.Wait()
								time.Sleep(3 * time.Millisecond)
								synctest.Wait()
								if err != nil {
									return // refusing is always admissible here
								}
								tr.mu.Lock()
								closed, armed, late := tr.closed, tr.armed, tr.lateCall
								tr.mu.Unlock()
								switch {
								case closed:
									diff = "NewConn returned a connection whose transport has been closed"
								case armed:
									diff = "NewConn returned successfully and left an expired deadline on the transport"
								case late:
									diff = "a deadline call reached the transport after NewConn had returned"
								}
								if diff == "" {
									if _, werr := conn.Write([]byte{23, 3, 3, 0, 1, 0x7f}); werr != nil {
										diff = "I/O on the returned connection fails: " + werr.Error()
									}
								}
							})
						}()
						if diff != "" {
							w.Write(Ev{"key": fmt.Sprintf("%s/cancel%d/hello%d/procs%d", variant, cancelAt, helloAt, procs), "diff": diff})
						}
					}
				}
			}
		}
		runtime.GOMAXPROCS(old)
	}
	w.Write(Ev{"summary": true, "runs": n})
}

// Connections one after the other, and several at a time, in real time and outside any synctest bubble: what one connection's
// NewConn leaves behind (a watcher, pooled state) must not change how the next one treats ITS context. Each step is either
// "expire" (nothing arrives; the context ends while NewConn is blocked: it must fail promptly) or "ok" (the hello arrives: the
// connection is returned and works, also after its context has ended).
func TestWatchSequences(t *testing.T) {
	out := os.Getenv("VH_OUT")
	if out == "" {
		t.Skip("VH_OUT not set")
	}
	w := newNDWriter(t, out)
	defer w.Close()
	kr := newKeyring(seed())
	s := newSealer(kr)
	hello := handshakeRecord(s.helloBody(sealedHello(stdOuter, stdInner, aEnc{To: "k1", Id: "e1"}, 7, "s1", true), outerRandom, encOpts{padLen: 9}, "", -1))
	keys := kr.serverKeys([]string{"K1"})
	var wmu sync.Mutex
	runs := 0
	report := func(key, d string) {
		wmu.Lock()
		w.Write(Ev{"key": key, "diff": d})
		wmu.Unlock()
	}
	one := func(key string, step string, how int) (hung bool) {
		cl, sv := net.Pipe()
		defer cl.Close()
		defer sv.Close()
		var ctx context.Context
		var cancel context.CancelFunc
		if how%2 == 0 {
			ctx, cancel = context.WithCancel(context.Background())
			if step == "expire" {
				time.AfterFunc(20*time.Millisecond, cancel)
			}
		} else {
			d := time.Hour
			if step == "expire" {
				d = 20 * time.Millisecond
			}
			ctx, cancel = context.WithTimeout(context.Background(), d)
		}
		defer cancel()
		if step == "ok" {
			go func() {
				cl.Write(hello)
				buf := make([]byte, 64)
				for {
					if _, err := cl.Read(buf); err != nil {
						return
					}
				}
			}()
		}
		type res struct {
			c   *ech.Conn
			err error
		}
		ch := make(chan res, 1)
		t0 := time.Now()
		go func() {
			c, err := ech.NewConn(ctx, sv, ech.WithKeys(keys))
			ch <- res{c, err}
		}()
		select {
		case r := <-ch:
			switch {
			case step == "expire" && r.err == nil:
				report(key, "NewConn returned a connection although no hello ever arrived")
			case step == "expire" && time.Since(t0) > watchdogLimit():
				report(key, fmt.Sprintf("NewConn failed only %v after its context had ended", time.Since(t0)))
			case step == "ok" && r.err != nil:
				report(key, "NewConn failed although the hello arrived and the context was live: "+r.err.Error())
			case step == "ok":
				cancel() // the context ends after NewConn has returned: no effect on the connection
				time.Sleep(2 * time.Millisecond)
				if _, err := r.c.Write([]byte{23, 3, 3, 0, 1, 0x7f}); err != nil {
					report(key, "I/O on the returned connection fails after its context ended: "+err.Error())
				}
			}
		case <-time.After(watchdogLimit()):
			noteHang()
			report(key, fmt.Sprintf("NewConn is still blocked %v after its context ended (step %q)", time.Since(t0), step))
			return true
		}
		return false
	}
	seqs := [][]string{
		{"expire", "expire", "expire"},
		{"expire", "ok", "expire", "ok"},
		{"ok", "expire", "expire", "ok", "ok", "expire"},
	}
	for si, seq := range seqs {
		for _, how := range []int{0, 1} {
			// one goroutine runs the whole sequence (pooled state, if any, comes back to the same P)
			done := make(chan struct{})
			go func() {
				defer close(done)
				runtime.LockOSThread()
				defer runtime.UnlockOSThread()
				for i, step := range seq {
					runs++
					if one(fmt.Sprintf("seq%d/how%d/step%d:%s", si, how, i, step), step, how+i) {
						return
					}
				}
			}()
			<-done
		}
	}
	// several connections at a time, each goroutine running its own sequence
	var wg sync.WaitGroup
	var cnt atomic.Int64
	for g := 0; g < 8; g++ {
		wg.Add(1)
		go func(g int) {
			defer wg.Done()
			seq := seqs[g%len(seqs)]
			for i, step := range seq {
				cnt.Add(1)
				if one(fmt.Sprintf("conc/g%d/step%d:%s", g%len(seqs), i, step), step, g+i) {
					return
				}
			}
		}(g)
	}
	wg.Wait()
	// very many connections waiting for their hello at once (a busy listener): each one's context still governs its own NewConn
	const pending = 1100
	type pend struct {
		cancel context.CancelFunc
		done   chan error
		cl, sv net.Conn
	}
	ps := make([]*pend, pending)
	for i := range ps {
		cl, sv := net.Pipe()
		ctx, cancel := context.WithCancel(context.Background())
		p := &pend{cancel: cancel, done: make(chan error, 1), cl: cl, sv: sv}
		ps[i] = p
		go func() {
			_, err := ech.NewConn(ctx, sv, ech.WithKeys(keys))
			p.done <- err
		}()
	}
	time.Sleep(50 * time.Millisecond) // let them all block in their first read
	late := 0
	for _, i := range []int{pending - 1, 0, pending / 2, pending - 2} {
		ps[i].cancel()
		select {
		case err := <-ps[i].done:
			if err == nil {
				report("many/returned", "NewConn returned a connection although no hello ever arrived")
			}
		case <-time.After(watchdogLimit() / 4):
			late++
		}
	}
	if late > 0 {
		noteHang()
		report("many/blocked", fmt.Sprintf("with %d connections waiting for their hello, %d of 4 cancelled NewConn calls were still blocked %v after their context ended", pending, late, watchdogLimit()/4))
	}
	for _, p := range ps {
		p.cancel()
		p.cl.Close()
		p.sv.Close()
	}
	w.Write(Ev{"summary": true, "runs": runs + int(cnt.Load()) + pending})
}
