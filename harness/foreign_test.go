package verifharness

// C05: "foreign" ClientHello encodings (not produced by the package's own marshaller) must be passed through byte for
// byte when ECH is not accepted, together with every later byte; and the ServerName/ALPN the Conn reports must be
// what an independent TLS stack (crypto/tls) extracts from the forwarded bytes.

import (
	"bytes"
	"crypto/tls"
	"errors"
	"fmt"
	"io"
	"math/rand"
	"net"
	"os"
	"reflect"
	"strconv"
	"strings"
	"sync"
	"sync/atomic"
	"testing"
	"time"

	"github.com/c2FmZQ/ech"
)

type foreignHello struct {
	shape   string
	record  []byte
	sni     string
	alpn    []string
	tlsSafe bool // crypto/tls is expected to parse it (oracle 2 applies)
}

func randBytes(r *rand.Rand, n int) []byte {
	b := make([]byte, n)
	r.Read(b)
	return b
}

func randName(r *rand.Rand, total int) string {
	var labels []string
	left := total
	for left > 0 {
		n := 1 + r.Intn(min(63, left))
		if left-n == 1 { // avoid a dangling 1-char remainder after the dot
			n = left
			if n > 63 {
				n = 30
			}
		}
		l := make([]byte, n)
		for i := range l {
			l[i] = "abcdefghijklmnopqrstuvwxyz0123456789ABCXYZ"[r.Intn(42)] // mixed case: names are forwarded and reported as sent
		}
		labels = append(labels, string(l))
		left -= n + 1
	}
	return strings.Join(labels, ".")
}

func genForeign(r *rand.Rand, i int) foreignHello {
	var fh foreignHello
	fh.tlsSafe = true
	grease := func() int { v := r.Intn(16); return v<<12 | 0x0a00 | v<<4 | 0x0a }
	legacy := []int{0x0301, 0x0302, 0x0303, 0x0303, 0x0303, 0x0304, 0x0300}[r.Intn(7)]
	b := be16(nil, legacy)
	b = append(b, randBytes(r, 32)...)
	b = vec8(b, randBytes(r, []int{0, 0, 1, 32, 32}[r.Intn(5)]))
	var cs []byte
	for k := 0; k < 1+r.Intn(40); k++ {
		cs = be16(cs, []int{0x1301, 0x1302, 0x1303, 0xc02f, 0xc030, 0xc02b, 0x009c, 0x00ff, grease(), 0xcca8}[r.Intn(10)])
	}
	b = vec16(b, cs)
	b = vec8(b, [][]byte{{0}, {0}, {1, 0}, {0, 1}}[r.Intn(4)]) // legacy_compression_methods: TLS <= 1.2 clients may list more than "null"
	// extensions
	type ext struct {
		t int
		d []byte
	}
	var exts []ext
	shape := []string{}
	mode := i % 8 // cycle through the causes of non-acceptance
	offer13 := mode != 3
	nameLen := []int{1, 4, 17, 63, 64, 127, 200, 253}[r.Intn(8)]
	if r.Intn(10) > 0 {
		fh.sni = randName(r, nameLen)
		exts = append(exts, ext{0, encSNI(fh.sni)})
	}
	if r.Intn(4) > 0 {
		pool := []string{"h2", "http/1.1", "h3", "spdy/3.1", "acme-tls/1", strings.Repeat("p", 255), "x"}
		for k := 0; k < 1+r.Intn(4); k++ {
			fh.alpn = append(fh.alpn, pool[r.Intn(len(pool))])
		}
		exts = append(exts, ext{16, encALPN(fh.alpn)})
	}
	if mode != 4 { // mode 4: no supported_versions at all (a TLS <= 1.2 client)
		var v []byte
		if offer13 {
			v = be16(v, 0x0304)
		}
		for _, x := range []int{0x0303, 0x0302, 0x0301, grease()} {
			if r.Intn(2) == 0 {
				v = be16(v, x)
			}
		}
		if len(v) == 0 {
			v = be16(v, 0x0303)
		}
		r.Shuffle(len(v)/2, func(a, c int) { v[2*a], v[2*a+1], v[2*c], v[2*c+1] = v[2*c], v[2*c+1], v[2*a], v[2*a+1] })
		exts = append(exts, ext{43, vec8(nil, v)})
	}
	exts = append(exts, ext{10, vec16(nil, []byte{0, 29, 0, 23, 0, 24})})
	exts = append(exts, ext{13, vec16(nil, []byte{4, 3, 8, 4, 4, 1, 5, 3, 8, 5, 5, 1, 8, 6, 6, 1})})
	if r.Intn(2) == 0 {
		ks := be16(nil, 29)
		ks = vec16(ks, randBytes(r, 32))
		exts = append(exts, ext{51, vec16(nil, ks)})
		exts = append(exts, ext{45, []byte{1, 1}})
	}
	for k := 0; k < r.Intn(5); k++ {
		t := []int{grease(), 0x1234, 0x7777, 23, 35, 0xff01, 18, 5, 0xfe0e}[r.Intn(9)]
		var d []byte
		switch t {
		case 23:
		case 0xff01:
			d = []byte{0}
		case 5:
			d = []byte{1, 0, 0, 0, 0}
		case 18:
		default:
			d = randBytes(r, []int{0, 0, 1, 7, 300}[r.Intn(5)])
		}
		dup := false
		for _, e := range exts {
			dup = dup || e.t == t
		}
		if !dup {
			exts = append(exts, ext{t, d})
		}
	}
	switch mode {
	case 1, 5, 6: // GREASE ECH / unknown config id / config id of a held key with an undecryptable payload
		cid := byte(r.Intn(256))
		if mode == 6 {
			cid = 7
		}
		d := []byte{0, 0, 1, 0, byte(1 + r.Intn(3)), cid}
		d = vec16(d, randBytes(r, 32))
		d = vec16(d, randBytes(r, 100+r.Intn(200)))
		exts = append(exts, ext{0xfe0d, d})
		shape = append(shape, "ech-grease")
	case 2:
		shape = append(shape, "no-ech")
	case 3:
		shape = append(shape, "no-tls13")
	case 4:
		shape = append(shape, "no-sv")
	case 7:
		shape = append(shape, "big")
		exts = append(exts, ext{21, make([]byte, 2000+r.Intn(12000))})
	default:
		shape = append(shape, "plain")
	}
	r.Shuffle(len(exts), func(a, c int) { exts[a], exts[c] = exts[c], exts[a] })
	// pre_shared_key must be last for crypto/tls; not generated here.
	encExts := func() []byte {
		var e []byte
		for _, x := range exts {
			e = be16(e, x.t)
			e = vec16(e, x.d)
		}
		return e
	}
	if mode == 7 && r.Intn(2) == 0 {
		// the record-size boundary: a ClientHello fragment of exactly 2^14 bytes and just below it is legal TLS
		for k := range exts {
			if exts[k].t == 21 {
				exts[k].d = nil
				l0 := 4 + len(b) + 2 + len(encExts())
				target := []int{16384, 16383, 16382, 16381, 16380, 16379}[r.Intn(6)]
				exts[k].d = make([]byte, target-l0)
				shape = append(shape, "limit")
			}
		}
	}
	e := encExts()
	noExtBlock := mode == 4 && r.Intn(3) == 0
	emptyExtBlock := mode == 4 && !noExtBlock && r.Intn(3) == 0
	switch {
	case noExtBlock:
		shape = append(shape, "no-ext-block")
		fh.sni, fh.alpn = "", nil
	case emptyExtBlock:
		shape = append(shape, "empty-ext-block")
		fh.sni, fh.alpn = "", nil
		b = vec16(b, nil)
	default:
		b = vec16(b, e)
	}
	fh.record = handshakeRecord(b)
	fh.record[1], fh.record[2] = 3, byte(1+r.Intn(3))
	fh.shape = strings.Join(shape, "+")
	return fh
}

// tlsView feeds a ClientHello record to a crypto/tls server and returns what it extracts.
func tlsView(record []byte) (sni string, alpn []string, ok bool) {
	c, s := net.Pipe()
	defer c.Close()
	defer s.Close()
	go func() {
		c.SetDeadline(time.Now().Add(2 * time.Second))
		c.Write(record)
		io.Copy(io.Discard, c)
	}()
	srv := tls.Server(s, &tls.Config{GetConfigForClient: func(chi *tls.ClientHelloInfo) (*tls.Config, error) {
		sni, alpn, ok = chi.ServerName, chi.SupportedProtos, true
		return nil, errors.New("stop")
	}})
	s.SetDeadline(time.Now().Add(2 * time.Second))
	srv.Handshake()
	return
}

func TestForeignHellos(t *testing.T) {
	out := os.Getenv("VH_OUT")
	if out == "" {
		t.Skip("VH_OUT not set")
	}
	n, _ := strconv.Atoi(envOr("VH_N", "300"))
	r := rand.New(rand.NewSource(seed()))
	kr := newKeyring(seed())
	keySets := map[string][]ech.Key{"none": nil, "unrelated": kr.serverKeys([]string{"K4"}), "sameid": kr.serverKeys([]string{"K1", "K2"})}
	ksNames := []string{"none", "unrelated", "sameid"}
	w := newNDWriter(t, out)
	defer w.Close()
	oracle2, skipped := 0, 0
	var prevRecord []byte
	for i := 0; i < n; i++ {
		fh := genForeign(r, i)
		ksn := ksNames[r.Intn(3)]
		// following record stream: arbitrary records in both length extremes
		var tail []byte
		for k := 0; k < r.Intn(4); k++ {
			typ := []byte{20, 21, 22, 23, 23}[r.Intn(5)]
			l := []int{0, 1, 2, 100, 16384, 16640}[r.Intn(6)]
			tail = append(tail, typ, 3, 3, byte(l>>8), byte(l))
			tail = append(tail, randBytes(r, l)...)
		}
		sent := append(bytes.Clone(fh.record), tail...)
		diff := ""
		func() {
			defer func() {
				if p := recover(); p != nil {
					diff = fmt.Sprint("panic: ", p)
				}
			}()
			sc := newScriptConn(sent)
			var opts []ech.Option
			opts = append(opts, keyOptions(keySets[ksn])...)
			c, err := ech.NewConn(t.Context(), sc, opts...)
			if err != nil {
				diff = "NewConn failed on a syntactically valid hello: " + err.Error()
				return
			}
			if c.ECHAccepted() {
				diff = "accepted a hello that carries no authentic ECH"
				return
			}
			// another connection is accepted before this one is read (connections share nothing)
			if prevRecord != nil {
				if c2, err2 := ech.NewConn(t.Context(), newScriptConn(prevRecord), keyOptions(keySets[ksn])...); err2 == nil {
					one := make([]byte, 1)
					c2.Read(one)
				}
			}
			// every read-buffer size class
			var got []byte
			buf := make([]byte, []int{1, 7, 512, 70000}[r.Intn(4)])
			for {
				m, err := c.Read(buf)
				got = append(got, buf[:m]...)
				if err != nil {
					break
				}
			}
			if len(got) >= 3 {
				got[1], got[2] = sent[1], sent[2]
			}
			if !bytes.Equal(got, sent) {
				k := 0
				for k < len(got) && k < len(sent) && got[k] == sent[k] {
					k++
				}
				diff = fmt.Sprintf("forwarded bytes differ from the client's at offset %d (sent %d bytes, got %d); hello=%x", k, len(sent), len(got), fh.record[:min(len(fh.record), 600)])
				return
			}
			if c.ServerName() != fh.sni || !reflect.DeepEqual(append([]string{}, c.ALPNProtos()...), append([]string{}, fh.alpn...)) {
				diff = fmt.Sprintf("Conn reports ServerName %q ALPN %v, the hello carries %q %v", c.ServerName(), c.ALPNProtos(), fh.sni, fh.alpn)
				return
			}
			if fh.tlsSafe {
				s, a, ok := tlsView(got[:len(fh.record)])
				if !ok {
					skipped++
				} else {
					oracle2++
					if s != c.ServerName() || !reflect.DeepEqual(append([]string{}, a...), append([]string{}, c.ALPNProtos()...)) {
						diff = fmt.Sprintf("crypto/tls sees ServerName %q ALPN %v in the forwarded bytes, Conn reports %q %v", s, a, c.ServerName(), c.ALPNProtos())
					}
				}
			}
		}()
		prevRecord = fh.record
		w.Write(Ev{"key": fmt.Sprintf("%d/%s/%s", i, fh.shape, ksn), "shape": fh.shape + "/" + ksn, "diff": diff, "len": len(fh.record), "hello": fmt.Sprintf("%x", fh.record[:min(len(fh.record), 300)])})
	}
	// the same hellos handled at the same time by eight goroutines: every connection is still passed through byte for byte
	{
		rr := rand.New(rand.NewSource(seed() + 77))
		var hellos []foreignHello
		for i := 0; i < min(n, 400); i++ {
			hellos = append(hellos, genForeign(rr, 6+8*i)) // the class with the longest path: a held key's id, undecryptable
			hellos = append(hellos, genForeign(rr, i))
		}
		var wg sync.WaitGroup
		var bad atomic.Int64
		var once sync.Once
		for g := 0; g < 8; g++ {
			wg.Add(1)
			go func(g int) {
				defer wg.Done()
				buf := make([]byte, 70000)
				for round := 0; round < 3; round++ {
					for i := g; i < len(hellos); i += 8 {
						fh := hellos[(i+round*5)%len(hellos)]
						func() {
							defer func() { recover() }()
							c, err := ech.NewConn(t.Context(), newScriptConn(fh.record), ech.WithKeys(keySets["sameid"]))
							if err != nil || c.ECHAccepted() {
								return
							}
							m, _ := io.ReadAtLeast(c, buf, len(fh.record))
							if m >= len(fh.record) && !bytes.Equal(buf[3:len(fh.record)], fh.record[3:]) {
								bad.Add(1)
								once.Do(func() {
									w.Write(Ev{"key": "concurrent/" + fh.shape, "shape": "concurrent", "len": len(fh.record), "hello": fmt.Sprintf("%x", fh.record[:min(len(fh.record), 300)]),
										"diff": "handled at the same time as other connections, the forwarded ClientHello differs from the one the client sent"})
								})
							}
						}()
					}
				}
			}(g)
		}
		wg.Wait()
	}
	w.Write(Ev{"summary": true, "n": n, "checked_against_crypto_tls": oracle2, "crypto_tls_declined": skipped})
}
