package verifharness

// C20 (direction A): every call history TLC enumerates from spec/Publish.tla runs on the real CloudflarePublisher
// against a fake Cloudflare API holding the concretised zone (45 records over 3 pages); compared: the TargetResult
// codes in order, the stored parameter strings afterwards, and the PATCH requests.

import (
	"bytes"
	"context"
	"encoding/base64"
	"encoding/json"
	"fmt"
	"net/http"
	"net/http/httptest"
	"net/url"
	"os"
	"reflect"
	"strconv"
	"strings"
	"sync"
	"testing"
	"time"

	"github.com/c2FmZQ/ech/publish"
)

type pubRec struct {
	Name   string   `json:"name"`
	Page   int      `json:"page"`
	Params []string `json:"params"`
}
type pubTarget struct {
	Zone string `json:"zone"`
	Name string `json:"name"`
}
type pubFail struct {
	Kind string `json:"kind"`
	N    int    `json:"n"`
}
type pubCall struct {
	Targets []pubTarget `json:"targets"`
	Cfg     string      `json:"cfg"`
	Fail    pubFail     `json:"fail"`
	Results []string    `json:"results"`
	Patches []string    `json:"patches"`
	After   []pubRec    `json:"after"`
}
type pubCase struct {
	Init  []pubRec  `json:"init"`
	Calls []pubCall `json:"calls"`
}

var pubCfg = map[string][]byte{"C1": []byte("config-list-one"), "C2": []byte("config-list-two!"), "old": []byte("an old list")}

// concParam renders a stored parameter; quoted is the presentation style of the zone (both are legal SvcParams).
func concParam(p string, quoted bool) string {
	q := `"`
	if !quoted {
		q = ""
	}
	if v, ok := strings.CutPrefix(p, "ech="); ok {
		if v == "C1x" { // a damaged stored value: the base64 of C1 followed by a stray character (not the base64 of any list)
			return "ech=" + q + base64.StdEncoding.EncodeToString(pubCfg["C1"]) + "C" + q
		}
		return "ech=" + q + base64.StdEncoding.EncodeToString(pubCfg[v]) + q
	}
	k, v, ok := strings.Cut(p, "=")
	if !ok {
		return p // a parameter without a value (no-default-alpn)
	}
	if strings.Contains(v, " ") {
		q = `"` // a value with spaces is always quoted
	}
	return k + "=" + q + v + q
}

// splitParams splits a stored SvcParams string at the spaces that are not inside a quoted value.
func splitParams(v string) []string {
	var out []string
	cur, inq := "", false
	for _, ch := range v {
		switch {
		case ch == '"':
			inq = !inq
			cur += string(ch)
		case ch == ' ' && !inq:
			if cur != "" {
				out = append(out, cur)
			}
			cur = ""
		default:
			cur += string(ch)
		}
	}
	if cur != "" {
		out = append(out, cur)
	}
	return out
}

func absParam(p string) string {
	k, v, ok := strings.Cut(p, "=")
	if !ok {
		return p
	}
	v = strings.Trim(v, `"`)
	if k == "ech" {
		if v == base64.StdEncoding.EncodeToString(pubCfg["C1"])+"C" {
			return "ech=C1x"
		}
		for name, b := range pubCfg {
			if base64.StdEncoding.EncodeToString(b) == v {
				return "ech=" + name
			}
		}
		return "ech=?" + v
	}
	return k + "=" + v
}

type fakeRec struct {
	ID    string
	Name  string
	Value string
	Prio  int
	Tgt   string
}

type fakeCF struct {
	mu        sync.Mutex
	recs      []*fakeRec
	patches   []string
	nList     int
	nPatch    int
	fail      pubFail
	recs3     []*fakeRec // zone z3: a few records, none of them a requested name
	softFail  bool
	omitEmpty bool
	srv       *httptest.Server
}

func recName(n string) string { return n + ".z1.example" }

// recPrioTgt: SvcPriority and TargetName of the stored records differ from record to record (priority 0, the alias form,
// and an explicit target among them); publishing changes neither.
func recPrioTgt(n string) (int, string) {
	switch n {
	case "b":
		return 0, "pool.z1.example."
	case "c":
		return 16, "svc.z1.example."
	}
	return 1, "."
}

func newFakeCF(init []pubRec, quoted bool) *fakeCF { return newFakeCFSized(init, quoted, false, 0) }

// lead: number of other records the zone lists before the three pages of the specification (a multiple of the page size): a
// zone with a thousand records and more is still "several pages"
func newFakeCFSized(init []pubRec, quoted, bigPages bool, lead int) *fakeCF {
	f := &fakeCF{}
	// 45 records on 3 pages of 20; the abstract records sit on their page, fillers elsewhere
	slots := make([]*fakeRec, lead+45)
	used := map[int]int{}
	for _, r := range init {
		idx := lead + (r.Page-1)*20 + 3 + used[r.Page]
		used[r.Page]++
		var ps []string
		for _, p := range r.Params {
			ps = append(ps, concParam(p, quoted))
		}
		prio, tgt := recPrioTgt(r.Name)
		slots[idx] = &fakeRec{ID: "rec-" + r.Name, Name: recName(r.Name), Value: strings.Join(ps, " "), Prio: prio, Tgt: tgt}
	}
	for i := range slots {
		if slots[i] == nil {
			val := `alpn="h2" ech="ZmlsbGVy"`
			if bigPages && i >= lead+20 && i < lead+40 { // a page of records with long values: the page is far larger than 64 KiB
				val = `alpn="h2" ech="` + strings.Repeat("QUJD", 1200) + `"`
			}
			slots[i] = &fakeRec{ID: fmt.Sprintf("fill-%02d", i-lead), Name: fmt.Sprintf("fill%02d.z1.example", i-lead), Value: val, Prio: 1, Tgt: "."}
		}
	}
	f.recs = slots
	for i := 0; i < 5; i++ {
		f.recs3 = append(f.recs3, &fakeRec{ID: fmt.Sprintf("z3-%d", i), Name: fmt.Sprintf("other%d.z3.example", i), Value: `alpn="h2"`, Prio: 1, Tgt: "."})
	}
	f.srv = httptest.NewUnstartedServer(http.HandlerFunc(f.handle))
	f.srv.Listener = resetListener{f.srv.Listener} // one server per case: closing with a reset leaves no TIME_WAIT entries behind
	f.srv.Start()
	return f
}

func (f *fakeCF) handle(w http.ResponseWriter, req *http.Request) {
	f.mu.Lock()
	defer f.mu.Unlock()
	req.ParseForm()
	p := req.URL.Path
	fail := func() {
		if f.softFail { // the API's other way of refusing: 200 with success=false and no error entries
			fmt.Fprintln(w, `{"success": false, "errors": [], "result": null}`)
			return
		}
		http.Error(w, `{"success":false,"errors":[{"code":1,"message":"scripted"}]}`, 400)
	}
	switch {
	case req.Method == "GET" && p == "/client/v4/zones":
		if f.fail.Kind == "zone" {
			fail()
			return
		}
		var res []map[string]string
		if req.Form.Get("name") == "z1.example" {
			res = append(res, map[string]string{"id": "zone-z1", "name": "z1.example"})
		}
		if req.Form.Get("name") == "z3.example" { // another zone of the account; it holds other records only
			res = append(res, map[string]string{"id": "zone-z3", "name": "z3.example"})
		}
		json.NewEncoder(w).Encode(map[string]any{"success": true, "errors": []any{}, "result": res,
			"result_info": map[string]int{"page": 1, "per_page": 20, "count": len(res), "total_count": len(res), "total_pages": 1}})
	case req.Method == "GET" && strings.HasSuffix(p, "/dns_records"):
		f.nList++
		if f.fail.Kind == "page" && f.fail.N == f.nList {
			fail()
			return
		}
		page, _ := strconv.Atoi(req.Form.Get("page"))
		per, _ := strconv.Atoi(req.Form.Get("per_page"))
		if per <= 0 {
			per = 100
		}
		if page <= 0 {
			page = 1
		}
		var res []map[string]any
		recs := f.recs
		if strings.Contains(p, "/zone-z3/") {
			recs = f.recs3
		}
		for i := (page - 1) * per; i < len(recs) && i < page*per; i++ {
			r := recs[i]
			data := map[string]any{"priority": r.Prio, "target": r.Tgt, "value": r.Value}
			if r.Value == "" && f.omitEmpty { // the API leaves out members that are empty
				delete(data, "value")
			}
			res = append(res, map[string]any{"id": r.ID, "name": r.Name, "type": "HTTPS", "data": data})
		}
		// same semantics as the repository's own fake: count = number of matching records
		json.NewEncoder(w).Encode(map[string]any{"success": true, "errors": []any{}, "result": res,
			"result_info": map[string]int{"page": page, "per_page": per, "count": len(recs), "total_count": len(recs), "total_pages": (len(recs) + per - 1) / per}})
	case req.Method == "PATCH" && strings.Contains(p, "/dns_records/"):
		f.nPatch++
		id := p[strings.LastIndex(p, "/")+1:]
		if f.fail.Kind == "patch" && f.fail.N == f.nPatch {
			fail()
			return
		}
		var body struct {
			Data struct {
				Priority *int    `json:"priority"`
				Target   *string `json:"target"`
				Value    *string `json:"value"`
			} `json:"data"`
		}
		if err := json.NewDecoder(req.Body).Decode(&body); err != nil {
			fail()
			return
		}
		for _, r := range f.recs {
			if r.ID == id {
				// the API replaces the record's data object: a member the request leaves out is gone
				r.Value, r.Prio, r.Tgt = "", -1, "<lost>"
				if body.Data.Value != nil {
					r.Value = *body.Data.Value
				}
				if body.Data.Priority != nil {
					r.Prio = *body.Data.Priority
				}
				if body.Data.Target != nil {
					r.Tgt = *body.Data.Target
				}
				f.patches = append(f.patches, strings.TrimSuffix(r.Name, ".z1.example"))
				fmt.Fprintln(w, `{"success": true, "errors": []}`)
				return
			}
		}
		fail()
	default:
		http.NotFound(w, req)
	}
}

func replayPubCase(c *pubCase, idx int) (diff string) {
	defer func() {
		if p := recover(); p != nil {
			diff = fmt.Sprint("panic: ", p)
			if envText(diff) {
				diff = "ENV: " + diff
			}
		}
	}()
	// every third zone stores unquoted values; every fifth has a very large page; every eleventh case without a scripted listing
	// failure runs on a zone of 1045 records (the three pages of the specification are the last of 53)
	lead := 0
	if idx%11 == 4 {
		lead = 1000
		for _, call := range c.Calls {
			if call.Fail.Kind == "page" {
				lead = 0
			}
		}
	}
	f := newFakeCFSized(c.Init, idx%3 != 1, idx%5 == 2, lead)
	defer f.srv.Close()
	f.softFail = (idx/3)%2 == 1
	f.omitEmpty = idx%2 == 0
	u, _ := url.Parse(f.srv.URL)
	u.Path = "/client/v4/zones"
	cf := publish.NewCloudflarePublisher("token")
	cf.VerifSetAPI(*u, 0)
	codes := map[publish.StatusCode]string{publish.StatusUpdated: "updated", publish.StatusNotFound: "notfound", publish.StatusNoChange: "nochange", publish.StatusError: "error", publish.StatusUnknown: "unknown"}
	for ci, call := range c.Calls {
		f.mu.Lock()
		f.fail, f.nList, f.nPatch, f.patches = call.Fail, 0, 0, nil
		fillBefore := map[string]string{}
		for _, r := range f.recs {
			fillBefore[r.ID] = fmt.Sprintf("%s|%d|%s", r.Value, r.Prio, r.Tgt)
		}
		f.mu.Unlock()
		var targets []publish.Target
		for _, t := range call.Targets {
			targets = append(targets, publish.Target{Zone: t.Zone + ".example", Name: recName(t.Name)})
		}
		ctx, cancel := context.WithTimeout(context.Background(), 20*time.Second)
		cfgBefore, targetsBefore := bytes.Clone(pubCfg[call.Cfg]), append([]publish.Target{}, targets...)
		res := cf.PublishECH(ctx, targets, pubCfg[call.Cfg])
		cancel()
		if !bytes.Equal(cfgBefore, pubCfg[call.Cfg]) || !reflect.DeepEqual(targetsBefore, append([]publish.Target{}, targets...)) {
			return fmt.Sprintf("call %d: PublishECH modified the config list or the target list it was given", ci+1)
		}
		if len(res) != len(targets) {
			return fmt.Sprintf("call %d: %d results for %d targets", ci+1, len(res), len(targets))
		}
		var got []string
		for i, r := range res {
			got = append(got, codes[r.Code])
			// the error form of a result agrees with its code: nil exactly for the two successes
			if success := r.Code == publish.StatusUpdated || r.Code == publish.StatusNoChange; (r.Err() == nil) != success {
				return fmt.Sprintf("call %d: result %d has code %v but Err() = %v", ci+1, i+1, codes[r.Code], r.Err())
			}
		}
		where := fmt.Sprintf("call %d", ci+1)
		norm := func(l []string) []string {
			o := append([]string{}, l...)
			if call.Fail.Kind != "none" { // "reports not-found or error for the rest": either, when an API request failed
				for i := range o {
					if o[i] == "notfound" {
						o[i] = "error"
					}
				}
			}
			return o
		}
		if fmt.Sprint(norm(got)) != fmt.Sprint(norm(call.Results)) {
			return fmt.Sprintf("%s: results: spec %v, code %v", where, call.Results, got)
		}
		f.mu.Lock()
		patches := append([]string{}, f.patches...)
		// stored values afterwards
		for _, want := range call.After {
			var r *fakeRec
			for _, x := range f.recs {
				if x.ID == "rec-"+want.Name {
					r = x
				}
			}
			var abs []string
			for _, p := range splitParams(r.Value) {
				abs = append(abs, absParam(p))
			}
			if fmt.Sprint(abs) != fmt.Sprint(append([]string{}, want.Params...)) {
				f.mu.Unlock()
				return fmt.Sprintf("%s: stored value of %s: spec %v, code %q", where, want.Name, want.Params, r.Value)
			}
			if wp, wt := recPrioTgt(want.Name); r.Prio != wp || r.Tgt != wt {
				f.mu.Unlock()
				return fmt.Sprintf("%s: priority/target of %s changed: %d %q", where, want.Name, r.Prio, r.Tgt)
			}
		}
		for _, r := range f.recs {
			if strings.HasPrefix(r.ID, "fill-") && fillBefore[r.ID] != fmt.Sprintf("%s|%d|%s", r.Value, r.Prio, r.Tgt) {
				f.mu.Unlock()
				return fmt.Sprintf("%s: a record that was not requested (%s) was modified", where, r.Name)
			}
		}
		f.mu.Unlock()
		if fmt.Sprint(patches) != fmt.Sprint(append([]string{}, call.Patches...)) {
			return fmt.Sprintf("%s: PATCH requests: spec %v, code %v", where, call.Patches, patches)
		}
	}
	// a call whose context has already ended: still one result per target, none of them a success, nothing written
	if len(c.Calls) > 0 && len(c.Calls[0].Targets) > 0 {
		var targets []publish.Target
		for _, t := range c.Calls[0].Targets {
			targets = append(targets, publish.Target{Zone: t.Zone + ".example", Name: recName(t.Name)})
		}
		f.mu.Lock()
		f.fail, f.nList, f.nPatch, f.patches = pubFail{Kind: "none"}, 0, 0, nil
		f.mu.Unlock()
		ctx, cancel := context.WithCancel(context.Background())
		cancel()
		res := publish.NewCloudflarePublisher("token")
		res.VerifSetAPI(*u, 0)
		rs := res.PublishECH(ctx, targets, pubCfg["C2"])
		if len(rs) != len(targets) {
			return fmt.Sprintf("PublishECH with an ended context: %d results for %d targets", len(rs), len(targets))
		}
		for i, r := range rs {
			if r.Code == publish.StatusUpdated || r.Code == publish.StatusNoChange {
				return fmt.Sprintf("PublishECH with an ended context: target %d reported as %v", i+1, codes[r.Code])
			}
		}
		f.mu.Lock()
		np := len(f.patches)
		f.mu.Unlock()
		if np != 0 {
			return "PublishECH with an ended context wrote to the zone"
		}
	}
	return ""
}

func TestPublishCases(t *testing.T) {
	in, out := os.Getenv("VH_IN"), os.Getenv("VH_OUT")
	if in == "" || out == "" {
		t.Skip("VH_IN/VH_OUT not set")
	}
	cases := readCases[pubCase](t, in)
	w := newNDWriter(t, out)
	defer w.Close()
	results := make([]string, len(cases))
	var wg sync.WaitGroup
	sem := make(chan struct{}, 12)
	for i := range cases {
		wg.Add(1)
		sem <- struct{}{}
		go func(i int) {
			defer wg.Done()
			defer func() { <-sem }()
			results[i] = replayPubCase(&cases[i], i)
		}(i)
	}
	wg.Wait()
	bad, env := 0, 0
	for i, d := range results {
		if strings.HasPrefix(d, "ENV: ") {
			env++
			continue
		}
		if d != "" {
			bad++
			if bad <= 30 {
				w.Write(Ev{"case": cases[i], "diff": d})
			}
		}
	}
	w.Write(Ev{"summary": true, "cases": len(cases), "bad": bad, "env": env})
}
