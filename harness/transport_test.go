package verifharness

// C19 (direction A): every case TLC enumerates from spec/Transport.tla (URL x HTTPS record set x HTTP/3 configured;
// request sequences for the pool) runs through a real Transport: local DoH zone, recording DialFunc connected to one
// local TLS server (certificate valid for all test hosts), stub HTTP/3 round tripper. Observations are compared with
// the specification's output per request.

import (
	"context"
	"crypto/tls"
	"fmt"
	"io"
	"net"
	"net/http"
	"net/http/httptest"
	"os"
	"slices"
	"sort"
	"strings"
	"sync"
	"sync/atomic"
	"testing"
	"time"

	"github.com/c2FmZQ/ech"
)

type trURL struct {
	Scheme string `json:"scheme"`
	Host   string `json:"host"`
	Port   int    `json:"port"`
	Hh     string `json:"hh"`
}
type trRec struct {
	Prio  int      `json:"prio"`
	Alpn  []string `json:"alpn"`
	Nodef bool     `json:"nodef"`
}
type trOut struct {
	O struct {
		Scheme    string `json:"scheme"`
		Sni       string `json:"sni"`
		UseH3     bool   `json:"useH3"`
		Plaintext bool   `json:"plaintext"`
		Host      []any  `json:"host"`
		Dport     int    `json:"dport"`
	} `json:"o"`
	Kept []int `json:"kept"`
}
type trCase struct {
	Reqs   []trURL            `json:"reqs"`
	Recs   map[string][]trRec `json:"recs"`
	H3     bool               `json:"h3"`
	Outs   []trOut            `json:"outs"`
	Served []int              `json:"served"`
}

type trEnv struct {
	srv  *httptest.Server
	pki  *pki
	mu   sync.Mutex
	seen []Ev // requests seen by the TLS server
	addr string
}

func newTrEnv() *trEnv {
	e := &trEnv{pki: newPKI()}
	e.srv = httptest.NewUnstartedServer(http.HandlerFunc(func(w http.ResponseWriter, r *http.Request) {
		e.mu.Lock()
		sni := ""
		if r.TLS != nil {
			sni = r.TLS.ServerName
		}
		e.seen = append(e.seen, Ev{"host": r.Host, "sni": sni, "conn": r.RemoteAddr, "path": r.URL.Path})
		e.mu.Unlock()
		w.Write([]byte("ok"))
	}))
	certA := e.pki.leaf("a.example", false, 0)
	certB := e.pki.leaf("b.example", false, 0)
	e.srv.TLS = &tls.Config{GetCertificate: func(chi *tls.ClientHelloInfo) (*tls.Certificate, error) {
		if chi.ServerName == "b.example" {
			return &certB, nil
		}
		return &certA, nil
	}}
	e.srv.Listener = resetListener{e.srv.Listener}
	e.srv.StartTLS()
	e.addr = e.srv.Listener.Addr().String()
	return e
}

type h3Stub struct {
	mu    sync.Mutex
	ran   int
	dials []Ev
}

func (h *h3Stub) RoundTrip(req *http.Request) (*http.Response, error) {
	h.mu.Lock()
	h.ran++
	h.mu.Unlock()
	d := &ech.Dialer[string]{MaxConcurrency: 1, ConcurrencyDelay: time.Millisecond, DialFunc: func(ctx context.Context, network, addr string, tc *tls.Config) (string, error) {
		h.mu.Lock()
		h.dials = append(h.dials, Ev{"addr": addr, "sn": tc.ServerName})
		h.mu.Unlock()
		return "", fmt.Errorf("stub")
	}}
	d.Dial(req.Context(), "udp", req.URL.Host, nil)
	return &http.Response{StatusCode: 200, Body: io.NopCloser(strings.NewReader("h3")), Header: http.Header{}, Request: req}, nil
}

var wireOrderToggle atomic.Int64

// zoneForm: how the zone tells the records' targets apart - 0: every record has its own port= parameter; 1: no port= and no
// TargetName (the origin's own addresses, at the port the URL implies); 2: no port=, and all service records name ONE
// TargetName (a CDN layout: "1 svc alpn=h3 no-default-alpn", "2 svc alpn=h2"), whose address is looked up separately
var zoneForm atomic.Int64

func replayTrCase(env *trEnv, c *trCase) (diff string) {
	defer func() {
		if p := recover(); p != nil {
			diff = fmt.Sprint("panic: ", p)
		}
	}()
	reverseWire := wireOrderToggle.Add(1)%2 == 0
	form := int(zoneForm.Add(1) % 3)
	// DoH zone: HTTPS records of each host at the host name and at every prefixed name of it; A records for every host
	srv := newDoHServer(func(id int, name string, qtype int) ([]byte, int) {
		base := name
		if strings.HasPrefix(name, "_") {
			parts := strings.SplitN(name, ".", 3)
			if len(parts) == 3 && parts[1] == "_https" { // RFC 9460 2.3 / 9.5: the http scheme is looked up as https
				base = parts[2]
			} else if len(parts) == 3 && strings.HasPrefix(parts[1], "_") {
				base = "no-such-name.invalid"
			}
		}
		h := strings.TrimSuffix(base, ".example")
		var ans []wRR
		switch qtype {
		case tHTTPS:
			// service-mode records first, alias-mode ones after them (so that Resolve keeps the whole rrset)
			order := []int{}
			for i, r := range c.Recs[h] {
				if r.Prio != 0 {
					order = append(order, i)
				}
			}
			if reverseWire { // the order of an RRset on the wire is arbitrary: priorities decide, not positions
				slices.Reverse(order)
			}
			for i, r := range c.Recs[h] {
				if r.Prio == 0 {
					order = append(order, i)
				}
			}
			for _, i := range order {
				r := c.Recs[h][i]
				sp, tgt := svcParams{ALPN: r.Alpn, NoDefault: r.Nodef, Port: 9001 + i}, map[bool]string{true: "alias.example", false: ""}[r.Prio == 0]
				if form != 0 {
					sp.Port = 0
				}
				if form == 2 && r.Prio != 0 {
					tgt = "svc.example"
				}
				ans = append(ans, rrHTTPS(name, 60, r.Prio, tgt, sp))
			}
		case tA:
			if base == name {
				ans = append(ans, rrA(name, 60, "127.0.0.1"))
			}
			if name == "svc.example" {
				ans = []wRR{rrA(name, 60, "127.0.0.9")}
			}
		}
		return wResponse(id, name, qtype, 0, ans), 200
	})
	defer srv.Close()
	res, err := ech.NewResolver(srv.url())
	if err != nil {
		return err.Error()
	}
	var mu sync.Mutex
	var dials []Ev
	t := ech.NewTransport()
	t.Resolver = res
	t.TLSConfig = &tls.Config{RootCAs: env.pki.pool}
	if !reverseWire { // the application brings its own Dialer object ("Its parameters can be modified as needed")
		t.Dialer = ech.NewDialer()
	}
	t.Dialer.MaxConcurrency = 1
	if reverseWire { // "When Dialer is used by Transport, this value is ignored"
		t.Dialer.Resolver = res
	}
	t.Dialer.DialFunc = func(ctx context.Context, network, addr string, tc *tls.Config) (*tls.Conn, error) {
		mu.Lock()
		dials = append(dials, Ev{"addr": addr, "sn": tc.ServerName})
		nth := len(dials)
		mu.Unlock()
		if reverseWire && nth%2 == 1 {
			// the server rejects ECH and hands out retry configs: the attempt goes on with them - same server name
			return nil, &tls.ECHRejectionError{RetryConfigList: []byte{0, 1, 0}}
		}
		if tc.EncryptedClientHelloConfigList != nil { // (the test server does not speak ECH)
			tc = tc.Clone()
			tc.EncryptedClientHelloConfigList = nil
		}
		d := &tls.Dialer{Config: tc}
		conn, err := d.DialContext(ctx, "tcp", env.addr)
		if err != nil {
			return nil, err
		}
		return conn.(*tls.Conn), nil
	}
	var stub *h3Stub
	if c.H3 {
		stub = &h3Stub{}
		t.HTTP3Transport = stub
	}
	defer t.HTTPTransport.CloseIdleConnections()
	client := &http.Client{Transport: t, Timeout: 10 * time.Second, CheckRedirect: func(*http.Request, []*http.Request) error { return http.ErrUseLastResponse }}
	conns := make([]string, len(c.Reqs))
	for k, u := range c.Reqs {
		want := c.Outs[k]
		authority := u.Host + ".example"
		if u.Port != 0 {
			authority = fmt.Sprintf("%s:%d", authority, u.Port)
		}
		path := fmt.Sprintf("/req%d", k)
		req, _ := http.NewRequest("GET", u.Scheme+"://"+authority+path, nil)
		wantHost := authority
		if u.Hh != "" { // the caller sets its own Host header
			req.Host = u.Hh + ".example"
			wantHost = req.Host
		} else if (k+len(c.Reqs))%2 == 1 {
			// a hand-built request: Request.Host left empty, the authority is the URL's (http.NewRequest pre-fills it)
			req = &http.Request{Method: "GET", URL: req.URL, Header: http.Header{}, Proto: "HTTP/1.1", ProtoMajor: 1, ProtoMinor: 1}
		}
		env.mu.Lock()
		env.seen = nil
		env.mu.Unlock()
		mu.Lock()
		dials = nil
		mu.Unlock()
		ranBefore := 0
		if stub != nil {
			stub.mu.Lock()
			ranBefore, stub.dials = stub.ran, nil
			stub.mu.Unlock()
		}
		hostBefore, urlBefore := req.Host, req.URL.String()
		resp, err := t.RoundTrip(req)
		if req.Host != hostBefore || req.URL.String() != urlBefore {
			return fmt.Sprintf("request %d: RoundTrip modified the caller's request (Host %q -> %q, URL %s -> %s)", k+1, hostBefore, req.Host, urlBefore, req.URL)
		}
		_ = client
		where := fmt.Sprintf("request %d (%s://%s)", k+1, u.Scheme, authority)
		body := ""
		if err == nil {
			b, _ := io.ReadAll(resp.Body)
			resp.Body.Close()
			body = string(b)
		}
		env.mu.Lock()
		seen := append([]Ev{}, env.seen...)
		env.mu.Unlock()
		mu.Lock()
		dl := append([]Ev{}, dials...)
		mu.Unlock()
		recs := c.Recs[u.Host]
		var keptPorts []string
		for _, i := range want.Kept {
			keptPorts = append(keptPorts, fmt.Sprintf("127.0.0.1:%d", 9000+i))
		}
		sort.Strings(keptPorts)
		if form != 0 {
			// no port= parameters: one address for all kept records, at the port the URL implies
			keptPorts = nil
			if len(want.Kept) > 0 && want.O.Dport != 0 {
				keptPorts = []string{fmt.Sprintf("%s:%d", map[int]string{1: "127.0.0.1", 2: "127.0.0.9"}[form], want.O.Dport)}
			}
		}
		_ = recs
		switch {
		case want.O.Plaintext:
			if err == nil || !strings.Contains(err.Error(), "plaintext") {
				return fmt.Sprintf("%s: spec says the plaintext request is refused, code: err=%v body=%q", where, err, body)
			}
			if len(dl) != 0 || len(seen) != 0 {
				return fmt.Sprintf("%s: refused request still dialled %v / reached the server", where, dl)
			}
		case want.O.UseH3:
			if stub == nil || stub.ran != ranBefore+1 || body != "h3" {
				return fmt.Sprintf("%s: spec says HTTP/3 is chosen, code used another path (err=%v body=%q)", where, err, body)
			}
			stub.mu.Lock()
			var got []string
			for _, d := range stub.dials {
				got = append(got, d["addr"].(string))
				if d["sn"] != u.Host+".example" {
					stub.mu.Unlock()
					return fmt.Sprintf("%s: HTTP/3 dial with ServerName %q", where, d["sn"])
				}
			}
			stub.mu.Unlock()
			sort.Strings(got)
			if len(keptPorts) > 0 && fmt.Sprint(got) != fmt.Sprint(keptPorts) {
				return fmt.Sprintf("%s: HTTP/3 targets: spec %v, code %v", where, keptPorts, got)
			}
			if len(seen) != 0 {
				return fmt.Sprintf("%s: HTTP/3 chosen but the TCP server was reached", where)
			}
			if resp.Request != req {
				return where + ": response not bound to the caller's request"
			}
		default:
			if stub != nil && stub.ran != ranBefore {
				return fmt.Sprintf("%s: spec says HTTP/1.1-2 is used, code chose HTTP/3", where)
			}
			if err != nil {
				return fmt.Sprintf("%s: spec says the request is served over TLS, code failed: %v", where, err)
			}
			if len(seen) != 1 {
				return fmt.Sprintf("%s: server saw %d requests", where, len(seen))
			}
			if seen[0]["host"] != wantHost {
				return fmt.Sprintf("%s: Host header: spec %q, server saw %q", where, wantHost, seen[0]["host"])
			}
			if seen[0]["sni"] != u.Host+".example" {
				return fmt.Sprintf("%s: TLS server name: spec %q, server saw %q", where, u.Host+".example", seen[0]["sni"])
			}
			for _, d := range dl {
				if d["sn"] != u.Host+".example" {
					return fmt.Sprintf("%s: dial with ServerName %q", where, d["sn"])
				}
			}
			if len(dl) > 0 && len(keptPorts) > 0 {
				first := dl[0]["addr"].(string)
				ok := false
				for _, p := range keptPorts {
					ok = ok || p == first
				}
				if !ok {
					return fmt.Sprintf("%s: dialled %s, not a target of a protocol-compatible record %v", where, first, keptPorts)
				}
			}
			if resp.Request != req {
				return where + ": response not bound to the caller's request"
			}
			conns[k] = seen[0]["conn"].(string)
		}
	}
	// origin isolation over the sequence
	for a := range c.Reqs {
		for b := range c.Reqs {
			if a < b && conns[a] != "" && conns[a] == conns[b] && (c.Served[a] == 0 || c.Served[a] != c.Served[b]) {
				return fmt.Sprintf("requests %d and %d of different origins shared one connection", a+1, b+1)
			}
		}
	}
	return ""
}

func TestTransportCases(t *testing.T) {
	in, out := os.Getenv("VH_IN"), os.Getenv("VH_OUT")
	if in == "" || out == "" {
		t.Skip("VH_IN/VH_OUT not set")
	}
	cases := readCases[trCase](t, in)
	w := newNDWriter(t, out)
	defer w.Close()
	env := newTrEnv()
	defer env.srv.Close()
	bad, nenv := 0, 0
	for i := range cases {
		if d := replayTrCase(env, &cases[i]); d != "" {
			if envText(d) {
				nenv++
				continue
			}
			bad++
			if bad <= 30 {
				w.Write(Ev{"case": cases[i], "diff": d})
			}
		}
	}
	w.Write(Ev{"summary": true, "cases": len(cases), "bad": bad, "env": nenv})
	_ = net.IP{}
}

// Origins given as IPv6 literals: two different literals on the same port are two origins - their requests never share a
// pooled connection, and each connection is authenticated for its own literal.
func TestTransportIPv6Origins(t *testing.T) {
	out := os.Getenv("VH_OUT")
	if out == "" {
		t.Skip("VH_OUT not set")
	}
	w := newNDWriter(t, out)
	defer w.Close()
	p := newPKI()
	certs := map[string]tls.Certificate{}
	lits := []string{"2001:db8::", "2001:db8::443", "2001:db8::8443", "2001:db8::1:443"}
	for _, l := range lits {
		certs[l] = p.leaf(l, false, 0)
	}
	var mu sync.Mutex
	type seenReq struct{ conn, host, lit string }
	var seen []seenReq
	dialed := map[string]string{} // local address of the client side of a connection -> literal it was dialled for
	ln, err := net.Listen("tcp", "127.0.0.1:0")
	if err != nil {
		w.Write(Ev{"summary": true, "env": 1})
		return
	}
	// every literal gets its own certificate: the server picks it by the connection's intended literal (IP literals carry
	// no SNI, and crypto/tls only asks GetCertificate without SNI when Certificates is empty - hence no httptest server)
	tcfg := &tls.Config{GetCertificate: func(chi *tls.ClientHelloInfo) (*tls.Certificate, error) {
		mu.Lock()
		l, ok := dialed[chi.Conn.RemoteAddr().String()]
		mu.Unlock()
		if !ok {
			return nil, fmt.Errorf("unknown connection")
		}
		c := certs[l]
		return &c, nil
	}}
	hs := &http.Server{Handler: http.HandlerFunc(func(rw http.ResponseWriter, r *http.Request) {
		mu.Lock()
		seen = append(seen, seenReq{conn: r.RemoteAddr, host: r.Host, lit: dialed[r.RemoteAddr]})
		mu.Unlock()
		rw.Write([]byte("ok"))
	})}
	go hs.Serve(tls.NewListener(resetListener{ln}, tcfg))
	defer hs.Close()
	tr := ech.NewTransport()
	tr.Resolver = ech.InsecureGoResolver()
	tr.TLSConfig = &tls.Config{RootCAs: p.pool}
	tr.Dialer.MaxConcurrency = 1
	tr.Dialer.DialFunc = func(ctx context.Context, network, addr string, tc *tls.Config) (*tls.Conn, error) {
		host, _, _ := net.SplitHostPort(addr)
		raw, err := (&net.Dialer{}).DialContext(ctx, "tcp", ln.Addr().String())
		if err != nil {
			return nil, err
		}
		mu.Lock()
		dialed[raw.LocalAddr().String()] = host
		mu.Unlock()
		c := tls.Client(raw, tc)
		if err := c.HandshakeContext(ctx); err != nil {
			raw.Close()
			return nil, err
		}
		return c, nil
	}
	defer tr.HTTPTransport.CloseIdleConnections()
	bad := 0
	report := func(d string) {
		bad++
		w.Write(Ev{"key": "ipv6", "diff": d})
	}
	for round := 0; round < 2; round++ {
		for _, l := range lits {
			req, _ := http.NewRequest("GET", "https://["+l+"]:8443/r", nil)
			resp, err := tr.RoundTrip(req)
			if err != nil {
				if envError(err) {
					w.Write(Ev{"summary": true, "env": 1})
					return
				}
				report(fmt.Sprintf("request to https://[%s]:8443 failed: %v", l, err))
				continue
			}
			io.ReadAll(resp.Body)
			resp.Body.Close()
			mu.Lock()
			last := seen[len(seen)-1]
			mu.Unlock()
			if last.lit != l {
				report(fmt.Sprintf("the request for origin [%s]:8443 travelled on a connection that was dialled (and authenticated) for [%s]", l, last.lit))
			}
			if last.host != "["+l+"]:8443" {
				report(fmt.Sprintf("Host header %q for origin [%s]:8443", last.host, l))
			}
		}
	}
	w.Write(Ev{"summary": true, "cases": 2 * len(lits), "bad": bad})
}
