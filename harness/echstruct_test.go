package verifharness

// C08 (and the truncation clause of C04): structural damage at every length-prefixed node of real hellos.
// The base hellos come from spec/EchHello.tla (ops structOuter / structInner); the oracle is the specification's:
// a hello damaged in transit is never accepted (abort with alert+close, or pass-through); a damaged inner
// hello may have any outcome; in all cases NewConn returns promptly, does not panic and allocates a bounded amount.

import (
	"bytes"
	"fmt"
	"os"
	"runtime"
	"testing"
	"time"
)

const allocLimit = 1 << 20 // bytes allocated by one NewConn+Read on a <=16 KiB hello (measured: ~60 KiB)

func TestEchStruct(t *testing.T) {
	in, out := os.Getenv("VH_IN"), os.Getenv("VH_OUT")
	if in == "" || out == "" {
		t.Skip("VH_IN/VH_OUT not set")
	}
	kr := newKeyring(seed())
	cases := readCases[echCase](t, in)
	w := newNDWriter(t, out)
	defer w.Close()
	nEval, maxAlloc := 0, uint64(0)
	var maxDur time.Duration
	for ci := range cases {
		c := &cases[ci]
		keys := kr.serverKeys(c.Keys)
		eo := encOpts{padLen: 13}
		// count the nodes
		encFault = &faultCtx{target: -1, enabled: c.Op == "structOuter"}
		concretise(kr, &c.Hello, eo, c.Op)
		nodes := encFault.counter
		encFault = nil
		if nodes == 0 {
			w.Write(Ev{"key": c.key(), "diff": "no structural nodes found (harness problem)", "case": c})
			continue
		}
		for node := 1; node <= nodes; node++ {
			for _, kind := range []string{"plus1", "minus1", "trunc"} {
				encFault = &faultCtx{target: node, kind: kind, enabled: c.Op == "structOuter"}
				rec := concretise(kr, &c.Hello, eo, c.Op)
				applied := encFault.applied
				encFault = nil
				if !applied {
					continue
				}
				var m0, m1 runtime.MemStats
				runtime.ReadMemStats(&m0)
				t0 := time.Now()
				o := runNewConn(rec, keys)
				d := time.Since(t0)
				runtime.ReadMemStats(&m1)
				nEval++
				alloc := m1.TotalAlloc - m0.TotalAlloc
				maxAlloc = max(maxAlloc, alloc)
				maxDur = max(maxDur, d)
				diff := ""
				switch {
				case o.Kind == "panic":
					diff = "panic: " + o.Panic
				case d > 2*time.Second:
					diff = fmt.Sprintf("NewConn took %v", d)
				case alloc > allocLimit:
					diff = fmt.Sprintf("NewConn allocated %d bytes for a %d-byte hello", alloc, len(rec))
				case o.Kind == "abort":
					code, ok := alertCode[o.Class]
					if !ok {
						code = 40
					}
					if !bytes.Equal(o.Alert, []byte{0x15, 3, 3, 0, 2, 2, code}) || !o.Closed || o.Leaked != 0 {
						diff = fmt.Sprintf("aborted (%s) but alert=%x closed=%v leaked=%d", o.Class, o.Alert, o.Closed, o.Leaked)
					}
				case c.Op == "structOuter" && o.Kind == "accept":
					diff = "a hello damaged in transit was accepted"
				case c.Op == "structOuter" && o.Kind == "pass":
					// a malformed hello that still parses is outside C05's "syntactically valid" domain: how its
					// bytes are forwarded is not specified, only that it is not accepted
				}
				if diff != "" {
					w.Write(Ev{"key": c.key(), "node": node, "kind": kind, "diff": diff, "sent": fmt.Sprintf("%x", rec), "obs": o, "case": c})
				}
			}
		}
	}
	w.Write(Ev{"summary": true, "evaluations": nEval, "cases": len(cases), "max_alloc": maxAlloc, "max_ms": maxDur.Milliseconds()})
}
