package verifharness

// C17, DoH path: the host comes from net.SplitHostPort of the caller's address and the targets from a real
// Resolver talking to a local DoH server. DNS alias and service-target names must never become the TLS ServerName,
// and the ECH list of an address must be the one of the record that produced it.

import (
	"bytes"
	"context"
	"crypto/tls"
	"errors"
	"fmt"
	"os"
	"strings"
	"sync"
	"testing"
	"time"

	"github.com/c2FmZQ/ech"
)

func TestDialPolicyDoH(t *testing.T) {
	out := os.Getenv("VH_OUT")
	if out == "" {
		t.Skip("VH_OUT not set")
	}
	zone := []wRR{
		// plain: addresses only
		rrA("plain.example", 60, "10.1.0.1"),
		// svc: two service-mode records, one with its own target name and ECH list E1, one in-place with E2
		rrHTTPS("svc.example", 60, 1, "target.example", svcParams{ECH: polLists["E1"], Port: 8441}),
		rrHTTPS("svc.example", 60, 2, "", svcParams{ECH: polLists["E2"], Port: 8442}),
		rrA("svc.example", 60, "10.2.0.1"),
		rrA("target.example", 60, "10.2.0.9"),
		// aliased: alias-mode record pointing at another name that has the service record
		rrHTTPS("aliased.example", 60, 0, "alias-target.example", svcParams{}),
		rrHTTPS("alias-target.example", 60, 1, "", svcParams{ECH: polLists["E1"]}),
		rrA("alias-target.example", 60, "10.3.0.1"),
		// cnamed: CNAME to another name
		rrCNAME("cnamed.example", 60, "canonical.example"),
		rrA("canonical.example", 60, "10.4.0.1"),
		// deadtarget: the preferred record names a target that has no addresses (contributes nothing); the next one is in place
		rrHTTPS("deadtarget.example", 60, 1, "void.example", svcParams{ECH: polLists["E1"], Port: 8451}),
		rrHTTPS("deadtarget.example", 60, 2, "", svcParams{ECH: polLists["E2"], Port: 8452}),
		rrA("deadtarget.example", 60, "10.6.0.1"),
		// deadplain: the same with a preferred record that carries no ech and the default port
		rrHTTPS("deadplain.example", 60, 1, "void.example", svcParams{ALPN: []string{"h2"}}),
		rrHTTPS("deadplain.example", 60, 2, "", svcParams{ECH: polLists["E2"]}),
		rrA("deadplain.example", 60, "10.7.0.1"),
		// mixed: a service-mode record followed (on the wire) by an alias-mode record "0 ." that carries parameters of its
		// own: alias records produce no target and their parameters are ignored
		rrHTTPS("mixed.example", 60, 1, "", svcParams{ECH: polLists["E1"]}),
		rrHTTPS("mixed.example", 60, 0, "", svcParams{ECH: polLists["E2"]}),
		rrA("mixed.example", 60, "10.8.0.1"),
		// selftarget: a service-mode record that spells out its own owner name as TargetName (usually written ".")
		rrHTTPS("selftarget.example", 60, 1, "selftarget.example", svcParams{ECH: polLists["E1"]}),
		rrA("selftarget.example", 60, "10.9.0.1"),
		// noech: service record without ech
		rrHTTPS("noech.example", 60, 1, "", svcParams{ALPN: []string{"h2"}}),
		rrA("noech.example", 60, "10.5.0.1"),
	}
	srv := newDoHServer(zoneAnswer(zone))
	defer srv.Close()
	// address -> abstract ECH value its record carries
	recECH := map[string]string{
		"10.1.0.1:443": "nil", "10.2.0.9:8441": "E1", "10.2.0.1:8442": "E2", "10.3.0.1:443": "E1", "10.4.0.1:443": "nil", "10.5.0.1:443": "nil",
		"10.6.0.1:8452": "E2", "10.7.0.1:443": "E2", "10.8.0.1:443": "E1", "10.9.0.1:443": "E1",
	}
	w := newNDWriter(t, out)
	defer w.Close()
	for _, host := range []string{"plain.example", "svc.example", "aliased.example", "cnamed.example", "noech.example", "deadtarget.example", "deadplain.example", "mixed.example", "selftarget.example"} {
		for _, form := range []string{"host", "hostport"} {
			for _, csn := range []string{"", "caller-sn.example"} {
				for _, cech := range []string{"nil", "Ec"} {
					for _, req := range []bool{false, true} {
						longPub := ""
						if req && (len(host)+len(form)+len(csn))%2 == 0 {
							longPub = strings.Repeat("p", 300) // a PublicName that cannot be encoded: no bootstrap list, and no attempt without one
						}
						res, err := ech.NewResolver(srv.url())
						if err != nil {
							t.Fatal(err)
						}
						var mu sync.Mutex
						var calls []Ev
						d := &ech.Dialer[*polConn]{
							RequireECH: req, Resolver: res, MaxConcurrency: 1, ConcurrencyDelay: time.Millisecond, Timeout: time.Second,
							PublicName: longPub,
							DialFunc: func(ctx context.Context, network, addr string, tc *tls.Config) (*polConn, error) {
								mu.Lock()
								calls = append(calls, Ev{"addr": addr, "sn": tc.ServerName, "ech": classifyECH(tc.EncryptedClientHelloConfigList, "")})
								mu.Unlock()
								return nil, errors.New("scripted failure")
							},
						}
						var tc *tls.Config
						if csn != "" || cech != "nil" {
							tc = &tls.Config{ServerName: csn}
							if cech != "nil" {
								tc.EncryptedClientHelloConfigList = bytes.Clone(polLists[cech])
							}
						}
						addr := host
						if form == "hostport" {
							addr = host + ":443"
						}
						ctx, cancel := context.WithTimeout(context.Background(), 10*time.Second)
						d.Dial(ctx, "tcp", addr, tc)
						cancel()
						// the caller's configuration is the caller's: Dial works on copies
						if tc != nil {
							if tc.ServerName != csn || (cech == "nil") != (tc.EncryptedClientHelloConfigList == nil) ||
								(cech != "nil" && !bytes.Equal(tc.EncryptedClientHelloConfigList, polLists[cech])) {
								w.Write(Ev{"case": Ev{"host": host, "form": form, "csn": csn, "cech": cech, "req": req}, "calls": calls, "ok": false,
									"why": fmt.Sprintf("Dial modified the caller's tls.Config: ServerName %q, ECH list %s", tc.ServerName, classifyECH(tc.EncryptedClientHelloConfigList, "")), "wantsn": csn})
								continue
							}
						}
						// the same Dialer and the same caller configuration used again for another host: nothing of the first call sticks
						if host != "plain.example" {
							mu.Lock()
							n0 := len(calls)
							mu.Unlock()
							ctx2, cancel2 := context.WithTimeout(context.Background(), 10*time.Second)
							d.Dial(ctx2, "tcp", "plain.example", tc)
							cancel2()
							mu.Lock()
							second := append([]Ev{}, calls[n0:]...)
							calls = calls[:n0]
							mu.Unlock()
							want2 := "plain.example"
							if csn != "" {
								want2 = csn
							}
							bad2 := ""
							for _, c := range second {
								wantE := "nil"
								if cech != "nil" {
									wantE = cech
								}
								if c["addr"] != "10.1.0.1:443" || c["sn"] != want2 || c["ech"] != wantE {
									bad2 = fmt.Sprintf("second Dial (plain.example) with the same Dialer and config: attempt %v, want 10.1.0.1:443 ServerName %q ECH %s", c, want2, wantE)
								}
							}
							if req && cech == "nil" && len(second) > 0 {
								bad2 = "second Dial (plain.example, RequireECH, no list anywhere) made an attempt"
							}
							if bad2 != "" {
								w.Write(Ev{"case": Ev{"host": host, "form": form, "csn": csn, "cech": cech, "req": req}, "calls": second, "ok": false, "why": bad2, "wantsn": want2})
								continue
							}
						}
						wantSN := host
						if csn != "" {
							wantSN = csn
						}
						ok := true
						why := ""
						for _, c := range calls {
							a := c["addr"].(string)
							wantECH, known := recECH[a]
							if !known {
								ok, why = false, "address not derived from the zone: "+a
							}
							if cech != "nil" {
								wantECH = cech
							}
							if c["sn"] != wantSN {
								ok, why = false, "ServerName"
							}
							if c["ech"] != wantECH {
								ok, why = false, "ECH list"
							}
							if req && c["ech"] == "nil" {
								ok, why = false, "RequireECH but attempt without ECH"
							}
						}
						w.Write(Ev{"case": Ev{"host": host, "form": form, "csn": csn, "cech": cech, "req": req}, "calls": calls, "ok": ok, "why": why, "wantsn": wantSN})
					}
				}
			}
		}
	}
}
