package verifharness

// spec/Doh.tla (direction A): every (status, framing, body) class TLC enumerates is served by a raw TCP "DoH server"
// to the real dns.DoH. Compared: message / error against the admissible set, the request the server saw (RFC 8484
// POST, media types, the query bytes), number of requests, bounded allocation and bounded time.

import (
	"bufio"
	"bytes"
	"context"
	"fmt"
	"io"
	"net"
	"net/http"
	"os"
	"reflect"
	"runtime"
	"strings"
	"sync"
	"sync/atomic"
	"testing"
	"time"

	"github.com/c2FmZQ/ech/dns"
)

type dohCase struct {
	St    int      `json:"st"`
	Fr    string   `json:"fr"`
	Bd    string   `json:"bd"`
	Res   string   `json:"res"`
	Retry bool     `json:"retry"`
	Ctx   string   `json:"ctx"`
	Sent  int      `json:"sent"`
	Ok    []string `json:"ok"`
}

func (c *dohCase) key() string { return fmt.Sprintf("%d/%s/%s/%s", c.St, c.Fr, c.Bd, c.Ctx) }

func optPadding(n int) []byte { // OPT RR whose padding option makes the RR n bytes long (n >= 15)
	b := []byte{0}
	b = append(b, u16(tOPT)...)
	b = append(b, u16(4096)...)
	b = append(b, 0, 0, 0, 0)
	b = append(b, u16(n-11)...)
	b = append(b, u16(12)...)
	b = append(b, u16(n-15)...)
	return append(b, make([]byte, n-15)...)
}

func dohBody(kind string, over bool) []byte {
	ans := wResponse(0, "x.example", tA, 0, []wRR{rrA("x.example", 60, "192.0.2.7"), rrA("x.example", 60, "192.0.2.8")})
	switch kind {
	case "answer":
		return ans
	case "padded":
		b := append(bytes.Clone(ans), optPadding(468-len(ans))...)
		b[11] = 1 // ARCOUNT
		return b
	case "big":
		target := 65535
		if over {
			target = 66000
		}
		var rrs []wRR
		size := len(wResponse(0, "x.example", tA, 0, nil))
		for target-size > 600 {
			txt := append([]byte{255}, bytes.Repeat([]byte{'t'}, 255)...)
			r := wRR{"x.example", 16, 60, txt}
			rrs = append(rrs, r)
			size += len(r.bytes())
		}
		b := wResponse(0, "x.example", tA, 0, rrs)
		b = append(b, optPadding(target-len(b))...)
		b[11] = 1
		return b
	case "garbage":
		return bytes.Repeat([]byte{0xff}, 40)
	case "truncated":
		return ans[:len(ans)-3]
	}
	return nil
}

type rawDoH struct {
	ln   net.Listener
	mu   sync.Mutex
	reqs []*http.Request
	bods [][]byte
	at   []time.Time
	n    atomic.Int32
}

// serve answers every connection with status/framing/body; the request is recorded.
func newRawDoH(c *dohCase, body []byte) (*rawDoH, error) {
	ln, err := net.Listen("tcp", "127.0.0.1:0")
	if err != nil {
		return nil, err
	}
	s := &rawDoH{ln: ln}
	go func() {
		for {
			conn, err := ln.Accept()
			if err != nil {
				return
			}
			go func(conn net.Conn) {
				defer conn.Close()
				conn.SetDeadline(time.Now().Add(30 * time.Second))
				br := bufio.NewReader(conn)
				req, err := http.ReadRequest(br)
				if err != nil {
					return
				}
				b, _ := io.ReadAll(req.Body)
				s.mu.Lock()
				s.reqs, s.bods, s.at = append(s.reqs, req), append(s.bods, b), append(s.at, time.Now())
				s.mu.Unlock()
				s.n.Add(1)
				if c.Fr == "reset" {
					return
				}
				var w bytes.Buffer
				fmt.Fprintf(&w, "HTTP/1.1 %d %s\r\nContent-Type: application/dns-message\r\nConnection: close\r\n", c.St, http.StatusText(c.St))
				send := body
				switch c.Fr {
				case "exact", "over":
					fmt.Fprintf(&w, "Content-Length: %d\r\n\r\n", len(body))
				case "chunked":
					fmt.Fprintf(&w, "Transfer-Encoding: chunked\r\n\r\n")
					if len(body) > 0 {
						send = append([]byte(fmt.Sprintf("%x\r\n", len(body))), body...)
						send = append(send, "\r\n"...)
					}
					send = append(bytes.Clone(send), "0\r\n\r\n"...)
				case "endless":
					fmt.Fprintf(&w, "Transfer-Encoding: chunked\r\n\r\n")
					conn.Write(w.Bytes())
					chunk := append([]byte(fmt.Sprintf("%x\r\n", len(body))), body...)
					chunk = append(chunk, "\r\n"...)
					stop := time.Now().Add(50 * time.Second)
					for time.Now().Before(stop) {
						conn.SetWriteDeadline(time.Now().Add(time.Second))
						if _, err := conn.Write(chunk); err != nil {
							return
						}
						time.Sleep(5 * time.Millisecond)
					}
					return
				case "closedelim":
					fmt.Fprintf(&w, "\r\n")
				case "short":
					fmt.Fprintf(&w, "Content-Length: %d\r\n\r\n", max(len(body)-7, 1))
				case "long":
					fmt.Fprintf(&w, "Content-Length: %d\r\n\r\n", len(body)+50)
				case "zero":
					fmt.Fprintf(&w, "Content-Length: 0\r\n\r\n")
					send = nil
				case "huge":
					fmt.Fprintf(&w, "Content-Length: %d\r\n\r\n", 1<<31)
				case "badlen":
					fmt.Fprintf(&w, "Content-Length: twelve\r\n\r\n")
				}
				w.Write(send)
				conn.Write(w.Bytes())
				if c.Fr == "huge" {
					time.Sleep(300 * time.Millisecond) // then silence and close
				}
			}(conn)
		}
	}()
	return s, nil
}

func runDohCase(c *dohCase, fullRetry bool) (diff string, env bool) {
	if c.Bd == "empty" && c.Fr == "short" {
		return "", false // nothing to shorten
	}
	body := dohBody(c.Bd, c.Fr == "over")
	s, err := newRawDoH(c, body)
	if err != nil {
		return err.Error(), true
	}
	defer s.ln.Close()
	q := &dns.Message{RD: 1, Question: []dns.Question{{Name: "x.example", Type: 1, Class: 1}}}
	q.AddPadding()
	qBytes := bytes.Clone(q.Bytes())
	ctx, cancel := context.WithCancel(context.Background())
	limit := time.Duration(0)
	if c.Retry && !fullRetry {
		limit = 1500 * time.Millisecond
		ctx, cancel = context.WithTimeout(context.Background(), limit)
	}
	defer cancel()
	type out struct {
		m   *dns.Message
		err error
		p   any
	}
	ch := make(chan out, 1)
	var ms0, ms1 runtime.MemStats
	t0 := time.Now()
	go func() {
		var o out
		defer func() {
			o.p = recover()
			ch <- o
		}()
		o.m, o.err = dns.DoH(ctx, q, "http://"+s.ln.Addr().String()+"/dns-query")
	}()
	if c.Fr == "huge" {
		runtime.ReadMemStats(&ms0)
	}
	var o out
	select {
	case o = <-ch:
	case <-time.After(limit + 3*watchdogLimit()):
		noteHang()
		return "DoH did not return (the specification's exchange terminates)", false
	}
	el := time.Since(t0)
	if c.Fr == "endless" && el > watchdogLimit() {
		return fmt.Sprintf("a response body that never ends kept DoH busy for %v: the size of a DNS message is bounded, the read must be too", el), false
	}
	if o.p != nil {
		return fmt.Sprint("panic: ", o.p), false
	}
	if c.Fr == "huge" {
		runtime.ReadMemStats(&ms1)
		if d := ms1.TotalAlloc - ms0.TotalAlloc; d > 1<<30 {
			return fmt.Sprintf("a response announcing 2 GiB made DoH allocate %d MiB before reading a byte", d>>20), false
		}
	}
	got := "msg"
	if o.err != nil {
		got = "err"
		if !c.Retry && envError(o.err) && !strings.Contains(o.err.Error(), "EOF") {
			return o.err.Error(), true
		}
	}
	okSet := map[string]bool{}
	for _, k := range c.Ok {
		okSet[k] = true
	}
	if !okSet[got] {
		return fmt.Sprintf("spec admits %v; code returned %s (err=%v)", c.Ok, got, o.err), false
	}
	if got == "msg" {
		// integrity: exactly the message the server sent (judged through the records it carries)
		if len(o.m.Answer) < 2 && c.Bd != "big" || o.m.ResponseCode() != 0 || len(o.m.Question) != 1 || o.m.Question[0].Name != "x.example" {
			return fmt.Sprintf("returned message is not the one sent: %+v", o.m), false
		}
		if c.Bd != "big" {
			var ips []string
			for _, a := range o.m.Answer {
				if ip, ok := a.Data.(net.IP); ok {
					ips = append(ips, ip.String())
				}
			}
			if !reflect.DeepEqual(ips, []string{"192.0.2.7", "192.0.2.8"}) {
				return fmt.Sprintf("returned message carries %v, the server sent 192.0.2.7 192.0.2.8", ips), false
			}
		}
	}
	// what the server saw
	if limit > 0 && el > limit+watchdogLimit()/2 {
		return fmt.Sprintf("DoH returned %v after its context ended", el-limit), false
	}
	if c.Retry {
		time.Sleep(2500 * time.Millisecond) // a request after the call returned is a leaked retry
	}
	s.mu.Lock()
	defer s.mu.Unlock()
	if len(s.reqs) == 0 {
		return "no request reached the server", false
	}
	if !c.Retry && len(s.reqs) != 1 {
		return fmt.Sprintf("spec: one request; the server saw %d", len(s.reqs)), false
	}
	for i, r := range s.reqs {
		if r.Method != "POST" || r.Header.Get("Content-Type") != "application/dns-message" || !strings.Contains(r.Header.Get("Accept"), "application/dns-message") {
			return fmt.Sprintf("request %d is not an RFC 8484 POST: %s content-type=%q accept=%q", i, r.Method, r.Header.Get("Content-Type"), r.Header.Get("Accept")), false
		}
		if r.URL.Path != "/dns-query" {
			return "request path " + r.URL.Path, false
		}
		if !bytes.Equal(s.bods[i], qBytes) {
			return fmt.Sprintf("request %d body is not the query's wire form", i), false
		}
		if c.Retry && s.at[i].After(t0.Add(el).Add(300*time.Millisecond)) {
			return fmt.Sprintf("request %d reached the server %v after DoH had returned", i, s.at[i].Sub(t0.Add(el))), false
		}
	}
	return "", false
}

func TestDohCases(t *testing.T) {
	in, out := os.Getenv("VH_IN"), os.Getenv("VH_OUT")
	if in == "" || out == "" {
		t.Skip("VH_IN/VH_OUT not set")
	}
	full := os.Getenv("VH_FULLRETRY") == "1"
	cases := readCases[dohCase](t, in)
	w := newNDWriter(t, out)
	defer w.Close()
	// one run per (status, framing, body); the model's ctx/sent variants of a retried exchange collapse to one timed run
	seen := map[string]bool{}
	var todo []*dohCase
	for i := range cases {
		c := &cases[i]
		k := fmt.Sprintf("%d/%s/%s", c.St, c.Fr, c.Bd)
		if !seen[k] {
			seen[k] = true
			todo = append(todo, c)
		}
	}
	diffs := make([]string, len(todo))
	envs := make([]bool, len(todo))
	var wg sync.WaitGroup
	sem := make(chan struct{}, 8)
	for i, c := range todo {
		if c.Fr == "huge" { // allocation is measured process-wide: these run alone, first
			diffs[i], envs[i] = runDohCase(c, false)
		}
	}
	for i, c := range todo {
		if c.Fr == "huge" {
			continue
		}
		wg.Add(1)
		go func(i int, c *dohCase) {
			defer wg.Done()
			if !c.Retry {
				sem <- struct{}{}
				defer func() { <-sem }()
			}
			diffs[i], envs[i] = runDohCase(c, false)
			if diffs[i] == "" && c.Retry && full {
				diffs[i], envs[i] = runDohCase(c, true)
			}
		}(i, c)
	}
	wg.Wait()
	bad, env := 0, 0
	for i, c := range todo {
		switch {
		case envs[i]:
			env++
		case diffs[i] != "":
			bad++
			w.Write(Ev{"key": c.key(), "case": c, "diff": diffs[i]})
		}
	}
	w.Write(Ev{"summary": true, "cases": len(todo), "bad": bad, "env": env})
}
