package verifharness

// C17 (direction B): TLC-emitted policy scenarios run on the real Dialer; every DialFunc invocation is logged with
// the ServerName and the (classified) ECH config list it was given; TLC validates against TraceDialPolicy.tla.

import (
	"bytes"
	"context"
	"crypto/tls"
	"errors"
	"fmt"
	"net"
	"os"
	"strconv"
	"strings"
	"sync"
	"testing"
	"testing/synctest"
	"time"

	"github.com/c2FmZQ/ech"
	"github.com/c2FmZQ/ech/dns"
)

type polScen struct {
	N      int        `json:"n"`
	Cech   string     `json:"cech"`
	Csn    string     `json:"csn"`
	Req    bool       `json:"req"`
	Pub    string     `json:"pub"`
	Tech   []string   `json:"tech"`
	Script [][]string `json:"script"`
}

// concrete ECH config lists for the abstract values (real, parseable lists so that nothing chokes on them)
var polLists = func() map[string][]byte {
	m := map[string][]byte{}
	for i, name := range []string{"Ec", "E1", "E2", "R1", "R2"} {
		_, cfg, err := ech.NewConfig(uint8(10+i), []byte("public-"+strings.ToLower(name)+".example"))
		if err != nil {
			panic(err)
		}
		l, err := ech.ConfigList([]ech.Config{cfg})
		if err != nil {
			panic(err)
		}
		m[name] = l
	}
	return m
}()

func classifyECH(b []byte, pub string) string {
	if b == nil {
		return "nil"
	}
	if len(b) == 0 {
		return "Empty"
	}
	for k, v := range polLists {
		if bytes.Equal(b, v) {
			return k
		}
	}
	if specs, err := ech.ParseConfigList(b); err == nil && len(specs) == 1 && pub != "" && string(specs[0].PublicName) == pub {
		return "boot"
	}
	return fmt.Sprintf("other:%x", b)
}

type polConn struct{ i int }

func (c *polConn) Close() error { return nil }

func runPolScenario(t *testing.T, sc polScen, K int) (evs []Ev, crash string) {
	defer func() {
		if r := recover(); r != nil {
			crash = fmt.Sprint(r)
		}
	}()
	synctest.Test(t, func(t *testing.T) {
		var mu sync.Mutex
		log := func(e Ev) {
			mu.Lock()
			evs = append(evs, e)
			mu.Unlock()
		}
		// resolution result: one service-mode HTTPS record per target, distinguished by port
		res := ech.ResolveResult{Port: 443, Address: []net.IP{{10, 0, 0, 1}}}
		addrIdx := map[string]int{}
		for i := 0; i < sc.N; i++ {
			h := dns.HTTPS{Priority: uint16(i + 1), Port: uint16(1001 + i)}
			if sc.Tech[i] != "nil" {
				h.ECH = bytes.Clone(polLists[sc.Tech[i]])
			}
			res.HTTPS = append(res.HTTPS, h)
			addrIdx[fmt.Sprintf("10.0.0.1:%d", 1001+i)] = i + 1
		}
		pubName := ""
		if sc.Pub != "" {
			pubName = "bootstrap-public.example"
		}
		cnt := map[int]int{}
		d := &ech.Dialer[*polConn]{
			RequireECH:       sc.Req,
			PublicName:       pubName,
			MaxConcurrency:   K,
			ConcurrencyDelay: time.Millisecond,
			Timeout:          time.Second,
			DialFunc: func(ctx context.Context, network, addr string, tc *tls.Config) (*polConn, error) {
				mu.Lock()
				i := addrIdx[addr]
				cnt[i]++
				k := cnt[i]
				sn := tc.ServerName
				switch sn {
				case "origin.example":
					sn = "host"
				case "caller-sn.example":
					sn = "SNc"
				}
				evs = append(evs, Ev{"e": "invoke", "i": i, "k": k, "sn": sn, "ech": classifyECH(tc.EncryptedClientHelloConfigList, pubName), "addrok": i > 0})
				mu.Unlock()
				o := "err"
				if i > 0 && k <= len(sc.Script[i-1]) {
					o = sc.Script[i-1][k-1]
				}
				log(Ev{"e": "result", "i": i, "k": k, "r": o})
				switch o {
				case "ok":
					return &polConn{i: i}, nil
				case "rejnil":
					return nil, &tls.ECHRejectionError{}
				case "rejR1":
					if i%2 == 0 { // wrapped, as a QUIC transport reports it
						return nil, fmt.Errorf("transport: handshake failed: %w", &tls.ECHRejectionError{RetryConfigList: bytes.Clone(polLists["R1"])})
					}
					return nil, &tls.ECHRejectionError{RetryConfigList: bytes.Clone(polLists["R1"])}
				case "rejSame": // retry configs identical to the list just used (nil when there was none)
					return nil, &tls.ECHRejectionError{RetryConfigList: bytes.Clone(tc.EncryptedClientHelloConfigList)}
				case "rejR2":
					return nil, &tls.ECHRejectionError{RetryConfigList: bytes.Clone(polLists["R2"])}
				}
				return nil, errors.New("scripted failure")
			},
		}
		var tc *tls.Config
		if sc.Cech != "nil" || sc.Csn != "" {
			tc = &tls.Config{NextProtos: []string{"h2"}}
			if sc.Cech == "Empty" {
				tc.EncryptedClientHelloConfigList = []byte{}
			} else if sc.Cech != "nil" {
				tc.EncryptedClientHelloConfigList = bytes.Clone(polLists[sc.Cech])
			}
			if sc.Csn != "" {
				tc.ServerName = "caller-sn.example"
			}
		}
		var before *tls.Config
		if tc != nil {
			before = tc.Clone()
		}
		ctx := ech.VerifContextWithResolveResult(context.Background(), "origin.example", res)
		c, err := d.Dial(ctx, "tcp", "origin.example:443", tc)
		same := true
		if tc != nil {
			same = tc.ServerName == before.ServerName && bytes.Equal(tc.EncryptedClientHelloConfigList, before.EncryptedClientHelloConfigList) &&
				(tc.EncryptedClientHelloConfigList == nil) == (before.EncryptedClientHelloConfigList == nil) &&
				len(tc.NextProtos) == 1 && tc.NextProtos[0] == "h2" && tc.MinVersion == before.MinVersion
		}
		r := "err"
		ri := 0
		if err == nil && c != nil {
			r, ri = "conn", c.i
		}
		log(Ev{"e": "ret", "r": r, "i": ri, "cfgsame": same})
		synctest.Wait()
		log(Ev{"e": "quiesce", "r": r, "k1": K == 1})
	})
	return evs, ""
}

func TestDialPolicyScenarios(t *testing.T) {
	in, out := os.Getenv("VH_IN"), os.Getenv("VH_OUT")
	if in == "" || out == "" {
		t.Skip("VH_IN/VH_OUT not set")
	}
	var ks []int
	for _, s := range strings.Split(envOr("VH_KS", "1,3"), ",") {
		k, _ := strconv.Atoi(s)
		ks = append(ks, k)
	}
	scens := readCases[polScen](t, in)
	w := newNDWriter(t, out)
	defer w.Close()
	for _, K := range ks {
		for _, sc := range scens {
			evs, crash := runPolScenario(t, sc, K)
			w.Write(Ev{"e": "reset", "scen": sc, "K": K})
			for _, e := range evs {
				w.Write(e)
			}
			if crash != "" {
				w.Write(Ev{"e": "crash", "msg": crash})
			}
		}
	}
}
